"""pipesim oracles and batches: C02, C07, C08 and the program clauses of C03, C09,
C11, C15.  Each oracle runs the configurations its property needs (always
including REF = single-cycle mode) and reads the recorded event logs.
"""
from ..core import findings
from ..core.batch import Batch
from ..core.result import Result
from ..core.rng import Hasher
from ..core.shrink import Budget, ddmin_list
from ..memsim.models import RefCache
from . import gen as G
from . import ir
from .exec import run_ref, run_five, summary, cache_counters, REF_CAP, SutConstructionError
from .models import schedule, run_delayed

SUMMARY_KEYS = ["regs", "mem", "output", "exit_code", "instruction_count", "branch_count", "procedure_count"]


# ---------------------------------------------------------------------------
# helpers


def _caches(trace):
    cfg = trace["cfg"]
    return (cfg["dc"] if cfg.get("dc_on") else None, cfg["ic"] if cfg.get("ic_on") else None)


def _hash_ticks(hs, ticks):
    for r in ticks:
        hs.add(r[:15], r[16])


def _cover(res, five):
    prev = None
    for r in five["ticks"]:
        sig = hash(r[15])
        res.states.add(sig)
        if prev is not None:
            res.trans.add(hash((prev, sig)))
        prev = sig


def _probes_from(res, trace, ref, five, sch):
    """Reach measurement (DESIGN §4.7) from the REF trace, the model schedule and the tick log."""
    prog = trace["prog"]
    recs = ref["recs"]
    p = res.probes
    seen_idx = set()
    looped = False
    for i, rec in enumerate(recs):
        idx = rec[1]
        ins = prog[idx] if 0 <= idx < len(prog) else None
        cls = ir.klass(ins) if ins else "?"
        if idx in seen_idx:
            looped = True
        seen_idx.add(idx)
        if rec[2]:
            p["flush by " + cls] += 1
            if cls == "branch" and ins[3] == idx + 1:
                p["branch taken to pc+4"] += 1
            nxt = prog[idx + 1] if idx + 1 < len(prog) else None
            if nxt is not None and not (cls == "branch" and ins[3] == idx + 1):
                k = ir.klass(nxt)
                if k == "store":
                    p["wrong-path store squashed"] += 1
                elif k == "ecall":
                    p["wrong-path ecall squashed"] += 1
                elif k == "load":
                    p["wrong-path load squashed"] += 1
        if rec[4]:
            p["flush by exit"] += 1
            if idx + 1 < len(prog):
                p["exit ecall with younger instructions behind it"] += 1
        if sch is not None:
            hz = sch["haz"][i]
            if hz:
                dists = {d for d, _ in hz}
                regs = {r for _, r in hz}
                if ins[0] in ir.R3 or ins[0] in ir.BR or ins[0] in ir.ST:
                    s1 = ins[2] if ins[0] in ir.R3 else ins[1]
                    s2 = ins[3] if ins[0] in ir.R3 else ins[2]
                    if ins[0] in ir.ST:
                        s1, s2 = ins[2], ins[1]
                    a, b = s1 in regs, s2 in regs
                    p["interlock on " + ("both sources" if a and b else "rs1 only" if a else "rs2 only")] += 1
                else:
                    p["interlock on rs1 only"] += 1
                for d in dists:
                    p[f"interlock producer at distance {d}"] += 1
            if rec[3]:
                p["ecall drains" if sch["drain"][i] else "ecall does not drain"] += 1
                if i > 0 and recs[i - 1][3]:
                    p["two ecalls back to back"] += 1
    if looped:
        p["loop: an instruction executed more than once"] += 1
    for r in five["ticks"]:
        if r[11] is not None and r[15][2] and r[15][1] is None and r[11][0] == 1:
            p["decode stall cancelled by a flush"] += 1
        if r[11] is not None and r[11][0] == 2:
            p["tick inside an ecall drain"] += 1
    if five["exc"]:
        p["fault raised in five-stage mode"] += 1
    for f in trace.get("plan", {}).get("faults", []):
        res.faults[f"F-instr:{f['kind']}@{f['placement']}"] += 1


def _cmp_summaries(res, prop, kind, a, b, keys, **detail):
    for k in keys:
        if a[k] != b[k]:
            ea, eb = a[k], b[k]
            if k in ("regs",):
                diff = {f"x{i}": (x, y) for i, (x, y) in enumerate(zip(ea, eb)) if x != y}
            elif k == "mem":
                diff = {hex(x): (ea.get(x, 0), eb.get(x, 0)) for x in sorted(set(ea) | set(eb)) if ea.get(x, 0) != eb.get(x, 0)}
                diff = dict(list(diff.items())[:8])
            else:
                diff = (ea, eb)
            res.violate(prop, kind, expected=str(ea)[:200], got=str(eb)[:200], field=k, diff=str(diff)[:400], **detail)
            return False
    return True


def _tick_cap(n):
    return 20 * n + 100


# ---------------------------------------------------------------------------
# C02


def check_c02(trace, res: Result, hs: Hasher):
    dc, ic = _caches(trace)
    ref = run_ref(trace, dc, ic)
    recs = ref["recs"]
    n = len(recs)
    five = run_five(trace, True, dc, ic, max_ticks=_tick_cap(n), stop_after_retired=n if ref["capped"] else None)
    _hash_ticks(hs, five["ticks"])
    hs.add("ref", n, ref["exc"] and ref["exc"]["type"], ref["capped"])
    _cover(res, five)
    sch = schedule(recs, trace["prog"], True)
    _probes_from(res, trace, ref, five, sch)
    res.sim["ticks"] += len(five["ticks"])
    res.sim["retired"] += n
    res.nontrivial = n >= 3 and any(r[3] or r[4] for r in five["ticks"][-1:])

    # (1) order of retired instructions, destination value at retirement
    final_out = recs[-1][7] if recs else 0
    k = 0
    for r in five["ticks"]:
        if r[5] > final_out and not ref["exc"] and not ref["capped"]:
            res.violate("C02", "squash-output", at=r[0], expected=final_out, got=r[5],
                        note="console output grew beyond what single-cycle mode ever prints")
            return
        if r[1] is None:
            continue
        if k >= n:
            if ref["capped"]:
                break
            res.violate("C02", "retire-extra", at=r[0], expected=None, got=r[1],
                        note="five-stage mode retired an instruction single-cycle mode never executes")
            return
        if r[1] != recs[k][0]:
            res.violate("C02", "retire-order", at=r[0], expected=recs[k][0], got=r[1], retire_index=k)
            return
        if recs[k][5] and r[16] is not None and r[16] != recs[k][6]:
            res.violate("C02", "retire-value", at=r[0], expected=recs[k][6], got=r[16], retire_index=k,
                        register=recs[k][5], address=r[1])
            return
        k += 1
    if ref["capped"]:
        res.probes["reference hit the step cap (prefix compared only)"] += 1
        if five["exc"]:
            res.violate("C02", "spurious-fault", expected=None, got=five["exc"])
        return
    # (5) faults
    if ref["exc"]:
        res.probes["reference run faulted"] += 1
        if not five["exc"]:
            if five["done"]:
                res.violate("C02", "fault-not-reported", expected=ref["exc"], got=None)
            else:
                res.hang = f"five-stage mode neither faulted nor finished within {_tick_cap(n)} ticks"
            return
        if five["exc"]["type"] != "InstructionExecutionException" or five["exc"]["address"] != ref["exc"]["address"]:
            res.violate("C02", "fault-address", expected=ref["exc"]["address"], got=five["exc"]["address"],
                        ref_exc=ref["exc"], five_exc=five["exc"])
            return
        a, b = summary(ref["sim"]), summary(five["sim"])
        _cmp_summaries(res, "C02", "fault-state", a, b, ["regs", "mem", "output"], address=ref["exc"]["address"])
        return
    if five["exc"]:
        res.violate("C02", "spurious-fault", expected=None, got=five["exc"],
                    note="five-stage mode faulted although single-cycle mode does not")
        return
    # (4) liveness
    if not five["done"]:
        res.hang = f"single-cycle mode finished after {n} instructions, five-stage mode not done after {_tick_cap(n)} ticks"
        return
    if k != n:
        res.violate("C02", "retire-missing", expected=n, got=k, note="five-stage mode finished with fewer retirements")
        return
    # (2) final state
    a, b = summary(ref["sim"]), summary(five["sim"])
    _cmp_summaries(res, "C02", "final-state", a, b, SUMMARY_KEYS)


# ---------------------------------------------------------------------------
# C07


def check_c07(trace, res: Result, hs: Hasher):
    dc, ic = _caches(trace)
    per_step = []

    def hook(sim, ins, i):
        per_step.append((sim.state.performance_metrics.cycles,) + cache_counters(sim))

    ref = run_ref(trace, dc, ic, hook=hook)
    recs = ref["recs"]
    n = len(recs)
    # "each step advances the cycle counter by exactly one plus the miss penalties incurred in that step"
    # holds for single-cycle steps as well
    per_step.append((ref["sim"].state.performance_metrics.cycles,) + cache_counters(ref["sim"]))
    if not ref["exc"]:
        for i in range(len(per_step) - 1):
            a, b = per_step[i], per_step[i + 1]
            dmiss = ((b[1] or 0) - (a[1] or 0)) - ((b[2] or 0) - (a[2] or 0))
            imiss = ((b[3] or 0) - (a[3] or 0)) - ((b[4] or 0) - (a[4] or 0))
            want = 1 + (dc["pen"] if dc else 0) * dmiss + (ic["pen"] if ic else 0) * imiss
            if b[0] - a[0] != want:
                res.violate("C07", "cycle-delta", at=i + 1, expected=want, got=b[0] - a[0], mode="single",
                            data_misses=dmiss, instr_misses=imiss)
                return
    five = run_five(trace, True, dc, ic, max_ticks=_tick_cap(n), stop_after_retired=n if ref["capped"] else None)
    _hash_ticks(hs, five["ticks"])
    _cover(res, five)
    sch = schedule(recs, trace["prog"], True)
    _probes_from(res, trace, ref, five, sch)
    res.sim["ticks"] += len(five["ticks"])
    res.sim["retired"] += n
    W = sch["W"]
    res.nontrivial = n >= 3 and (any(sch["haz"]) or any(sch["drain"]) or any(r[2] for r in recs))

    # (3) per tick: cycle-counter delta == 1 + penalties of the misses counted in this tick
    dpen = dc["pen"] if dc else 0
    ipen = ic["pen"] if ic else 0
    prev = (0, 0, 0, 0, 0)
    for r in five["ticks"]:
        dmiss = ((r[7] or 0) - prev[1]) - ((r[8] or 0) - prev[2])
        imiss = ((r[9] or 0) - prev[3]) - ((r[10] or 0) - prev[4])
        want = 1 + dpen * dmiss + ipen * imiss
        if r[2] - prev[0] != want:
            res.violate("C07", "cycle-delta", at=r[0], expected=want, got=r[2] - prev[0], data_misses=dmiss, instr_misses=imiss)
            return
        if dmiss or imiss:
            res.probes["tick with a miss penalty"] += 1
        prev = (r[2], r[7] or 0, r[8] or 0, r[9] or 0, r[10] or 0)

    # (1) retire tick of every instruction.  The dynamic stream is the five-stage run's *own* retire
    # sequence and the branch outcomes are the pipeline's own evaluations (comparison flag in the MEM
    # latch): the documented schedule is a statement about timing, so a disagreement between the two
    # modes about values or branch directions (C01 / C02) must not surface here.
    prog = trace["prog"]
    stream = []  # (addr, idx, redirect, is_ecall)
    obs = []  # observed retire ticks
    prev_mem = (None, None)
    for r in five["ticks"]:
        if r[1] is not None:
            idx = r[1] // 4
            ins = prog[idx] if r[1] % 4 == 0 and 0 <= idx < len(prog) else None
            if ins is None:
                break
            cls = ir.klass(ins)
            cmp_ = prev_mem[1] if prev_mem[0] == r[1] else None
            redirect = cls in ("jal", "jalr") or (cls == "branch" and bool(cmp_))
            stream.append((r[1], idx, redirect, cls == "ecall"))
            obs.append(r[0])
        prev_mem = (r[17], r[18])
    if not stream and prog and not five["exc"]:
        # an instruction exists at address 0: it is fetched in the first cycle and retires in the fifth
        res.violate("C07", "nothing-retired", expected="first instruction retires in cycle 5", got=f"{len(five['ticks'])} ticks, no retirement")
        return
    sch2 = schedule(stream, prog, True)
    W2 = sch2["W"]
    for k, t_obs in enumerate(obs):
        if t_obs != W2[k]:
            res.violate("C07", "retire-tick", at=t_obs, expected=W2[k], got=t_obs, retire_index=k, address=stream[k][0],
                        schedule={key: sch2[key][max(0, k - 2): k + 1] for key in ("F", "D", "E", "X")})
            return
    if five["exc"] or not five["done"]:
        res.probes["total-tick clause skipped (fault or cap)"] += 1
        return
    total = len(five["ticks"])
    want_total = W2[-1] if W2 else 0
    if total != want_total:
        res.violate("C07", "total-ticks", expected=want_total, got=total, instructions=len(stream))
        return
    # (2) n mutually independent straight-line instructions => n + 4
    if trace.get("plan", {}).get("shape") == "independent":
        nprog = len(prog)
        want = nprog + 4 if nprog else 0
        res.probes["independent straight-line program"] += 1
        if total != want:
            res.violate("C07", "n-plus-4", expected=want, got=total, instructions=nprog)


# ---------------------------------------------------------------------------
# C08


def check_c08(trace, res: Result, hs: Hasher):
    dc, ic = _caches(trace)
    model = run_delayed(trace, dc, ic)
    n = model["n"]
    if model["capped"]:
        res.discarded = "model run hit the step cap"
        return
    five = run_five(trace, False, dc, ic, max_ticks=_tick_cap(n))
    _hash_ticks(hs, five["ticks"])
    _cover(res, five)
    res.sim["ticks"] += len(five["ticks"])
    res.sim["retired"] += n
    res.nontrivial = n >= 3
    for f in trace.get("plan", {}).get("faults", []):
        res.faults[f"F-instr:{f['kind']}@{f['placement']}"] += 1
    if model["stale"]:
        res.probes["run in which a stale register value was observed (and predicted)"] += 1
    if model["drains"]:
        res.probes["ecall drain with hazard detection off"] += 1
    # (2) no decode-stage stall is ever inserted
    for r in five["ticks"]:
        if r[19] or (r[15][1] is not None and r[15][1][0] == 1):
            # the decode stage asked for a stall (stall_signal in the ID latch) / the pipeline is held at decode
            res.violate("C08", "decode-stall-inserted", at=r[0], got={"stall_signal_in_ID_latch": r[19], "stalled": r[15][1]})
            return
        if r[15][2]:
            res.probes["flush with hazard detection off"] += 1
    # (4) faults
    if model["exc"]:
        res.probes["model run faulted (possibly on a stale value)"] += 1
        if not five["exc"]:
            if five["done"]:
                res.violate("C08", "fault-not-reported", expected=model["exc"], got=None)
            else:
                res.violate("C08", "not-done", expected="fault", got="still running")
            return
        # both fault: which address the error *reports* is C02's / C15's business, not C08's
        if five["exc"]["address"] != model["exc"]["address"]:
            res.probes["model and pipeline report different fault addresses (not a C08 matter)"] += 1
        return
    if five["exc"]:
        res.violate("C08", "spurious-fault", expected=None, got=five["exc"])
        return
    if not five["done"]:
        res.violate("C08", "not-done", expected=model["total_ticks"], got=len(five["ticks"]),
                    note="interlock-free pipeline did not finish although the model does")
        return
    # (1) final registers, memory, output, exit code, total ticks
    b = summary(five["sim"])
    a = summary(model["sim"])
    a["regs"] = model["regs"]
    if not _cmp_summaries(res, "C08", "final-state", a, b, ["regs", "mem", "output", "exit_code"], stale=model["stale"]):
        return
    if len(five["ticks"]) != model["total_ticks"]:
        # C08 speaks about which register writes an instruction observes, not about the cycle count: a
        # timing difference that never changes a value is not a violation (if it can change one, some
        # program shows it in the comparison above)
        res.probes["total ticks differ from the model although all values agree"] += 1
    # (3) nop-padded program == single-cycle mode
    padded = ir.pad_with_nops(trace["prog"], 2)
    ref2 = run_ref(trace, dc, ic, cap=3 * trace["cfg"].get("cap", REF_CAP), prog=padded)
    if ref2["capped"]:
        res.probes["padded program hit the step cap (clause skipped)"] += 1
        return
    five2 = run_five(trace, False, dc, ic, max_ticks=_tick_cap(len(ref2["recs"])), prog=padded)
    hs.add("padded", len(five2["ticks"]), five2["exc"] and five2["exc"]["address"])
    res.sim["ticks"] += len(five2["ticks"])
    res.probes["nop-padded program compared with single-cycle mode"] += 1
    if ref2["exc"] or five2["exc"]:
        if bool(ref2["exc"]) != bool(five2["exc"]):
            res.violate("C08", "padded-fault-differs", expected=ref2["exc"], got=five2["exc"],
                        note="one of single-cycle mode / interlock-free pipeline faults on the nop-padded program, the other does not")
        return
    if not five2["done"]:
        res.violate("C08", "padded-not-done", expected="done", got="running")
        return
    _cmp_summaries(res, "C08", "padded-final-state", summary(ref2["sim"]), summary(five2["sim"]),
                   ["regs", "mem", "output", "exit_code"])


# ---------------------------------------------------------------------------
# C03 (program clause): {single, five} x {data cache off, on}


def check_c03p(trace, res: Result, hs: Hasher):
    dc = trace["cfg"]["dc"]
    prog = trace["prog"]
    first_crossing = []

    def hook(sim, ins, i):
        # independent of the cache: does the uncached reference execute an access that crosses a word boundary?
        if ins is not None and not first_crossing and ir.klass(ins) in ("load", "store"):
            addr = (int(sim.state.register_file.registers[ins[2]]) + ins[3]) & 0xFFFFFFFF
            if (addr & 3) + ir.WIDTH[ins[0]] > 4:
                first_crossing.append(sim.state.program_counter)

    base = run_ref(trace, None, None, hook=hook)
    if base["capped"]:
        res.discarded = "reference hit the step cap"
        return
    n = len(base["recs"])
    first_crossing5 = []

    def on_tick(sim, r):
        # the same question for five-stage mode, from its own MEM latch (uncached run)
        if first_crossing5:
            return
        pr = sim.state.pipeline.pipeline_registers[3]
        a = pr.address_of_instruction
        if a is not None and a % 4 == 0 and 0 <= a // 4 < len(prog):
            ins = prog[a // 4]
            if ir.klass(ins) in ("load", "store") and getattr(pr, "memory_address", None) is not None:
                if (pr.memory_address & 3) + ir.WIDTH[ins[0]] > 4:
                    first_crossing5.append(a)

    runs = {
        "single/off": base,
        "single/on": run_ref(trace, dc, None),
        "five/off": run_five(trace, True, None, None, max_ticks=_tick_cap(n), on_tick=on_tick),
        "five/on": run_five(trace, True, dc, None, max_ticks=_tick_cap(n)),
    }
    for name in ("five/off", "five/on"):
        _hash_ticks(hs, runs[name]["ticks"])
        res.sim["ticks"] += len(runs[name]["ticks"])
    _cover(res, runs["five/on"])
    res.sim["retired"] += n
    nmem = sum(1 for rec in base["recs"] if 0 <= rec[1] < len(prog) and ir.klass(prog[rec[1]]) in ("load", "store"))
    res.nontrivial = n >= 3 and nmem >= 1
    for f in trace.get("plan", {}).get("faults", []):
        res.faults[f"F-instr:{f['kind']}@{f['placement']}"] += 1
    excs = {k: v["exc"] for k, v in runs.items()}
    hs.add({k: (v and v["address"]) for k, v in excs.items()})
    # a program that performs a word-crossing access: with the cache on it must be rejected at that
    # instruction - decided per mode from that mode's own uncached run
    pairs = []
    for off, on, fc in (("single/off", "single/on", first_crossing), ("five/off", "five/on", first_crossing5)):
        if fc:
            res.probes["program with a word-crossing access (cache on: rejected)"] += 1
            e = excs[on]
            # rejected = the run ends with an error at that instruction (an error that carries no address - how
            # errors are typed is C15's business - counts as a rejection)
            if not e or (e["address"] is not None and e["address"] != fc[0]):
                res.violate("C03", "crossing-access-not-rejected-at-its-instruction", expected=fc[0],
                            got=e and e["address"], configuration=on)
                return
        else:
            pairs.append((off, on))
    # no crossing access in that mode: the cache must be invisible there - cache on versus cache off
    # *within each pipeline mode* (whether the two modes agree with each other is C02's business)
    for off, on in pairs:
        eo, en = excs[off], excs[on]
        if bool(eo) != bool(en) or (eo and en and None not in (eo["address"], en["address"]) and eo["address"] != en["address"]):
            res.violate("C03", "fault-differs-with-cache", expected=eo, got=en, configuration=on)
            return
        if eo:
            res.probes["configurations fault at the same address with and without the cache"] += 1
            continue
        if runs[off].get("done", True) != runs[on].get("done", True):
            res.violate("C03", "termination-differs-with-cache", expected=runs[off].get("done"), got=runs[on].get("done"), configuration=on)
            return
        if not runs[off].get("done", True):
            res.probes["five-stage run not done within the tick cap (skipped)"] += 1
            continue
        a = summary(runs[off]["sim"])
        b = summary(runs[on]["sim"])
        if not _cmp_summaries(res, "C03", "result-differs-with-cache", a, b, ["regs", "output", "exit_code", "mem"], configuration=on):
            return
    if nmem and pairs:
        res.probes["program with loads/stores compared with and without the cache"] += 1


# ---------------------------------------------------------------------------
# C09 (program clause): counters identical in both modes, one count per executed load/store


def check_c09p(trace, res: Result, hs: Hasher):
    dc = trace["cfg"]["dc"]
    single = run_ref(trace, dc, None)
    if single["capped"]:
        res.discarded = "reference hit the step cap"
        return
    n = len(single["recs"])
    five = run_five(trace, True, dc, None, max_ticks=_tick_cap(n))
    _hash_ticks(hs, five["ticks"])
    _cover(res, five)
    res.sim["ticks"] += len(five["ticks"])
    res.sim["retired"] += n
    prog = trace["prog"]
    nmem = sum(1 for rec in single["recs"] if 0 <= rec[1] < len(prog) and ir.klass(prog[rec[1]]) in ("load", "store"))
    res.nontrivial = n >= 3 and nmem >= 2
    for f in trace.get("plan", {}).get("faults", []):
        res.faults[f"F-instr:{f['kind']}@{f['placement']}"] += 1
    if single["exc"] or five["exc"] or not five["done"]:
        # a faulting access is outside the accounting claim; the counters up to the fault still have to agree
        # when both modes fault at the same instruction
        if single["exc"] and five["exc"] and single["exc"]["address"] == five["exc"]["address"]:
            sa = (single["sim"].state.memory.accesses, single["sim"].state.memory.hits)
            fa = (five["sim"].state.memory.accesses, five["sim"].state.memory.hits)
            # the faulting access itself may or may not have been counted before it was rejected
            # (rejected accesses are outside the accounting claim): tolerate one
            if abs(sa[0] - fa[0]) > 1 or abs(sa[1] - fa[1]) > 1:
                res.violate("C09", "counters-differ-between-modes-at-fault", expected=list(sa), got=list(fa))
            res.probes["both modes faulted at the same instruction (counters compared)"] += 1
        return
    ms, mf = single["sim"].state.memory, five["sim"].state.memory
    hs.add("dc", ms.accesses, ms.hits, mf.accesses, mf.hits)
    if ms.accesses != nmem:
        res.violate("C09", "single-cycle-access-count", expected=nmem, got=ms.accesses)
        return
    if mf.accesses != nmem:
        res.violate("C09", "five-stage-access-count", expected=nmem, got=mf.accesses)
        return
    if (ms.hits, ms.accesses, bool(ms.last_was_hit)) != (mf.hits, mf.accesses, bool(mf.last_was_hit)):
        res.violate("C09", "counters-differ-between-modes", expected=[ms.hits, ms.accesses, ms.last_was_hit],
                    got=[mf.hits, mf.accesses, mf.last_was_hit])
        return
    if nmem:
        res.probes["program with a data cache compared across modes"] += 1


# ---------------------------------------------------------------------------
# C12 (program clause): the invariant at the end of programs, in both modes


def check_c12p(trace, res: Result, hs: Hasher):
    """The access histories of C12 include those that *programs* issue: in each pipeline mode the run with the data
    cache is compared, at its end, with the run without it (whose flat memory is the logical content): write-through -
    backing memory and every resident word equal the logical content; write-back - every resident word equals it, and
    backing memory equals it outside resident blocks.  Cache on versus off within one mode: whether the modes agree
    with each other is C02's business, whether reads return the right values C03's."""
    dc = trace["cfg"]["dc"]
    base = run_ref(trace, None, None)
    if base["capped"]:
        res.discarded = "reference hit the step cap"
        return
    n = len(base["recs"])
    pairs = {
        "single": (base, run_ref(trace, dc, None)),
        "five": (run_five(trace, True, None, None, max_ticks=_tick_cap(n)), run_five(trace, True, dc, None, max_ticks=_tick_cap(n))),
    }
    _hash_ticks(hs, pairs["five"][1]["ticks"])
    _cover(res, pairs["five"][1])
    res.sim["ticks"] += len(pairs["five"][1]["ticks"])
    res.sim["retired"] += n
    prog = trace["prog"]
    nst = sum(1 for rec in base["recs"] if 0 <= rec[1] < len(prog) and ir.klass(prog[rec[1]]) == "store")
    res.nontrivial = n >= 3 and nst >= 1
    for f in trace.get("plan", {}).get("faults", []):
        res.faults[f"F-instr:{f['kind']}@{f['placement']}"] += 1
    for mode, (off, on) in pairs.items():
        if off["exc"] or on["exc"] or not off.get("done", True) or not on.get("done", True):
            # a rejected access ends the program; what the hierarchy looks like after an error in the *program* is
            # covered by the access histories of memsim (rejected accesses there are followed by further operations)
            res.probes["program ended with an error or not at all (invariant not evaluated)"] += 1
            continue
        ref = {a: int(v) for a, v in off["sim"].state.memory.memory_file.items() if int(v)}
        mem = on["sim"].state.memory
        try:
            back = {a: int(v) for a, v in mem.memory.memory_file.items() if int(v)}
            resident = {}
            for st in mem.cache.sets:
                for b in st.blocks:
                    if b.valid_bit:
                        a0 = b.decoded_address.block_alinged_address
                        for i, wd in enumerate(b.values):
                            for j in range(4):
                                resident[(a0 + 4 * i + j) & 0xFFFFFFFF] = (int(wd) >> (8 * j)) & 0xFF
        except Exception as e:  # noqa: BLE001
            res.violate("C12", "hierarchy-unreadable", got=f"{type(e).__name__}: {e}"[:200], mode=mode)
            return
        hs.add(mode, len(back), len(resident))
        wt = dc["kind"] == "wt"
        bad = [(a, v, ref.get(a, 0)) for a, v in sorted(resident.items()) if v != ref.get(a, 0)]
        if bad:
            res.violate("C12", "wt-resident-differs" if wt else "wb-resident-wrong", mode=mode, expected=[(hex(a), r_) for a, _, r_ in bad[:4]],
                        got=[(hex(a), v) for a, v, _ in bad[:4]], note="bytes of resident blocks against the run without the cache")
            return
        addrs = set(back) | set(ref)
        if wt:
            bad = [(a, back.get(a, 0), ref.get(a, 0)) for a in sorted(addrs) if back.get(a, 0) != ref.get(a, 0)]
            kind = "wt-backing-stale"
        else:
            bad = [(a, back.get(a, 0), ref.get(a, 0)) for a in sorted(addrs) if a not in resident and back.get(a, 0) != ref.get(a, 0)]
            kind = "wb-lost-value"
        if bad:
            res.violate("C12", kind, mode=mode, expected=[(hex(a), r_) for a, _, r_ in bad[:4]], got=[(hex(a), v) for a, v, _ in bad[:4]],
                        note="backing memory against the run without the cache" + ("" if wt else " (outside resident blocks)"))
            return
        if nst:
            res.probes[f"program with stores: {'write-through' if wt else 'write-back'} invariant holds at the end ({mode})"] += 1


def _icache_residency(im):
    """{set index: frozenset of valid tags} of an InstructionMemoryCacheSystem (white-box, no side effects)."""
    return {
        k: frozenset(b.decoded_address.tag for b in st.blocks if b.valid_bit)
        for k, st in enumerate(im.cache.sets)
    }


def _ref_residency(ref, nsets):
    return {k: frozenset(t for t in ref.sets[k].tags if t is not None) for k in range(nsets)}


# ---------------------------------------------------------------------------
# C11 (program clause): instruction cache transparent, fetch accounting


def check_c11p(trace, res: Result, hs: Hasher):
    cfg = trace["cfg"]
    ic = cfg["ic"]
    dc = cfg["dc"] if cfg.get("dc_on") else None
    prog = trace["prog"]
    for f in trace.get("plan", {}).get("faults", []):
        res.faults[f"F-instr:{f['kind']}@{f['placement']}"] += 1

    # ---- single-cycle mode
    plain = run_ref(trace, dc, None)
    if plain["capped"]:
        res.discarded = "reference hit the step cap"
        return
    refc = RefCache("ro", ic["ib"], ic["bb"], ic["ways"], ic["strat"])
    cached = run_ref(trace, dc, ic, spy=True)
    n = len(plain["recs"])
    res.sim["retired"] += n
    im = cached["sim"].state.instruction_memory
    placed = cached["sim"]._dst_program
    # the observed fetch stream (spy on read_instruction): every fetch returns the instruction that was placed there
    for (a, got) in cached["fetches"]:
        refc.access(a, False)
        want = placed[a // 4] if a % 4 == 0 and 0 <= a // 4 < len(placed) else None
        if got is not want:
            res.violate("C11", "fetched-wrong-instruction", address=a, expected=repr(want), got=repr(got), mode="single")
            return
    nfetch = len(cached["fetches"])
    hs.add("single", im.accesses, im.hits, refc.acc, refc.hits)
    if (plain["exc"] and plain["exc"]["address"]) != (cached["exc"] and cached["exc"]["address"]):
        res.violate("C11", "fault-differs-with-instruction-cache", expected=plain["exc"], got=cached["exc"], mode="single")
        return
    if not _cmp_summaries(res, "C11", "result-differs-with-instruction-cache", summary(plain["sim"]), summary(cached["sim"]),
                          ["regs", "mem", "output", "exit_code", "instruction_count"], mode="single"):
        return
    # exactly one access per executed instruction in single-cycle mode, and accesses == fetches performed.  The
    # executed instructions are counted by the harness (completed steps; a step that ends in a fault has fetched its
    # instruction too) - whether the simulator's own instruction counter includes the faulting instruction is not
    # something the property states
    executed = len(cached["recs"])
    if im.accesses != nfetch or im.accesses not in ((executed, executed + 1) if cached["exc"] else (executed,)):
        res.violate("C11", "fetch-count", expected=nfetch, got=im.accesses, mode="single", executed_instructions=executed,
                    faulted=bool(cached["exc"]))
        return
    if (im.hits, bool(im.last_was_hit)) != (refc.hits, bool(refc.last)) and nfetch:
        res.violate("C11", "hit-count", expected=[refc.hits, refc.last], got=[im.hits, im.last_was_hit], mode="single")
        return
    # which blocks are resident decides every later hit: a different resident set means that some
    # continuation of this fetch stream gets a different hit count than the reference cache
    if _icache_residency(im) != _ref_residency(refc, 1 << ic["ib"]):
        res.violate("C11", "resident-blocks-differ-from-reference-cache", mode="single",
                    expected={k: sorted(v) for k, v in _ref_residency(refc, 1 << ic["ib"]).items()},
                    got={k: sorted(v) for k, v in _icache_residency(im).items()})
        return
    # every instruction-cache miss adds the configured penalty: isolated from everything else that moves the
    # cycle counter (steps, data-cache penalties - C07/C09's business) by subtracting the run without the
    # instruction cache, which performs the same steps and the same data accesses
    if not cached["exc"] and not plain["exc"]:
        extra = cached["sim"].state.performance_metrics.cycles - plain["sim"].state.performance_metrics.cycles
        want = ic["pen"] * (refc.acc - refc.hits)
        if extra != want:
            res.violate("C11", "penalty-cycles", expected=want, got=extra, mode="single", misses=refc.acc - refc.hits,
                        note="cycles with the instruction cache minus cycles without it")
            return

    # ---- five-stage mode
    ref5 = RefCache("ro", ic["ib"], ic["bb"], ic["ways"], ic["strat"])
    plain5 = run_five(trace, True, dc, None, max_ticks=_tick_cap(n))
    five = run_five(trace, True, dc, ic, max_ticks=_tick_cap(n), spy=True)
    _hash_ticks(hs, five["ticks"])
    _cover(res, five)
    res.sim["ticks"] += len(five["ticks"])
    im5 = five["sim"].state.instruction_memory
    placed5 = five["sim"]._dst_program
    st5 = {"fetches": len(five["fetches"])}
    for (a, got) in five["fetches"]:
        ref5.access(a, False)
        want = placed5[a // 4] if a % 4 == 0 and 0 <= a // 4 < len(placed5) else None
        if got is not want:
            res.violate("C11", "fetched-wrong-instruction", address=a, expected=repr(want), got=repr(got), mode="five")
            return
    res.nontrivial = n >= 3 and ref5.acc > ref5.hits + 1
    if (plain5["exc"] and plain5["exc"]["address"]) != (five["exc"] and five["exc"]["address"]):
        res.violate("C11", "fault-differs-with-instruction-cache", expected=plain5["exc"], got=five["exc"], mode="five")
        return
    if plain5["done"] != five["done"]:
        res.violate("C11", "termination-differs-with-instruction-cache", expected=plain5["done"], got=five["done"], mode="five")
        return
    if not _cmp_summaries(res, "C11", "result-differs-with-instruction-cache", summary(plain5["sim"]), summary(five["sim"]),
                          ["regs", "mem", "output", "exit_code", "instruction_count"], mode="five"):
        return
    if len(plain5["ticks"]) != len(five["ticks"]):
        res.violate("C11", "tick-count-differs-with-instruction-cache", expected=len(plain5["ticks"]), got=len(five["ticks"]))
        return
    if im5.accesses != st5["fetches"]:
        res.violate("C11", "fetch-count", expected=st5["fetches"], got=im5.accesses, mode="five")
        return
    if im5.hits != ref5.hits:
        res.violate("C11", "hit-count", expected=ref5.hits, got=im5.hits, mode="five", fetches=st5["fetches"])
        return
    if _icache_residency(im5) != _ref_residency(ref5, 1 << ic["ib"]):
        res.violate("C11", "resident-blocks-differ-from-reference-cache", mode="five",
                    expected={k: sorted(v) for k, v in _ref_residency(ref5, 1 << ic["ib"]).items()},
                    got={k: sorted(v) for k, v in _icache_residency(im5).items()})
        return
    # (3) penalty per tick, isolated the same way: (cycle delta with the instruction cache) - (cycle delta
    # of the same tick without it) == penalty x instruction misses counted in that tick
    prev_on = prev_off = 0
    prev_acc = prev_hit = 0
    for r, q in zip(five["ticks"], plain5["ticks"]):
        imiss = ((r[9] or 0) - prev_acc) - ((r[10] or 0) - prev_hit)
        extra = (r[2] - prev_on) - (q[2] - prev_off)
        if extra != ic["pen"] * imiss:
            res.violate("C11", "penalty-cycles", at=r[0], expected=ic["pen"] * imiss, got=extra, mode="five", instr_misses=imiss)
            return
        prev_on, prev_off, prev_acc, prev_hit = r[2], q[2], r[9] or 0, r[10] or 0
    # probes
    nblk = 1 << ic["bb"]
    if len(prog) % nblk:
        res.probes["instruction-cache block straddles the program end"] += 1
    if any(rec[2] and rec[1] >= 0 for rec in plain["recs"]):
        res.probes["redirected fetch with an instruction cache"] += 1
    if ref5.acc > 0 and ref5.hits > 0:
        res.probes["instruction-cache hit"] += 1
    cap_blocks = (1 << ic["ib"]) * ic["ways"] * nblk
    if len(prog) > cap_blocks and any(rec[2] for rec in plain["recs"]):
        res.probes["program larger than the instruction cache with control flow"] += 1


# ---------------------------------------------------------------------------
# C15 (run-time clause): every run-time failure is an InstructionExecutionException
# carrying the address and printed form of the instruction that failed


def check_c15p(trace, res: Result, hs: Hasher):
    dc, ic = _caches(trace)
    ref = run_ref(trace, dc, ic)
    n = len(ref["recs"])
    five = run_five(trace, True, dc, ic, max_ticks=_tick_cap(n), stop_after_retired=n if ref["capped"] else None)
    _hash_ticks(hs, five["ticks"])
    _cover(res, five)
    res.sim["ticks"] += len(five["ticks"])
    res.sim["retired"] += n
    for f in trace.get("plan", {}).get("faults", []):
        res.faults[f"F-instr:{f['kind']}@{f['placement']}"] += 1
    hs.add(ref["exc"] and ref["exc"]["address"], five["exc"] and five["exc"]["address"])
    res.nontrivial = n >= 2 and bool(ref["exc"] or five["exc"])
    backing = ref["sim"].state.instruction_memory
    backing = getattr(backing, "instruction_memory", backing).instructions
    if ref["exc"]:
        e = ref["exc"]
        pc = ref["sim"].state.program_counter
        res.probes["run-time fault in single-cycle mode: " + e["msg"].split("(")[0][:40]] += 1
        if e["type"] != "InstructionExecutionException":
            res.violate("C15", "runtime-error-type", expected="InstructionExecutionException", got=e["type"], mode="single")
            return
        if e["address"] != pc:
            res.violate("C15", "runtime-error-address", expected=pc, got=e["address"], mode="single")
            return
        if e["repr"] != repr(backing.get(pc)):
            res.violate("C15", "runtime-error-instruction-text", expected=repr(backing.get(pc)), got=e["repr"], mode="single")
            return
    if five["exc"]:
        e = five["exc"]
        res.probes["run-time fault in five-stage mode"] += 1
        if e["type"] != "InstructionExecutionException":
            res.violate("C15", "runtime-error-type", expected="InstructionExecutionException", got=e["type"], mode="five")
            return
        b5 = five["sim"].state.instruction_memory
        b5 = getattr(b5, "instruction_memory", b5).instructions
        if e["address"] not in b5 or e["repr"] != repr(b5.get(e["address"])):
            res.violate("C15", "runtime-error-instruction-text", expected=repr(b5.get(e["address"])), got=e["repr"], mode="five", address=e["address"])
            return
        # the instruction that failed is the one single-cycle mode fails on - asserted only when the two
        # modes executed the same instructions up to there (otherwise the disagreement is C02's)
        retired = [r[1] for r in five["ticks"] if r[1] is not None]
        same_path = retired == [rec[0] for rec in ref["recs"][: len(retired)]]
        if ref["exc"] and same_path and len(ref["recs"]) - len(retired) <= 3 and e["address"] != ref["exc"]["address"]:
            res.violate("C15", "runtime-error-address", expected=ref["exc"]["address"], got=e["address"], mode="five")
            return


# ---------------------------------------------------------------------------
# batches

ORACLES = {
    "C02": check_c02,
    "C07": check_c07,
    "C08": check_c08,
    "C03": check_c03p,
    "C09": check_c09p,
    "C12": check_c12p,
    "C11": check_c11p,
    "C15": check_c15p,
}


def describe(trace):
    return {
        "program": [ir.fmt(x, i) for i, x in enumerate(trace["prog"])],
        "registers": {f"x{k}": (hex(v) if v > 9 else v) for k, v in sorted(trace["regs"].items(), key=lambda kv: int(kv[0]))},
        "memory_bytes": len(trace["mem"]),
        "cfg": trace["cfg"],
        "plan": trace.get("plan"),
    }


class Programs(Batch):
    engine = "pipesim"
    per_run_timeout_s = 30.0

    def __init__(self, name, runs_quick, runs_thorough, faults=True, force_shape=None, force=None, fault_rate=0.25, long=False):
        self.long = long
        self.name = name
        self.runs_quick = runs_quick
        self.runs_thorough = runs_thorough
        self.faults = faults
        self.force_shape = force_shape
        self.force = force or {}
        self.fault_rate = fault_rate

    def generate(self, seed):
        t = G.generate(seed, self.faults, self.force_shape, self.fault_rate, self.long)
        t["cfg"].update(self.force)
        return t

    def execute(self, trace, prop):
        res = Result()
        hs = Hasher()
        try:
            ORACLES[prop](trace, res, hs)
        except SutConstructionError as e:
            res.violate(prop, "simulation-could-not-be-constructed", got=str(e)[:300],
                        note="the constructor raised for a legal configuration")
        res.violations = [v for v in res.violations if v["property"] == prop]
        res.digest = hs.hexdigest()
        return res

    def describe(self, trace):
        return describe(trace)

    def shrink(self, trace, prop, still_fails, budget: Budget):
        prog = trace["prog"]

        def with_prog(p, base=None):
            t = dict(base or trace)
            t["prog"] = p
            return t

        # 1. ddmin over instructions (symbolic targets are retargeted to the next survivor)
        idxs = list(range(len(prog)))
        keep = ddmin_list(idxs, still_fails, budget, rebuild=lambda ks: with_prog(ir.retarget_after_delete(prog, sorted(ks))))
        cur = with_prog(ir.retarget_after_delete(prog, sorted(keep)))
        if not still_fails(cur):
            cur = dict(trace)
        # 2. replace instruction by nop
        p = [list(x) for x in cur["prog"]]
        for i in range(len(p)):
            if budget.spent():
                break
            if p[i][0] == "NOP":
                continue
            cand = p[:i] + [["NOP"]] + p[i + 1 :]
            budget.tick()
            if still_fails(with_prog(cand, cur)):
                p = cand
        cur = with_prog(p, cur)
        # 3. drop initial memory, then shrink initial registers towards 0
        if cur["mem"] and not budget.spent():
            cand = dict(cur)
            cand["mem"] = {}
            budget.tick()
            if still_fails(cand):
                cur = cand
        for k in list(cur["regs"]):
            if budget.spent():
                break
            for v in (0, 1):
                if cur["regs"][k] == v:
                    break
                cand = dict(cur)
                cand["regs"] = {**cur["regs"], k: v}
                budget.tick()
                if still_fails(cand):
                    cur = cand
                    break
        regs = {k: v for k, v in cur["regs"].items()}
        for k in list(regs):
            if budget.spent():
                break
            if regs[k] == 0:
                cand = dict(cur)
                cand["regs"] = {a: b for a, b in cur["regs"].items() if a != k}
                budget.tick()
                if still_fails(cand):
                    cur = cand
        # 4. shrink immediates
        p = [list(x) for x in cur["prog"]]
        for i, ins in enumerate(p):
            if budget.spent():
                break
            if ins[0] in ir.IT or ins[0] in ir.SHI or ins[0] in ir.LD or ins[0] in ir.ST or ins[0] == "JALR":
                for v in (0, 1, 4):
                    if ins[3] == v:
                        break
                    cand = [list(x) for x in p]
                    cand[i][3] = v
                    budget.tick()
                    if still_fails(with_prog(cand, cur)):
                        p = cand
                        break
        cur = with_prog(p, cur)
        # 5. shrink cache configuration towards "off"
        cfg = dict(cur["cfg"])
        for key in ("ic_on", "dc_on", "decoy", "probe_before_load"):
            if budget.spent():
                break
            if cfg.get(key) and key not in self.force:
                cand = dict(cur)
                cand["cfg"] = {**cfg, key: False}
                budget.tick()
                if still_fails(cand):
                    cur = cand
                    cfg = cand["cfg"]
        for which in ("dc", "ic"):
            for key, small in (("pen", 0), ("ib", 0), ("bb", 0), ("ways", 1), ("strat", "lru")):
                if budget.spent():
                    break
                if cfg[which][key] == small:
                    continue
                c2 = {**cfg, which: {**cfg[which], key: small}}
                cand = dict(cur)
                cand["cfg"] = c2
                budget.tick()
                if still_fails(cand):
                    cur = cand
                    cfg = c2
        # final ddmin pass
        prog2 = cur["prog"]
        keep = ddmin_list(list(range(len(prog2))), still_fails, budget,
                          rebuild=lambda ks: with_prog(ir.retarget_after_delete(prog2, sorted(ks)), cur))
        fin = with_prog(ir.retarget_after_delete(prog2, sorted(keep)), cur)
        if still_fails(fin):
            cur = fin
        cur["plan"] = {"shape": trace.get("plan", {}).get("shape"), "note": "minimised; original plan no longer applies",
                       "faults": [], "motifs": []}
        if not still_fails(cur):
            cur["plan"] = trace.get("plan")
        return cur


# ---------------------------------------------------------------------------
# known-finding predicates


@findings.predicate("jalr_target_not_wrapped")
def _p_jalr_wrap(trace, violation):
    """D1: the (minimised) program executes, in single-cycle mode, a JALR whose rs1 + imm lies
    outside [0, 2^32) - the only situation in which the unrepaired alu_compute differed."""
    hit = []

    def hook(sim, ins, i):
        if ins is not None and ins[0] == "JALR" and not hit:
            v = int(sim.state.register_file.registers[ins[2]]) + ins[3]
            if not (0 <= v < 2**32):
                hit.append(i)

    try:
        dc, ic = _caches(trace)
        run_ref(trace, dc, ic, hook=hook)
    except Exception:  # noqa: BLE001
        return False
    return bool(hit)
