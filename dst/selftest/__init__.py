"""python -m dst selftest determinism [--n N] [--props C02,C03]
   python -m dst selftest sensitivity [--only id,id] [--pytest] [--scale 0.3] [--tier quick]

determinism: N run indices per batch, executed (a) in this process, (b) through the fork pool
  with 4 workers, (c) in a fresh interpreter under PYTHONHASHSEED=1 and (d) under
  PYTHONHASHSEED=987654; the sha256 digests of the full event logs must agree.
sensitivity: every mutant of selftest/mutants.py is applied to a scratch copy of the
  repository (outside /repo and /verif, removed afterwards), the check of the property it
  attacks is aimed at the copy (VERIF_REPO) and must exit 1.
"""
import json
import os
import shutil
import subprocess
import sys
import tempfile
import time


def _arg(argv, name, default=None):
    if name in argv:
        return argv[argv.index(name) + 1]
    return default


def determinism(argv):
    import multiprocessing
    from concurrent.futures import ProcessPoolExecutor

    from ..core import rng
    from ..core.repo import VERIF_DIR, activate
    from ..core import runner

    activate()
    from ..checks import registry

    reg = registry()
    n = int(_arg(argv, "--n", "24"))
    props = (_arg(argv, "--props") or ",".join(sorted(reg))).split(",")
    root = rng.verif_seed()
    bad = 0
    total = 0
    t0 = time.monotonic()
    for prop in props:
        for b in reg[prop].batches:
            idx = list(range(n))
            a = runner.digests_for(prop, b.name, idx, root)
            ctx = multiprocessing.get_context("fork")
            with ProcessPoolExecutor(max_workers=4, mp_context=ctx) as pool:
                futs = [pool.submit(runner.digests_for, prop, b.name, idx[k::4], root) for k in range(4)]
                bpool = {}
                for f in futs:
                    bpool.update(f.result())
            outs = [a, bpool]
            for hs in ("1", "987654"):
                env = dict(os.environ, PYTHONHASHSEED=hs, VERIF_SEED=str(root))
                p = subprocess.run(
                    [sys.executable, "-m", "dst", "digests", prop, b.name] + [str(i) for i in idx],
                    cwd=VERIF_DIR, env=env, capture_output=True, text=True, timeout=1800,
                )
                try:
                    outs.append(json.loads(p.stdout.strip().splitlines()[-1]))
                except Exception:
                    print(f"  {prop}/{b.name}: fresh interpreter failed: {p.stderr[-400:]}")
                    outs.append({})
            mism = [i for i in idx if len({o.get(str(i)) for o in outs}) != 1]
            total += len(idx)
            bad += len(mism)
            print(f"{prop}/{b.name}: {len(idx)} runs x 4 executions (in-process, 4-worker pool, 2 fresh interpreters / hash seeds): "
                  + ("all digests equal" if not mism else f"MISMATCH at indices {mism[:10]}"), flush=True)
    print(f"determinism selftest: {total} runs, {bad} mismatches, {time.monotonic() - t0:.0f}s")
    return 1 if bad else 0


def _copy_repo(src, dst):
    for name in ("architecture_simulator", "tests", "pyproject.toml"):
        s = os.path.join(src, name)
        if os.path.isdir(s):
            shutil.copytree(s, os.path.join(dst, name), ignore=shutil.ignore_patterns("__pycache__", "*.pyc"))
        elif os.path.exists(s):
            shutil.copy(s, os.path.join(dst, name))


def sensitivity(argv):
    from ..core.repo import VERIF_DIR, repo_path
    from .mutants import MUTANTS

    only = _arg(argv, "--only")
    only = set(only.split(",")) if only else None
    scale = _arg(argv, "--scale", "0.3")
    tier = _arg(argv, "--tier", "quick")
    run_pytest = "--pytest" in argv
    rows = []
    src = repo_path()
    for (mid, prop, rel, old, new, note) in MUTANTS:
        if only and mid not in only and prop not in only:
            continue
        tmp = tempfile.mkdtemp(prefix="dst-mutant-")
        try:
            _copy_repo(src, tmp)
            path = os.path.join(tmp, rel)
            text = open(path).read()
            if text.count(old) != 1:
                rows.append((mid, prop, "STALE (pattern occurs %d times)" % text.count(old), "", 0))
                print(f"{mid}: STALE mutant (pattern occurs {text.count(old)} times)", flush=True)
                continue
            open(path, "w").write(text.replace(old, new))
            tests = ""
            if run_pytest:
                p = subprocess.run(
                    [sys.executable, "-m", "pytest", "-q", "-x", "-p", "no:cacheprovider"],
                    cwd=tmp, env=dict(os.environ, PYTHONPATH=tmp), capture_output=True, text=True, timeout=900,
                )
                tests = "tests pass" if p.returncode == 0 else "tests FAIL"
            env = dict(os.environ, VERIF_REPO=tmp, VERIF_SCALE=scale, VERIF_NO_RESAMPLE="1",
                       VERIF_EVIDENCE_DIR=os.path.join(tmp, "evidence"), VERIF_REPLAY_DIR=os.path.join(tmp, "replays"))
            t0 = time.monotonic()
            p = subprocess.run([sys.executable, "-m", "dst", "check", prop, "--tier", tier],
                               cwd=VERIF_DIR, env=env, capture_output=True, text=True, timeout=3600)
            dt = time.monotonic() - t0
            kinds = sorted({ln.strip().split(":")[0] for ln in p.stdout.splitlines() if ln.startswith("  ") and ": {" in ln})
            verdict = {0: "MISSED", 1: "caught", 2: "HARNESS-ERROR"}.get(p.returncode, f"rc={p.returncode}")
            rows.append((mid, prop, verdict, tests, dt))
            print(f"{mid}: {prop} {verdict} in {dt:.0f}s {tests} {kinds[:3]}", flush=True)
            if verdict == "HARNESS-ERROR":
                print("   " + "\n   ".join(p.stdout.splitlines()[-8:]))
        finally:
            shutil.rmtree(tmp, ignore_errors=True)
    caught = sum(1 for r in rows if r[2] == "caught")
    print(f"sensitivity selftest: {caught}/{len(rows)} mutants caught (scale {scale}, tier {tier})")
    out = os.path.join(VERIF_DIR, "dst", "selftest", "last_sensitivity.json")
    with open(out, "w") as f:
        json.dump([dict(mutant=r[0], property=r[1], verdict=r[2], tests=r[3], seconds=round(r[4], 1)) for r in rows], f, indent=1)
    return 0 if caught == len(rows) else 1


def silence(argv):
    """Every check against mutants that break only properties NOT claimed here: any alarm outside the
    mutant's `legit` list is a false alarm of the machinery."""
    from ..core.repo import VERIF_DIR, repo_path
    from .mutants import SILENCE

    scale = _arg(argv, "--scale", "0.1")
    only = _arg(argv, "--only")
    only = set(only.split(",")) if only else None
    props = (_arg(argv, "--props") or "C02,C03,C07,C08,C09,C10,C11,C12,C13,C15,C16,C18,C20").split(",")
    src = repo_path()
    bad = 0
    table = {}
    for (mid, broken, rel, old, new, note, legit) in SILENCE:
        if only and mid not in only:
            continue
        tmp = tempfile.mkdtemp(prefix="dst-silence-")
        try:
            _copy_repo(src, tmp)
            path = os.path.join(tmp, rel)
            text = open(path).read()
            if text.count(old) != 1:
                print(f"{mid}: STALE mutant (pattern occurs {text.count(old)} times)", flush=True)
                bad += 1
                continue
            open(path, "w").write(text.replace(old, new))
            row = {}
            for prop in props:
                env = dict(os.environ, VERIF_REPO=tmp, VERIF_SCALE=scale, VERIF_NO_RESAMPLE="1",
                           VERIF_EVIDENCE_DIR=os.path.join(tmp, "evidence"), VERIF_REPLAY_DIR=os.path.join(tmp, "replays"))
                p = subprocess.run([sys.executable, "-m", "dst", "check", prop, "--tier", "quick"],
                                   cwd=VERIF_DIR, env=env, capture_output=True, text=True, timeout=3600)
                kinds = sorted({ln.strip().split(":")[0] for ln in p.stdout.splitlines() if ln.startswith("  ") and ": {" in ln})
                row[prop] = (p.returncode, kinds)
                if p.returncode == 2 or (p.returncode == 1 and prop not in legit):
                    bad += 1
                    print(f"   !! {mid} ({broken}): {prop} rc={p.returncode} {kinds}  " + " | ".join(p.stdout.splitlines()[-4:])[:600])
            table[mid] = {k: {"rc": v[0], "kinds": v[1]} for k, v in row.items()}
            print(f"{mid} (breaks {broken}; legit alarms: {legit or 'none'}): "
                  + " ".join(f"{k}:{'X' if v[0] == 1 else '.' if v[0] == 0 else 'E'}" for k, v in row.items()), flush=True)
        finally:
            shutil.rmtree(tmp, ignore_errors=True)
    with open(os.path.join(VERIF_DIR, "dst", "selftest", "last_silence.json"), "w") as f:
        json.dump(table, f, indent=1, sort_keys=True)
    print(f"silence selftest: {bad} unexpected alarms / errors")
    return 1 if bad else 0


def main(argv):
    if not argv:
        print(__doc__)
        return 2
    if argv[0] == "determinism":
        return determinism(argv[1:])
    if argv[0] == "sensitivity":
        return sensitivity(argv[1:])
    if argv[0] == "silence":
        return silence(argv[1:])
    if argv[0] == "port":
        from .port_check import main as port_main

        return port_main(argv[1:])
    print(__doc__)
    return 2
