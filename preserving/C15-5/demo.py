"""Differential check for change 2 (capacity is checked before anything is written and is
reported with MemorySizeException for both ISAs; a failed load leaves an empty simulation).

What the property C15 talks about and what is therefore recorded per text:
  * load succeeds                        -> "OK" + the run outcome (final state digest, or the
                                            address/instruction of the InstructionExecutionException)
  * load fails with a ParserException    -> class name and line number (must be bit-identical) for
                                            texts that fit and have at most one injected fault; only
                                            "permitted failure" for multi-fault texts, token soups and
                                            texts that do not fit AND have another fault (C15 does not
                                            say which of several permitted failures is reported)
  * MemorySizeException/MemoryAddressError -> "MEM" (C15 permits either, for either ISA, for a
                                            program that does not fit)
  * anything else                        -> "ESCAPE <type>"  (a C15 violation)
After every failed load a small valid program is loaded into the SAME simulation object and
run; its outcome is recorded too (the simulation must stay usable).

Prints per-category counts and a SHA-256 over all per-case records.  The output must
be identical with and without the change.  Exit code 0.
"""
import hashlib
import random
import sys
from collections import Counter

from architecture_simulator.isa.parser_exceptions import (
    ParserException,
    MemorySizeException,
)
from architecture_simulator.uarch.memory.memory import MemoryAddressError
from architecture_simulator.simulation.runtime_errors import (
    InstructionExecutionException,
)
from architecture_simulator.simulation.riscv_simulation import RiscvSimulation
from architecture_simulator.simulation.toy_simulation import ToySimulation
from architecture_simulator.uarch.memory.cache import CacheOptions

REGS = ["x0", "x1", "x5", "x6", "x7", "x10", "x17", "x28", "t0", "a0", "a7", "s1", "sp"]
RTYPE = ["add", "sub", "sll", "slt", "sltu", "xor", "srl", "sra", "or", "and", "mul", "div", "remu"]
ITYPE = ["addi", "slti", "sltiu", "xori", "ori", "andi", "slli", "srli", "srai"]
LOADS = ["lb", "lh", "lw", "lbu", "lhu"]
STORES = ["sb", "sh", "sw"]
BTYPE = ["beq", "bne", "blt", "bge", "bltu", "bgeu"]

BAD_LITERALS = [
    "007",
    "-08",
    "0x",
    "0b",
    "0b2",
    "0xG1",
    "9" * 4400,
    "-" + "1" * 5000,
    "١٢٣",  # arabic-indic digits
    "１２",  # full-width digits
    "1_000",
    "+5",
    "1e3",
    "0o17",
    "--4",
]
ODD_BUT_VALID_LITERALS = ["0x" + "F" * 40, "0b" + "1" * 70, "00", "-0", "0x0000001", "4294967296"]


def good_imm(rng):
    r = rng.random()
    if r < 0.6:
        return str(rng.randint(-100, 100))
    if r < 0.8:
        return hex(rng.randint(0, 2047))
    if r < 0.9:
        return bin(rng.randint(0, 255))
    return rng.choice(ODD_BUT_VALID_LITERALS)


def riscv_program(rng, n_faults):
    """Returns (text, n_injected_faults). Grammar-derived program with injected faults."""
    data = []
    variables = []
    if rng.random() < 0.6:
        for i in range(rng.randint(1, 4)):
            name = f"var{i}"
            kind = rng.choice(["byte", "half", "word", "word", "string", "zero"])
            if kind == "string":
                data.append(f'{name}: .string "h{i}llo"')
            elif kind == "zero":
                data.append(f"{name}: .zero {rng.randint(1, 5)}")
            else:
                vals = ", ".join(good_imm(rng) for _ in range(rng.randint(1, 4)))
                data.append(f"{name}: .{kind} {vals}")
            variables.append(name)
    n_instr = rng.randint(1, 12)
    n_labels = rng.randint(0, 3)
    label_pos = sorted(rng.randint(1, n_instr) for _ in range(n_labels))
    labels = [f"L{i}" for i in range(n_labels)]
    text = []
    for i in range(n_instr):
        while label_pos and label_pos[0] == i:
            label_pos.pop(0)
            lab = labels[n_labels - len(label_pos) - 1]
            if rng.random() < 0.5:
                text.append(f"{lab}:")
            else:
                text.append(f"{lab}: addi x0, x0, 0")
        later = [
            labels[n_labels - len(label_pos) + k] for k in range(len(label_pos))
        ]
        r = rng.random()
        rd, rs1, rs2 = rng.choice(REGS), rng.choice(REGS), rng.choice(REGS)
        if r < 0.2:
            text.append(f"{rng.choice(RTYPE)} {rd}, {rs1}, {rs2}")
        elif r < 0.4:
            text.append(f"{rng.choice(ITYPE)} {rd}, {rs1}, {rng.randint(0, 31)}")
        elif r < 0.48:
            text.append(f"li {rd}, {good_imm(rng)}")
        elif r < 0.55 and variables:
            v = rng.choice(variables)
            idx = f"[{rng.randint(0, 3)}]" if rng.random() < 0.4 else ""
            form = rng.random()
            if form < 0.4:
                text.append(f"la {rd}, {v}{idx}")
            elif form < 0.7:
                text.append(f"{rng.choice(LOADS)} {rd}, {v}{idx}")
            else:
                text.append(f"{rng.choice(STORES)} {rd}, {v}{idx}, x28")
        elif r < 0.63:
            # mostly faulting at run time (addresses below the data memory)
            text.append(f"{rng.choice(LOADS + STORES)} {rd}, {rng.randint(-8, 64)}({rs1})")
        elif r < 0.72 and later:
            text.append(f"{rng.choice(BTYPE)} {rs1}, {rs2}, {rng.choice(later)}")
        elif r < 0.76 and later:
            text.append(f"jal {rng.choice(['x0', 'x1'])}, {rng.choice(later)}")
        elif r < 0.80:
            text.append(f"{rng.choice(['lui', 'auipc'])} {rd}, {rng.randint(0, 1000)}")
        elif r < 0.84:
            text.append(rng.choice(["ecall", "nop", "ebreak", f"fence {rd}, {rs1}"]))
        elif r < 0.88:
            text.append(f"mv {rd}, {rs1}")
        elif r < 0.92:
            text.append(
                f"{rng.choice(['csrrw', 'csrrs', 'csrrc'])} {rd}, {rng.choice(['0x000', '0x300', '0xC00', '4095'])}, {rs1}"
            )
        elif r < 0.95:
            text.append(
                f"{rng.choice(['csrrwi', 'csrrsi', 'csrrci'])} {rd}, {rng.choice(['0x000', '0x300'])}, {rng.randint(0, 31)}"
            )
        else:
            text.append(f"{rng.choice(BTYPE)} {rs1}, {rs2}, {2 * rng.randint(1, 4)}")
    for lab in labels[n_labels - len(label_pos):]:
        text.append(f"{lab}:")
    if rng.random() < 0.3:
        text.append("# a comment line")
    if rng.random() < 0.3:
        text.insert(rng.randint(0, len(text)), "")

    # assemble with segments
    layout = rng.random()
    if data:
        if layout < 0.5:
            lines = [".data"] + data + [".text"] + text
        else:
            lines = [".text"] + text + [".data"] + data
    else:
        lines = ([".text"] if layout < 0.3 else []) + text

    injected = 0
    for _ in range(n_faults):
        injected += inject_riscv_fault(rng, lines, variables, labels)
    if rng.random() < 0.3:
        lines = ["   " + l + "   # c" if l and not l.startswith("#") else l for l in lines]
    return "\n".join(lines), injected


def _instr_indices(lines):
    return [
        i
        for i, l in enumerate(lines)
        if l and not l.startswith((".", "#")) and not l.rstrip().endswith(":") and ": ." not in l
    ]


def inject_riscv_fault(rng, lines, variables, labels):
    kind = rng.choice(
        [
            "bad_literal_instr",
            "bad_literal_instr",
            "bad_literal_data",
            "bad_literal_li",
            "unknown_label",
            "unknown_variable",
            "unknown_directive",
            "dup_segment",
            "misplaced_decl",
            "misplaced_instr",
            "dup_label",
            "dup_variable",
            "odd_branch",
            "bad_mnemonic",
            "bad_register",
            "missing_operand",
            "bad_index",
            "bad_zero",
        ]
    )
    pos = rng.randint(0, len(lines))
    instr = _instr_indices(lines)
    lit = rng.choice(BAD_LITERALS)
    if kind == "bad_literal_instr":
        line = rng.choice(
            [
                f"addi x5, x6, {lit}",
                f"lw x5, {lit}(x6)",
                f"sw x5, {lit}(x6)",
                f"lui x5, {lit}",
                f"beq x5, x6, {lit}",
                f"jal x1, {lit}",
                f"csrrw x5, {lit}, x6",
                f"csrrwi x5, 0x300, {lit}",
                f"jalr x1, x5, {lit}",
            ]
        )
        if instr:
            lines.insert(rng.choice(instr), line)
        else:
            lines.append(line)
    elif kind == "bad_literal_li":
        line = f"li x5, {lit}"
        if instr:
            lines.insert(rng.choice(instr), line)
        else:
            lines.append(line)
    elif kind == "bad_literal_data":
        decl = f"bad{rng.randint(0, 99)}: .{rng.choice(['byte', 'half', 'word'])} 1, {lit}, 3"
        if ".data" in lines:
            lines.insert(lines.index(".data") + 1, decl)
        else:
            lines[0:0] = [".data", decl, ".text"]
    elif kind == "unknown_label":
        line = rng.choice(["beq x0, x0, nolabel", "jal x1, nolabel", "bne x5, x6, nolabel+0x10"])
        if instr:
            lines.insert(rng.choice(instr), line)
        else:
            lines.append(line)
    elif kind == "unknown_variable":
        line = rng.choice(["lw x5, novar", "la x5, novar[2]", "sw x5, novar, x6"])
        if instr:
            lines.insert(rng.choice(instr), line)
        else:
            lines.append(line)
    elif kind == "unknown_directive":
        lines.insert(pos, rng.choice([".bss", ".word 5", ".globl main", ".Data", ". text"]))
    elif kind == "dup_segment":
        lines.insert(pos, rng.choice([".data", ".text"]))
    elif kind == "misplaced_decl":
        line = "mis: .word 1, 2"
        if instr:
            lines.insert(rng.choice(instr), line)
        else:
            lines.append(line)
    elif kind == "misplaced_instr":
        if ".data" in lines:
            lines.insert(lines.index(".data") + 1, "addi x1, x1, 1")
        else:
            lines[0:0] = [".data", "addi x1, x1, 1", ".text"]
    elif kind == "dup_label":
        lab = rng.choice(labels) if labels else "Ldup"
        lines.append(f"{lab}:")
        lines.append(f"{lab}: add x0, x0, x0")
    elif kind == "dup_variable":
        v = rng.choice(variables) if variables else "vdup"
        decls = [f"{v}: .word 1", f"{v}: .byte 2"]
        if ".data" in lines:
            i = lines.index(".data") + 1
            lines[i:i] = decls
        else:
            lines[0:0] = [".data"] + decls + [".text"]
    elif kind == "odd_branch":
        line = rng.choice(["beq x0, x0, 3", "jal x1, -7", "bne x5, x6, 0x11"])
        if instr:
            lines.insert(rng.choice(instr), line)
        else:
            lines.append(line)
    elif kind == "bad_mnemonic":
        lines.insert(pos, rng.choice(["subi x1, x0, 15", "addd x1, x2, x3", "lw", "42", "x1, x2"]))
    elif kind == "bad_register":
        lines.insert(pos, rng.choice(["add x32, x0, x0", "addi q1, x0, 1", "lw x5, 0(x99)"]))
    elif kind == "missing_operand":
        lines.insert(pos, rng.choice(["add x1, x2", "addi x1, x2,", "lw x5, (x6)", "beq x1, , L0", "jal x1"]))
    elif kind == "bad_index":
        v = rng.choice(variables) if variables else "novar"
        line = rng.choice([f"lw x5, {v}[-1]", f"lw x5, {v}[0x1]", f"la x5, {v}[{'7' * 4500}]", f"lw x5, {v}[]"])
        if instr:
            lines.insert(rng.choice(instr), line)
        else:
            lines.append(line)
    elif kind == "bad_zero":
        decl = rng.choice([f"z: .zero {'8' * 4400}", "z: .zero -1", "z: .zero 0x10", "z: .zero"])
        if ".data" in lines:
            lines.insert(lines.index(".data") + 1, decl)
        else:
            lines[0:0] = [".data", decl, ".text"]
    return 1


TOY_ADDR = ["STO", "LDA", "BRZ", "ADD", "SUB", "OR", "AND", "XOR"]
TOY_NOADDR = ["NOT", "INC", "DEC", "ZRO", "NOP"]
TOY_BAD_LITERALS = [
    "0x",
    "9" * 4400,
    "-1",
    "0b101",
    "١٢",
    "１",
    "1_0",
    "0xZZ",
    "+3",
    "12abc",
]
TOY_ODD_VALID = ["007", "0x" + "F" * 40, "0x0001", "99999", "4096", "0"]


def toy_program(rng, n_faults):
    data = []
    variables = []
    if rng.random() < 0.6:
        for i in range(rng.randint(1, 3)):
            name = f"var{i}"
            vals = ", ".join(
                rng.choice([str(rng.randint(0, 500)), hex(rng.randint(0, 4095)), rng.choice(TOY_ODD_VALID)])
                for _ in range(rng.randint(1, 3))
            )
            data.append(f"{name}: .word {vals}")
            variables.append(name)
    n_instr = rng.randint(1, 10)
    labels = []
    text = []
    for i in range(n_instr):
        if rng.random() < 0.2:
            lab = f"L{len(labels)}"
            labels.append(lab)
            text.append(f"{lab}:" if rng.random() < 0.5 else f"{lab}: NOP")
        r = rng.random()
        if r < 0.5:
            m = rng.choice(TOY_ADDR)
            if m == "BRZ":
                target = rng.choice(labels + ["Lend"]) if rng.random() < 0.7 else str(rng.randint(0, 20))
            elif variables and rng.random() < 0.5:
                target = rng.choice(variables)
            else:
                target = rng.choice([str(rng.randint(0, 4095)), hex(rng.randint(0, 4095)), rng.choice(TOY_ODD_VALID)])
            text.append(f"{m if rng.random() < 0.8 else m.lower()} {target}")
        else:
            text.append(rng.choice(TOY_NOADDR))
    text.append("Lend:")
    if rng.random() < 0.4:
        text.append("# done")
    layout = rng.random()
    if data:
        lines = ([".data"] + data + [".text"] + text) if layout < 0.5 else ([".text"] + text + [".data"] + data)
    else:
        lines = ([".text"] if layout < 0.3 else []) + text
    injected = 0
    for _ in range(n_faults):
        injected += inject_toy_fault(rng, lines, variables, labels)
    return "\n".join(lines), injected


def inject_toy_fault(rng, lines, variables, labels):
    kind = rng.choice(
        [
            "bad_literal_instr",
            "bad_literal_instr",
            "bad_literal_data",
            "unknown_label",
            "unknown_directive",
            "dup_segment",
            "misplaced_decl",
            "misplaced_instr",
            "dup_label",
            "dup_variable",
            "bad_mnemonic",
            "missing_operand",
        ]
    )
    pos = rng.randint(0, len(lines))
    instr = _instr_indices(lines)
    lit = rng.choice(TOY_BAD_LITERALS)

    def put(line):
        if instr:
            lines.insert(rng.choice(instr), line)
        else:
            lines.append(line)

    if kind == "bad_literal_instr":
        put(f"{rng.choice(TOY_ADDR)} {lit}")
    elif kind == "bad_literal_data":
        decl = f"bad{rng.randint(0, 99)}: .word 1, {lit}"
        if ".data" in lines:
            lines.insert(lines.index(".data") + 1, decl)
        else:
            lines[0:0] = [".data", decl, ".text"]
    elif kind == "unknown_label":
        put(rng.choice(["BRZ nolabel", "LDA novar", "ADD _x"]))
    elif kind == "unknown_directive":
        lines.insert(pos, rng.choice([".bss", ".word 5", ".half 1", ".TEXT"]))
    elif kind == "dup_segment":
        lines.insert(pos, rng.choice([".data", ".text"]))
    elif kind == "misplaced_decl":
        put("mis: .word 1, 2")
    elif kind == "misplaced_instr":
        if ".data" in lines:
            lines.insert(lines.index(".data") + 1, "INC")
        else:
            lines[0:0] = [".data", "INC", ".text"]
    elif kind == "dup_label":
        lab = rng.choice(labels) if labels else "Ldup"
        lines.append(f"{lab}:")
        lines.append(f"{lab}: INC")
    elif kind == "dup_variable":
        v = rng.choice(variables) if variables else "vdup"
        decls = [f"{v}: .word 1", f"{v}: .word 2"]
        if ".data" in lines:
            i = lines.index(".data") + 1
            lines[i:i] = decls
        else:
            lines[0:0] = [".data"] + decls + [".text"]
    elif kind == "bad_mnemonic":
        lines.insert(pos, rng.choice(["MUL 5", "INC 4", "NOPE", "17", "LDA 1 2"]))
    elif kind == "missing_operand":
        lines.insert(pos, rng.choice(["ADD", "STO ,", "BRZ :", "x: .word"]))
    return 1


SOUP_TOKENS = [
    "addi", "lw", "sw", "beq", "jal", "li", "la", "ecall", "x1", "x5", "x31", "x32", "sp", "a0",
    ",", ",", "(", ")", "[", "]", ":", ".", ".data", ".text", ".word", ".byte", ".zero", ".string",
    '"s"', "#", "0", "7", "007", "0x", "0x1F", "0b", "-", "-4", "+0x4", "L0", "L0:", "var0",
    "٣", "５", "9" * 30, "\t", "", "STO", "LDA", "BRZ", "INC", "NOP", "ä", "\\", "'", "@",
]


def token_soup(rng):
    lines = []
    for _ in range(rng.randint(1, 8)):
        lines.append(rng.choice(["", " ", ", "]).join(rng.choice(SOUP_TOKENS) for _ in range(rng.randint(1, 7))))
    return rng.choice(["\n", "\n", "\r\n", "\n\n"]).join(lines)


RISCV_CONFIGS = [
    dict(mode="single_stage_pipeline"),
    dict(mode="five_stage_pipeline", detect_data_hazards=True),
    dict(mode="five_stage_pipeline", detect_data_hazards=False),
    dict(
        mode="five_stage_pipeline",
        data_cache=CacheOptions(True, 2, 2, 2, "wb", "lru", 3),
        instruction_cache=CacheOptions(True, 1, 2, 1, "wt", "lru", 2),
    ),
    dict(mode="single_stage_pipeline", data_cache=CacheOptions(True, 1, 1, 2, "wt", "plru", 0)),
]


def run_loaded(sim, max_steps=400):
    """Runs a loaded simulation and describes the outcome in terms of C15."""
    try:
        steps = 0
        while not sim.is_done() and steps < max_steps:
            sim.step()
            steps += 1
    except InstructionExecutionException as e:
        if isinstance(sim, RiscvSimulation):
            instrs = dict(sim.state.instruction_memory.get_representation())
            known = e.address in instrs and instrs[e.address] == str(e.instruction_repr)
        else:
            known = False
        return f"RUNERR addr={e.address} instr={e.instruction_repr} names-loaded-instr={known}"
    except Exception as e:  # a C15 violation
        return f"RUN-ESCAPE {type(e).__name__}"
    if isinstance(sim, RiscvSimulation):
        regs = [int(r) for r in sim.state.register_file.registers]
        h = hashlib.sha256(repr((regs, sim.state.exit_code, sim.state.output)).encode()).hexdigest()[:12]
        return f"RAN done={sim.is_done()} state={h}"
    h = hashlib.sha256(
        repr((int(sim.state.accu), int(sim.state.program_counter), sorted((a, int(v)) for a, v in sim.state.memory.memory_file.items()))).encode()
    ).hexdigest()[:12]
    return f"RAN done={sim.is_done()} state={h}"


RISCV_FOLLOW_UP = ".data\nv: .word 7, 9\n.text\nlw x5, v[1]\naddi x6, x5, 3\nsw x6, v, x7\nlw x28, 0(x0)"
TOY_FOLLOW_UP = "LDA v\nADD 0x003\nSTO v\nINC\n.data\nv: .word 5"


def load_outcome(make_sim, text, exact, follow_up, run=True):
    """Loads text; returns (category, record)."""
    n_lines = len(text.splitlines())
    sim = make_sim()
    try:
        sim.load_program(text)
    except ParserException as e:
        valid = isinstance(e.line_number, int) and 1 <= e.line_number <= n_lines
        cat = "PARSER" if exact else "PERMITTED"
        rec = f"PARSER {type(e).__name__} line={e.line_number} valid={valid}" if exact else f"permitted-failure={valid}"
    except (MemorySizeException, MemoryAddressError):
        cat = "MEM" if exact else "PERMITTED"
        rec = "MEM" if exact else "permitted-failure=True"
    except Exception as e:  # a C15 violation
        cat, rec = "ESCAPE", f"ESCAPE {type(e).__name__}"
    else:
        return "OK", "OK " + (run_loaded(sim) if run else "(not run)")
    # the simulation object must still be usable after the failed load
    try:
        sim.load_program(follow_up)
        rec += " | then: " + run_loaded(sim)
    except Exception as e:
        rec += f" | then: ESCAPE {type(e).__name__}"
    return cat, rec


def toy_boundary_case(rng):
    """A TOY text whose size is close to a (small) memory size. Returns (memory size, text, fits, n_faults)."""
    size = rng.randint(6, 40)
    total = max(1, size + rng.randint(-8, 3))
    n_data = rng.randint(0, total) if rng.random() < 0.7 else 0
    n_instr = total - n_data
    text = [rng.choice(TOY_NOADDR + ["ADD 1", "LDA 0x2", "l%d: INC" % i]) for i in range(n_instr)]
    data = []
    k = 0
    while n_data > 0:
        n = rng.randint(1, n_data)
        data.append(f"d{k}: .word " + ", ".join(str(rng.randint(0, 99)) for _ in range(n)))
        n_data -= n
        k += 1
    if data:
        lines = ([".data"] + data + [".text"] + text) if rng.random() < 0.5 else (text + [".data"] + data)
    else:
        lines = text
    n_faults = rng.choice([0, 0, 0, 1, 1, 2])
    for _ in range(n_faults):
        inject_toy_fault(rng, lines, [f"d{i}" for i in range(k)], [])
    return size, "\n".join(lines), total <= size, total, n_faults


def main():
    records = []
    cats = Counter()

    def record(tag, make_sim, text, exact, follow_up, run=True):
        cat, rec = load_outcome(make_sim, text, exact, follow_up, run)
        cats[(tag, cat)] += 1
        records.append(f"{tag} {rec}")

    rng = random.Random(25_001)
    for i in range(200):
        n_faults = rng.choice([0, 0, 1, 1, 1, 2, 3])
        text, injected = riscv_program(rng, n_faults)
        cfg = RISCV_CONFIGS[i % len(RISCV_CONFIGS)]
        record(f"riscv/f{min(injected, 2)}", lambda: RiscvSimulation(**cfg), text, injected <= 1, RISCV_FOLLOW_UP)
    rng = random.Random(25_002)
    for i in range(160):
        n_faults = rng.choice([0, 0, 1, 1, 1, 2, 3])
        text, injected = toy_program(rng, n_faults)
        record(f"toy/f{min(injected, 2)}", lambda: ToySimulation(), text, injected <= 1, TOY_FOLLOW_UP)
    rng = random.Random(25_003)
    for i in range(80):
        text = token_soup(rng)
        record("riscv/soup", lambda: RiscvSimulation(), text, False, RISCV_FOLLOW_UP)
        record("toy/soup", lambda: ToySimulation(), text, False, TOY_FOLLOW_UP)
    # TOY programs around the capacity of a small unified memory
    rng = random.Random(25_004)
    for i in range(300):
        size, text, fits, total, n_faults = toy_boundary_case(rng)
        # exact records where only one outcome is possible: no fault, or one fault and clearly fitting
        exact = n_faults == 0 or (n_faults == 1 and total + 4 <= size)
        tag = "toy/boundary/" + ("fits" if fits else "too-big") + ("" if n_faults == 0 else "+fault")
        # (loaded only: a TOY program that runs off the end of a non-default, tiny memory is outside C15's scope)
        record(tag, lambda: ToySimulation(unified_memory_size=size), text, exact, "INC\nDEC", run=False)
    # default-size TOY memory
    record("toy/big-data", lambda: ToySimulation(), "INC\n.data\na: .word " + ", ".join(["1"] * 4096), True, TOY_FOLLOW_UP)
    record("toy/big-text", lambda: ToySimulation(), "\n".join(["INC"] * 4097), True, TOY_FOLLOW_UP)
    record("toy/big-sum", lambda: ToySimulation(), "\n".join(["INC"] * 4000 + [".data", "a: .word " + ", ".join(["1"] * 97)]), True, TOY_FOLLOW_UP)
    record("toy/exact-fit", lambda: ToySimulation(), "\n".join(["ZRO"] * 4000 + [".data", "a: .word " + ", ".join(["1"] * 96)]), True, TOY_FOLLOW_UP)
    record("toy/big+unknown-label", lambda: ToySimulation(), "\n".join(["BRZ nowhere"] + ["INC"] * 4100), False, TOY_FOLLOW_UP)
    # RISC-V instruction memory (2**14 bytes); pseudo instructions expand to 2 or 3 instructions
    record("riscv/exact-fit", lambda: RiscvSimulation(), "\n".join(["li x5, 100000"] * 2048), True, RISCV_FOLLOW_UP)
    record("riscv/too-long-li", lambda: RiscvSimulation(), "\n".join(["li x5, 100000"] * 2048 + ["nop"]), True, RISCV_FOLLOW_UP)
    record(
        "riscv/too-long-lw-var",
        lambda: RiscvSimulation(mode="five_stage_pipeline", instruction_cache=CacheOptions(True, 1, 2, 1, "wt", "lru", 2)),
        "\n".join([".data", "v: .word 1", ".text"] + ["lw x5, v"] * 1366),
        True,
        RISCV_FOLLOW_UP,
    )
    record("riscv/too-long+unknown-label", lambda: RiscvSimulation(), "\n".join(["li x5, 100000"] * 2049 + ["beq x0, x0, nowhere"]), True, RISCV_FOLLOW_UP)
    record("riscv/zero-wrap", lambda: RiscvSimulation(), ".data\nz: .zero 1073741823\nw: .word 1, 2, 3, 4, 5\n.text\nlw x5, w", True, RISCV_FOLLOW_UP)

    for key in sorted(cats):
        print(f"{key[0]:28s} {key[1]:8s} {cats[key]}")
    runs = Counter(r.split()[2] for r in records if " OK " in r)
    print("run outcomes of loaded programs:", dict(sorted(runs.items())))
    escapes = [r for r in records if "ESCAPE" in r or "valid=False" in r or "permitted-failure=False" in r or "names-loaded-instr=False" in r]
    print("violations of C15 seen:", len(escapes))
    for r in escapes[:10]:
        print("   ", r[:200])
    print("cases:", len(records))
    print("digest:", hashlib.sha256("\n".join(records).encode()).hexdigest())
    return 0


if __name__ == "__main__":
    sys.exit(main())
