"""python -m dst manifest  - regenerate /verif/MANIFEST.json from the registry."""
import json
import os

from .core.repo import VERIF_DIR, activate

NOT_APPLICABLE = {
    "C01": "single-cycle execution is a deterministic function of (program, registers, memory) with one instruction in flight, no clock it can observe and no fault it must survive: there is no schedule, interleaving or fault sequence to simulate; deciding it is operand generation against an ISA oracle (property-based testing), not simulation. It is the reference side of C02/C08 here.",
    "C04": "assembling is a pure function from one source text to one instruction list, executed once, with no surviving state, no time and no fault to recover from: nothing for a scheduler or fault injector to vary.",
    "C05": "same as C04: text in, memory image and instruction list out; the li/la carry boundaries are an input-space question (2^32 constants), not a history or schedule question.",
    "C06": "one instruction in flight, fixed two ticks per instruction, no failing operation with the documented 4096-word memory: a TOY run is a pure function of the memory image (self-modification included); the call-interleaving aspect of the TOY machine is C20 and is claimed there.",
    "C14": "repr followed by parse is a pure function per instruction object; no state, time, failure or call ordering is involved.",
    "C17": "the formatter is a pure function of (value, width) and the tables are pure functions of the current state; no history, clock or fault enters.",
    "C19": "a total function on 2^16 words and a text-to-image function: the right tools are exhaustive enumeration and grammar-based generation, neither of which is simulation.",
}


def main():
    activate()
    from .checks import registry

    reg = registry()
    py = "/venv/bin/python"
    checks = []
    for prop, cd in sorted(reg.items()):
        engines = sorted({b.engine for b in cd.batches})
        checks.append(
            {
                "property_id": prop,
                "quick_cmd": f"{py} -m dst check {prop} --tier quick",
                "thorough_cmd": f"{py} -m dst check {prop} --tier thorough",
                "evidence_file": f"/verif/evidence/{prop}.json",
                "replay_cmd_template": f"{py} -m dst replay {{path}}",
                "engine": "+".join(engines),
                "level_claimed": {
                    "category": "exploration",
                    "text": cd.level_text
                    or (
                        "Seeded search, not enumeration: a clean batch is evidence, not proof. "
                        + cd.rule
                    ),
                    "design_ref": cd.design_ref,
                },
                "level_note": cd.level_note
                or ("Trusted base: the reference models in /verif/dst and the white-box reads they use. " + " ".join(cd.assumptions)),
                "technique": cd.technique,
            }
        )
    manifest = {
        "version": 1,
        "setup_cmd": f"{py} -m dst setup",
        "hooks": {
            "guard": "ARCHSIM_VERIF",
            "enable": "none needed: checks import /repo's current working tree through sys.path (VERIF_REPO, default /repo); no source change in /repo uses the guard",
            "baseline_off_cmd": "cd /repo && /venv/bin/python -m pytest -ra -q -p no:cacheprovider --timeout=900 --continue-on-collection-errors",
            "source_commits": [],
            "add_only": True,
        },
        "engines": [
            {
                "name": "pipesim",
                "path": "/verif/dst/pipesim",
                "serves_properties": sorted(p for p, cd in reg.items() if any(b.engine == "pipesim" for b in cd.batches)),
                "kind_free_text": "clocked five-stage pipeline stepped tick by tick against a lock-step sequential reference, timing recurrences and a delayed-visibility register model; seeded workloads, fault plans (faulting instruction placement) and cache geometries",
            },
            {
                "name": "memsim",
                "path": "/verif/dst/memsim",
                "serves_properties": sorted(p for p, cd in reg.items() if any(b.engine == "memsim" for b in cd.batches)),
                "kind_free_text": "storage hierarchy (flat memory, write-back / write-through caches, LRU/PLRU) driven by seeded access histories with rejected/torn accesses against a byte map and an independent reference cache, invariants after every operation",
            },
            {
                "name": "lifesim",
                "path": "/verif/dst/lifesim",
                "serves_properties": sorted(p for p, cd in reg.items() if any(b.engine == "lifesim" for b in cd.batches)),
                "kind_free_text": "discrete-event simulation of the driver (Python port of the web UI's stores, timers and button guards, plus a raw API caller) under a virtual wall clock, with failed loads, overshoot, resets and clock jumps, against fresh-instance shadows",
            },
        ],
        "checks": checks,
        "not_applicable": [
            {"property_id": k, "reason": v} for k, v in sorted(NOT_APPLICABLE.items()) if k not in reg
        ],
        "notes": "Technique: deterministic simulation with fault injection (see DESIGN.md). Env: VERIF_SEED, VERIF_TIER, VERIF_WORKERS, VERIF_SCALE (run-count multiplier), VERIF_BUDGET_S (wall cap), VERIF_REPO. Exit 0 held / 1 VIOLATION / 2 harness error. Known findings: /verif/known_findings.json.",
    }
    with open(os.path.join(VERIF_DIR, "MANIFEST.json"), "w") as f:
        json.dump(manifest, f, indent=1)
        f.write("\n")
    print("MANIFEST.json written:", ", ".join(c["property_id"] for c in checks))


if __name__ == "__main__":
    main()
