"""python -m dst <command>

  setup                         check the environment, create evidence/ and replays/
  check <ID> [--tier quick|thorough]
  replay <file>
  digests <ID> <batch> <index>...   (internal: determinism resample)
  selftest determinism|sensitivity [...]
  list
"""
import json
import os
import sys


def main(argv) -> int:
    if not argv:
        print(__doc__)
        return 2
    cmd = argv[0]
    if cmd == "setup":
        from .core.repo import activate, VERIF_DIR

        path = activate()
        import fixedint  # noqa: F401
        import pyparsing  # noqa: F401

        os.makedirs(os.path.join(VERIF_DIR, "evidence"), exist_ok=True)
        os.makedirs(os.path.join(VERIF_DIR, "replays"), exist_ok=True)
        from .checks import registry

        print(f"dst setup ok: working tree {path}, python {sys.version.split()[0]}, checks: {', '.join(sorted(registry()))}")
        return 0
    if cmd == "list":
        from .core.repo import activate

        activate()
        from .checks import registry

        for k, cd in sorted(registry().items()):
            print(k, cd.title, [b.name for b in cd.batches])
        return 0
    if cmd == "check":
        prop = argv[1]
        tier = os.environ.get("VERIF_TIER", "quick")
        if "--tier" in argv:
            tier = argv[argv.index("--tier") + 1]
        if tier not in ("quick", "thorough"):
            print("tier must be quick or thorough")
            return 2
        from .core.runner import run_check

        try:
            return run_check(prop, tier)
        except Exception:
            import traceback

            print("HARNESS ERROR (check is broken; nothing above is to be believed):")
            traceback.print_exc()
            return 2
    if cmd == "replay":
        from .core.runner import replay

        return replay(argv[1])
    if cmd == "digests":
        from .core import rng
        from .core.runner import digests_for

        out = digests_for(argv[1], argv[2], [int(x) for x in argv[3:]], rng.verif_seed())
        print(json.dumps(out))
        return 0
    if cmd == "manifest":
        from .manifest import main as mf_main

        mf_main()
        return 0
    if cmd == "selftest":
        from .selftest import main as st_main

        return st_main(argv[1:])
    print(__doc__)
    return 2


if __name__ == "__main__":
    rc = main(sys.argv[1:])
    sys.stdout.flush()
    sys.stderr.flush()
    # skip interpreter teardown: worker pools are already killed, nothing else to clean up
    os._exit(rc)
