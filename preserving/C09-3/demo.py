"""Differential check for property C09 (data-cache hit/miss accounting).

Prints a digest of everything the property talks about:
  part A  - random access histories driven directly against WriteBackMemorySystem /
            WriteThroughMemorySystem (all widths, counted and uncounted reads, counted writes,
            parser-style preloads) on random geometries / policies / penalties; after EVERY
            access the tuple (hits, accesses, last_was_hit, cycles, get_cache_stats(), value read)
            is folded into a hash; at the end the GUI view of the cache and the lower memory are
            folded in as well.
  part B  - random RV32I programs with loads, stores and forward branches, run in
            single_stage_pipeline and five_stage_pipeline mode with a data cache; the data-cache
            counters of both modes, the number of executed loads/stores and the final registers
            are printed/hashed.
Run on the unchanged and on the changed tree: the output must be identical.

INCLUDE_REJECTED controls whether part A also issues accesses that are rejected (word-boundary
crossing / out of the address range).  They are outside the accounting claim of C09 and change 3
deliberately alters what a rejected access leaves behind, so this demo only issues accepted
accesses inside the histories (asserted: 0 rejected).  After a history has been digested, ONE
rejected access is issued as a probe and only the class of the raised error is recorded.
"""
import hashlib
import random
import sys

from fixedint import UInt8, UInt16, UInt32

import architecture_simulator
from architecture_simulator.uarch.memory.memory import Memory, AddressingType
from architecture_simulator.uarch.memory.write_back_memory_system import (
    WriteBackMemorySystem,
)
from architecture_simulator.uarch.memory.write_through_memory_system import (
    WriteThroughMemorySystem,
)
from architecture_simulator.uarch.memory.cache import CacheOptions
from architecture_simulator.uarch.riscv.riscv_performance_metrics import (
    RiscvPerformanceMetrics,
)
from architecture_simulator.simulation.riscv_simulation import RiscvSimulation

INCLUDE_REJECTED = False
N_HISTORIES = 400
N_PROGRAMS = 150
BASE = 2**14


def repr_dump(ms):
    r = ms.cache_repr()
    out = []
    for s in r.sets:
        out.append(
            (
                s.index,
                [int(x) for x in s.replacement_status],
                [
                    (b.valid_bit, b.dirty_bit, b.tag, tuple(b.address_value_list))
                    for b in s.blocks
                ],
            )
        )
    return repr(out)


def make_system(rng):
    index_bits = rng.randint(0, 3)
    block_bits = rng.randint(0, 3)
    repl = rng.choice(["lru", "plru"])
    assoc = rng.choice([1, 2, 4, 8]) if repl == "plru" else rng.randint(1, 6)
    kind = rng.choice(["wb", "wt"])
    penalty = rng.randint(0, 25)
    pm = RiscvPerformanceMetrics()
    mem = Memory(AddressingType.BYTE, 32, True, range(BASE, 2**32))
    cls = WriteBackMemorySystem if kind == "wb" else WriteThroughMemorySystem
    ms = cls(mem, index_bits, block_bits, assoc, pm, penalty, repl)
    return ms, pm, (kind, repl, index_bits, block_bits, assoc, penalty)


def part_a():
    total = hashlib.sha256()
    sum_hits = sum_acc = sum_cyc = 0
    n_rejected = 0
    for h in range(N_HISTORIES):
        rng = random.Random(920000 + h)
        ms, pm, cfg = make_system(rng)
        kind, repl, ib, bb, assoc, penalty = cfg
        block_bytes = 4 << bb
        sets = 1 << ib
        # address pool: a few more blocks than fit into the cache so that evictions happen
        n_blocks = max(2, int(sets * assoc * rng.choice([0.5, 1.5, 3])))
        span = n_blocks * block_bytes
        hsh = hashlib.sha256(repr(cfg).encode())
        for step in range(rng.randint(30, 160)):
            width = rng.choice([1, 2, 4])
            a = BASE + rng.randrange(span)
            if rng.random() < 0.15:  # far away block, same sets
                a += rng.randrange(1, 5) * sets * block_bytes * 64
            reject = INCLUDE_REJECTED and rng.random() < 0.04
            if reject:
                if rng.random() < 0.3:
                    a = rng.randrange(0, BASE)  # below the data address range
                elif width == 1:
                    width = rng.choice([2, 4])
                if a >= BASE:
                    a = (a & ~3) | (3 if width == 2 else rng.choice([1, 2, 3]))
            else:
                a &= ~(width - 1) if width != 2 else ~0
                if width == 2 and (a & 3) == 3:
                    a -= rng.choice([1, 2, 3])
            op = rng.choice(["r", "r", "ru", "w", "w", "wd"])
            val = rng.getrandbits(8 * width)
            res = None
            try:
                if op in ("r", "ru"):
                    f = {1: ms.read_byte, 2: ms.read_halfword, 4: ms.read_word}[width]
                    res = int(f(a) if op == "r" else f(a, update_statistics=False))
                else:
                    f = {1: ms.write_byte, 2: ms.write_halfword, 4: ms.write_word}[width]
                    v = {1: UInt8, 2: UInt16, 4: UInt32}[width](val)
                    if op == "w":
                        f(a, v)
                    else:
                        f(a, v, directly_write_to_lower_memory=True)
            except Exception as e:  # rejected access
                res = "ERR:" + type(e).__name__
                n_rejected += 1
            stats = ms.get_cache_stats()
            obs = (
                step, op, width, a, res,
                ms.hits, ms.accesses, bool(ms.last_was_hit), pm.cycles,
                sorted((k, str(v)) for k, v in stats.items() if k in ("hits", "accesses", "last_hit")),
            )
            hsh.update(repr(obs).encode())
        hsh.update(repr_dump(ms).encode())
        hsh.update(repr(sorted(ms.wordwise_repr().items())).encode())
        sum_hits += ms.hits
        sum_acc += ms.accesses
        sum_cyc += pm.cycles
        final_hits, final_acc, final_last, final_cyc = ms.hits, ms.accesses, ms.last_was_hit, pm.cycles
        # probe: one rejected access after the history is over; only the error class is observed
        probe = rng.choice(["rh", "rw", "wh", "ww", "r_oob", "w_oob"])
        try:
            if probe == "rh":
                ms.read_halfword(BASE + 4 * rng.randrange(span // 4) + 3)
            elif probe == "rw":
                ms.read_word(BASE + 4 * rng.randrange(span // 4) + rng.choice([1, 2, 3]))
            elif probe == "wh":
                ms.write_halfword(BASE + 4 * rng.randrange(span // 4) + 3, UInt16(1))
            elif probe == "ww":
                ms.write_word(BASE + 4 * rng.randrange(span // 4) + rng.choice([1, 2, 3]), UInt32(1))
            elif probe == "r_oob":
                ms.read_byte(rng.randrange(0, BASE))
            else:
                ms.write_byte(rng.randrange(0, BASE), UInt8(1))
            probe_result = "no error"
        except Exception as e:
            probe_result = type(e).__name__
        hsh.update((probe + ":" + probe_result).encode())
        line = "A%03d %s hits=%d acc=%d last=%s cyc=%d %s" % (
            h, cfg, final_hits, final_acc, final_last, final_cyc, hsh.hexdigest()[:16],
        ) + " probe=%s:%s" % (probe, probe_result)
        total.update(line.encode())
        if h % 40 == 0:
            print(line)
    assert n_rejected == 0, n_rejected
    print("A total: histories=%d rejected=%d hits=%d accesses=%d cycles=%d digest=%s" % (
        N_HISTORIES, n_rejected, sum_hits, sum_acc, sum_cyc, total.hexdigest()))


LOADS = ["lb", "lh", "lw", "lbu", "lhu"]
STORES = ["sb", "sh", "sw"]


def gen_program(rng):
    n_words = rng.choice([8, 16, 32, 64])
    lines = [".data", "arr: .word " + ", ".join(str(rng.getrandbits(31)) for _ in range(n_words)), ".text"]
    lines.append("la s0, arr")
    n = rng.randint(15, 45)
    label = 0
    pending = []  # (remaining instructions until label is placed, label name)
    for i in range(n):
        pending = [(k - 1, l) for k, l in pending]
        for k, l in [p for p in pending if p[0] <= 0]:
            lines.append(l + ":")
        pending = [p for p in pending if p[0] > 0]
        c = rng.random()
        reg = rng.choice(["t0", "t1", "t2", "a0", "a1", "a2"])
        if c < 0.38:
            m = rng.choice(LOADS)
            w = {"b": 1, "h": 2, "w": 4}[m[1]]
            off = rng.randrange(0, n_words * 4, w)
            lines.append("%s %s, %d(s0)" % (m, reg, off))
        elif c < 0.70:
            m = rng.choice(STORES)
            w = {"b": 1, "h": 2, "w": 4}[m[1]]
            off = rng.randrange(0, n_words * 4, w)
            lines.append("%s %s, %d(s0)" % (m, reg, off))
        elif c < 0.85:
            lines.append("addi %s, %s, %d" % (reg, rng.choice(["t0", "t1", "a0", "zero"]), rng.randint(-50, 50)))
        else:
            label += 1
            l = "L%d" % label
            br = rng.choice(["beq", "bne", "blt", "bge"])
            lines.append("%s %s, %s, %s" % (br, reg, rng.choice(["t0", "zero", "a1"]), l))
            pending.append((rng.randint(1, 4), l))
    for _, l in pending:
        lines.append(l + ":")
    # a small loop touching the array to get re-use
    lines += [
        "addi t3, zero, %d" % rng.randint(2, 6),
        "mv t4, s0",
        "loop:",
        "lw t5, 0(t4)",
        "sw t5, %d(t4)" % (4 * rng.randint(0, 3)),
        "addi t4, t4, %d" % (4 * rng.randint(1, 3)),
        "addi t3, t3, -1",
        "bne t3, zero, loop",
        "nop", "nop",
    ]
    return "\n".join(lines)


def run_program(prog, mode, opts):
    sim = RiscvSimulation(mode=mode, data_cache=opts)
    sim.load_program(prog)
    after_load = dict(sim.state.memory.get_cache_stats())
    executed = 0
    sim.run()
    st = sim.state
    regs = [int(r) for r in st.register_file.registers]
    return {
        "after_load": (after_load["hits"], after_load["accesses"], after_load["last_hit"]),
        "hits": st.memory.hits,
        "accesses": st.memory.accesses,
        "last": bool(st.memory.last_was_hit),
        "stats": sorted((k, str(v)) for k, v in st.memory.get_cache_stats().items() if k in ("hits", "accesses", "last_hit")),
        "cycles": st.performance_metrics.cycles,
        "instr": st.performance_metrics.instruction_count,
        "regs": regs,
        "cache": repr_dump(st.memory),
        "mem": repr(sorted(st.memory.wordwise_repr().items())),
    }


def part_b():
    total = hashlib.sha256()
    agree = 0
    for p in range(N_PROGRAMS):
        rng = random.Random(790000 + p)
        repl = rng.choice(["lru", "plru"])
        opts = CacheOptions(
            enable=True,
            num_index_bits=rng.randint(0, 2),
            num_block_bits=rng.randint(0, 2),
            associativity=rng.choice([1, 2, 4]) if repl == "plru" else rng.randint(1, 4),
            cache_type=rng.choice(["wb", "wt"]),
            replacement_strategy=repl,
            miss_penalty=rng.randint(0, 12),
        )
        prog = gen_program(rng)
        a = run_program(prog, "single_stage_pipeline", opts)
        b = run_program(prog, "five_stage_pipeline", opts)
        same = (a["hits"], a["accesses"], a["last"]) == (b["hits"], b["accesses"], b["last"])
        agree += same
        line = "B%03d %s/%s single(h=%d a=%d l=%s cyc=%d) five(h=%d a=%d l=%s cyc=%d) same=%s" % (
            p, opts.cache_type, opts.replacement_strategy,
            a["hits"], a["accesses"], a["last"], a["cycles"],
            b["hits"], b["accesses"], b["last"], b["cycles"], same,
        )
        total.update(line.encode())
        total.update(repr((a, b)).encode())
        if p % 25 == 0:
            print(line)
    print("B total: programs=%d counters_agree=%d digest=%s" % (N_PROGRAMS, agree, total.hexdigest()))


if __name__ == "__main__":
    assert architecture_simulator.__file__.startswith("/tmp/wtR_C09/"), architecture_simulator.__file__
    part_a()
    part_b()
    sys.exit(0)
