"""Differential check for property C18 (flat memory = little-endian byte store
with wrap-around and range checks).  Change 3: the memory layout constants and
address ranges are provided by Settings, the architectural states build their
flat memory in one place, the little-endian (de)composition is written differently.

Run with the worktree forced onto the path:
    cd /tmp/wtR_C18 && PYTHONPATH=/tmp/wtR_C18 /venv/bin/python /tmp/outR_C18/demo_3.py
The output (digests + counters + samples) must be identical for the unchanged
and for the changed code.
"""
import copy
import hashlib
import json
from unittest import mock
import random
import sys

from fixedint import UInt8, UInt16, UInt32, UInt64

from architecture_simulator.settings.settings import Settings
from architecture_simulator.uarch.memory.cache import CacheOptions
from architecture_simulator.uarch.memory.memory import (
    AddressingType,
    Memory,
    MemoryAddressError,
    UnsupportedFunctionError,
)
from architecture_simulator.uarch.riscv.riscv_architectural_state import (
    RiscvArchitecturalState,
)
from architecture_simulator.uarch.toy.toy_architectural_state import (
    ToyArchitecturalState,
)
from architecture_simulator.simulation.riscv_simulation import RiscvSimulation
from architecture_simulator.simulation.toy_simulation import ToySimulation

SEED = 1803
WIDTHS = ("byte", "halfword", "word", "doubleword")
BITS = {"byte": 8, "halfword": 16, "word": 32, "doubleword": 64}
WRAP = {"byte": UInt8, "halfword": UInt16, "word": UInt32, "doubleword": UInt64}


class Log:
    def __init__(self, name):
        self.name = name
        self.h = hashlib.sha256()
        self.ok = 0
        self.err = {}
        self.lines = 0
        self.samples = []

    def add(self, item):
        text = repr(item)
        self.h.update(text.encode())
        self.h.update(b"\n")
        self.lines += 1
        if self.lines % 397 == 1 and len(self.samples) < 6:
            self.samples.append(text[:150])

    def report(self):
        errs = ", ".join(f"{k}={v}" for k, v in sorted(self.err.items()))
        print(f"[{self.name}] lines={self.lines} ok={self.ok} errors: {errs}")
        print(f"[{self.name}] sha256={self.h.hexdigest()}")
        for s in self.samples:
            print(f"[{self.name}]   sample: {s}")


def observe(log, fn, *args):
    """Calls fn and turns the outcome into a plain, comparable tuple."""
    try:
        res = fn(*args)
    except MemoryAddressError as e:
        log.err["MemoryAddressError"] = log.err.get("MemoryAddressError", 0) + 1
        return (
            "MemoryAddressError",
            type(e) is MemoryAddressError,
            e.address,
            e.min_address_incl,
            e.max_address_incl,
            e.memory_type,
            repr(e),
        )
    except UnsupportedFunctionError as e:
        log.err["UnsupportedFunctionError"] = (
            log.err.get("UnsupportedFunctionError", 0) + 1
        )
        return ("UnsupportedFunctionError", repr(e))
    except Exception as e:  # anything else is part of the observable result too
        key = type(e).__name__
        log.err[key] = log.err.get(key, 0) + 1
        return ("other", key, str(e))
    log.ok += 1
    if res is None:
        return ("ok", None)
    return ("ok", type(res).__name__, int(res))


def snapshot(mem):
    """The stored cells, as plain ints, in address order."""
    return sorted((int(k), type(v).__name__, int(v)) for k, v in mem.memory_file.items())


def reprs(mem):
    out = []
    for name in ("bytewise_repr", "half_wordwise_repr", "wordwise_repr"):
        try:
            out.append((name, sorted(getattr(mem, name)().items())))
        except UnsupportedFunctionError as e:
            out.append((name, repr(e)))
        except MemoryAddressError as e:
            out.append((name, repr(e)))
    return out


def pick_address(rng, anchors, hot):
    r = rng.random()
    if r < 0.45:
        base = rng.choice(anchors)
    elif r < 0.9:
        base = rng.choice(hot)
    else:
        base = rng.randrange(-(2**34), 2**34)
    return base + rng.randint(-9, 9)


def pick_value(rng, width):
    bits = BITS[width]
    r = rng.random()
    if r < 0.8:
        return WRAP[width](rng.getrandbits(bits))
    if r < 0.9:
        return rng.getrandbits(bits)  # plain int of the right size
    if r < 0.95:
        return rng.getrandbits(bits + 13)  # oversized plain int
    return -rng.getrandbits(bits)  # negative plain int


def history(log, rng, mem, anchors, hot, n_ops, widths=WIDTHS):
    for step in range(n_ops):
        width = rng.choice(widths)
        address = pick_address(rng, anchors, hot)
        if rng.random() < 0.5:
            value = pick_value(rng, width)
            out = observe(log, getattr(mem, "write_" + width), address, value)
            log.add(("w", width, address, int(value), out))
        else:
            out = observe(log, getattr(mem, "read_" + width), address)
            log.add(("r", width, address, out))
        if step % 8 == 7:
            log.add(("cells", snapshot(mem)))
    # read everything back in all widths around all interesting places
    for base in list(anchors) + list(hot):
        for off in range(-9, 10):
            for width in widths:
                out = observe(log, getattr(mem, "read_" + width), base + off)
                log.add(("rb", width, base + off, out))
    log.add(("cells", snapshot(mem)))
    log.add(("reprs", reprs(mem)))


def riscv_anchors(lo, length):
    m = 2**length
    return [lo, 0, m, m + lo, -m, -m + lo, 2 * m, 2 * m + lo, m - 1, -1]


def scenario_riscv_state():
    log = Log("riscv-state")
    rng = random.Random(SEED)
    lo = Settings().get()["memory_address_min_bytes"]
    for h in range(40):
        state = RiscvArchitecturalState()
        mem = state.memory
        log.add(("cfg", type(mem).__name__, mem.get_address_range(), mem.address_range,
                 mem.address_length, mem.address_overflow, mem.addressing_type.name))
        hot = [lo + 64 + rng.randrange(16), 2**32 - 40 + rng.randrange(16), 2**31]
        history(log, rng, mem, riscv_anchors(lo, 32), hot, 60)
    log.report()


def scenario_toy_state():
    log = Log("toy-state")
    rng = random.Random(SEED + 1)
    for h in range(30):
        size = None if h % 3 else rng.choice([16, 64, 1000])
        state = ToyArchitecturalState(unified_memory_size=size) if size else ToyArchitecturalState()
        mem = state.memory
        top = len(mem.address_range)
        log.add(("cfg", mem.get_address_range(), mem.address_length, mem.address_overflow,
                 mem.addressing_type.name))
        anchors = [0, top, top - 1, -1, 2**12, 2**16, -top, 2**32]
        hot = [top // 2, 3]
        history(log, rng, mem, anchors, hot, 60)
    log.report()


def scenario_custom_memories():
    log = Log("custom")
    rng = random.Random(SEED + 2)
    configs = [
        (AddressingType.BYTE, 8, True, range(16, 256)),
        (AddressingType.BYTE, 8, True, None),
        (AddressingType.BYTE, 8, False, range(16, 256)),
        (AddressingType.BYTE, 8, False, None),
        (AddressingType.BYTE, 6, True, range(8, 50)),
        (AddressingType.BYTE, 6, True, range(8, 100)),
        (AddressingType.BYTE, 6, True, range(0, 64, 2)),
        (AddressingType.BYTE, 5, False, range(-8, 20)),
        (AddressingType.BYTE, 2, True, None),  # an access wraps around more than once
        (AddressingType.BYTE, 3, True, range(2, 8)),
        (AddressingType.BYTE, 3, True, range(5, 5)),  # no valid address at all
        (AddressingType.HALF_WORD, 6, True, range(4, 64)),
        (AddressingType.HALF_WORD, 12, False, range(4096)),
        (AddressingType.WORD, 5, True, range(2, 32)),
        (AddressingType.DOUBLE_WORD, 4, True, None),
        (AddressingType.BYTE, 32, True, range(2**14, 2**32)),
        (AddressingType.BYTE, 32, False, None),
    ]
    for at, length, overflow, rg in configs:
        for rep in range(3):
            mem = Memory(at, length, overflow, rg)
            log.add(("cfg", at.name, length, overflow, rg, mem.get_address_range()))
            r = mem.address_range
            m = 2**length
            anchors = [r.start, r.stop, r.stop - 1, 0, m, m + r.start, -m, -1, 2 * m]
            hot = [(r.start + r.stop) // 2]
            history(log, rng, mem, anchors, hot, 50)
    log.report()


def scenario_typed_addresses():
    """Addresses given as fixed-width integers (small memories only)."""
    log = Log("typed-addresses")
    rng = random.Random(SEED + 6)
    for at, length, overflow, rg in [
        (AddressingType.BYTE, 8, True, range(16, 256)),
        (AddressingType.BYTE, 8, False, range(16, 256)),
        (AddressingType.BYTE, 8, True, None),
        (AddressingType.HALF_WORD, 8, True, range(4, 200)),
    ]:
        mem = Memory(at, length, overflow, rg)
        for step in range(150):
            width = rng.choice(WIDTHS)
            raw = rng.choice([16, 255, 0, 128, 4, 199]) + rng.randint(-9, 9)
            address = rng.choice([UInt8, UInt16, UInt32])(raw)
            if rng.random() < 0.5:
                value = pick_value(rng, width)
                out = observe(log, getattr(mem, "write_" + width), address, value)
                log.add(("w", width, int(address), int(value), out))
            else:
                out = observe(log, getattr(mem, "read_" + width), address)
                log.add(("r", width, int(address), out))
        log.add(("cells", snapshot(mem)))
    log.report()


def scenario_public_attributes():
    """What tests and GUI do with the public attributes of Memory."""
    log = Log("attributes")
    rng = random.Random(SEED + 3)
    for rep in range(25):
        mem = Memory(AddressingType.BYTE, 32, True, range(2**14, 2**32))
        # tests rebind memory_file to a plain dict
        plain = {}
        for _ in range(rng.randint(0, 12)):
            plain[rng.choice([2**14, 2**32 - 1, 2**20]) + rng.randint(-3, 3)] = UInt8(
                rng.getrandbits(8)
            )
        mem.memory_file = dict(plain)
        log.add(("rebound", snapshot(mem), mem.memory_file == plain,
                 isinstance(mem.memory_file, dict)))
        for k in plain:
            log.add(("idx", k, int(mem.memory_file[k]), k in mem.memory_file))
        log.add(("absent", 2**21 in mem.memory_file, mem.memory_file.get(2**21),
                 len(mem.memory_file)))
        history(log, rng, mem, riscv_anchors(2**14, 32), [2**20], 25)
        # reads never create cells
        before = snapshot(mem)
        for _ in range(20):
            observe(log, mem.read_word, 2**22 + rng.randrange(1000))
        log.add(("reads-create-nothing", before == snapshot(mem)))
        # a deep copy is an independent store with the same contents
        clone = copy.deepcopy(mem)
        log.add(("clone", snapshot(clone) == snapshot(mem), clone.address_range,
                 clone.address_length, clone.address_overflow))
        observe(log, clone.write_word, 2**20, UInt32(0xDEADBEEF))
        log.add(("clone-independent", observe(log, mem.read_word, 2**20),
                 observe(log, clone.read_word, 2**20),
                 observe(log, clone.read_word, 2**23)))
        # the range and the other parameters are ordinary attributes that can be changed
        new_lo = rng.choice([0, 16, 2**10, 2**20])
        mem.address_range = range(new_lo, rng.choice([2**32, 2**24, 2**20 + 2]))
        log.add(("range-changed", mem.get_address_range(), mem.address_range))
        history(log, rng, mem, riscv_anchors(new_lo, 32), [2**20], 20)
        mem.address_length = 24
        log.add(("length-changed", mem.address_length))
        history(log, rng, mem, riscv_anchors(new_lo, 24), [2**20], 20)
        mem.address_overflow = False
        history(log, rng, mem, riscv_anchors(new_lo, 24), [2**20], 20)
        mem.reset()
        log.add(("reset", snapshot(mem), observe(log, mem.read_word, 2**20)))
    log.report()


def scenario_settings():
    """States built under modified global settings."""
    log = Log("settings")
    rng = random.Random(SEED + 4)
    settings = Settings().get()
    saved = {k: settings[k] for k in
             ("memory_address_min_bytes", "memory_address_length", "toy_memory_max_bytes")}
    try:
        for lo, length, toy in [(2**14, 32, 4096), (0, 32, 4096), (64, 10, 32),
                                (2**8, 16, 100), (2**14, 32, 4096)]:
            settings["memory_address_min_bytes"] = lo
            settings["memory_address_length"] = length
            settings["toy_memory_max_bytes"] = toy
            mem = RiscvArchitecturalState().memory
            log.add(("riscv", mem.get_address_range(), mem.address_length, mem.address_overflow))
            history(log, rng, mem, riscv_anchors(lo, length), [lo + 40], 40)
            tmem = ToyArchitecturalState().memory
            log.add(("toy", tmem.get_address_range(), tmem.address_length, tmem.address_overflow))
            history(log, rng, tmem, [0, toy, toy - 1, -1], [toy // 2], 40)
    finally:
        settings.update(saved)
    log.report()


def scenario_construction():
    """How the states build their flat memory: defaults, caches in front of it,
    explicit memories, settings replaced as a whole."""
    log = Log("construction")
    rng = random.Random(SEED + 8)
    settings = Settings().get()
    keys = ("instruction_memory_min_bytes", "instruction_memory_max_bytes",
            "memory_address_length", "memory_address_min_bytes", "toy_memory_max_bytes")
    log.add(("values", [(k, settings[k], type(settings[k]).__name__) for k in keys]))
    # (Settings.get_JSON() cannot be used: the cache options in it are not serialisable.)
    log.add(("json", json.dumps({k: settings[k] for k in keys}, sort_keys=True)))

    def describe(mem):
        return (type(mem).__name__, mem.addressing_type.name, mem.address_length,
                mem.address_overflow, mem.address_range, mem.get_address_range(),
                mem.memory_file_values_width, snapshot(mem))

    for mode in ("single_stage_pipeline", "five_stage_pipeline"):
        log.add(("plain", mode, describe(RiscvArchitecturalState(pipeline_mode=mode).memory)))
        for cache_type in ("wb", "wt"):
            options = CacheOptions(True, 2, 1, 2, cache_type, "lru", 3)
            state = RiscvArchitecturalState(pipeline_mode=mode, data_cache_options=options)
            log.add(("cached", mode, cache_type, type(state.memory).__name__,
                     state.memory.get_address_range(), describe(state.memory.memory)))
            # the flat memory below the cache is the same kind of store
            history(log, rng, state.memory.memory, riscv_anchors(2**14, 32), [2**20], 30)
        own = Memory(AddressingType.BYTE, 16, False, range(32, 1000))
        state = RiscvArchitecturalState(pipeline_mode=mode, memory=own)
        log.add(("explicit", mode, state.memory is own, describe(state.memory)))
    for size in (None, 0, 1, 16, 4096, 5000):
        state = ToyArchitecturalState(unified_memory_size=size)
        log.add(("toy", size, describe(state.memory)))
        top = len(state.memory.address_range)
        history(log, rng, state.memory, [0, top, top - 1, -1, 2**12], [top // 2], 30)
    # Settings.get replaced as a whole (what a test harness might do)
    for lo, length, toy in [(128, 12, 50), (0, 8, 4096), (2**14, 32, 7)]:
        fake = dict(settings)
        fake.update(memory_address_min_bytes=lo, memory_address_length=length,
                    toy_memory_max_bytes=toy)
        with mock.patch.object(Settings, "get", lambda self, fake=fake: fake):
            mem = RiscvArchitecturalState().memory
            tmem = ToyArchitecturalState().memory
        log.add(("patched", lo, length, toy, describe(mem), describe(tmem)))
        history(log, rng, mem, riscv_anchors(lo, length), [lo + 20], 40)
        history(log, rng, tmem, [0, toy, toy - 1, -1], [toy // 2], 40)
    log.add(("restored", describe(RiscvArchitecturalState().memory),
             describe(ToyArchitecturalState().memory)))
    log.report()


def scenario_programs():
    """The store as seen by simulated programs."""
    log = Log("programs")
    rng = random.Random(SEED + 5)
    for rep in range(12):
        base = rng.choice([2**14, 2**14 + 100, 2**32 - 8, 2**32 - 4, 2**14 - 2, 0, 2**31])
        off = rng.randint(-6, 6)
        v = rng.getrandbits(32)
        program = f"""li t0, {base}
li t1, {v}
sw t1, {off}(t0)
sh t1, {off + 3}(t0)
sb t1, {off + 1}(t0)
lw a0, {off}(t0)
lhu a1, {off + 1}(t0)
lb a2, {off + 2}(t0)
"""
        for mode in ("single_stage_pipeline", "five_stage_pipeline"):
            sim = RiscvSimulation(mode=mode)
            sim.load_program(program)
            try:
                sim.run()
                out = ("ran",)
            except Exception as e:
                out = ("exc", type(e).__name__, repr(e))
            regs = [int(x) for x in sim.state.register_file.registers[10:13]]
            log.add((mode, base, off, v, out, regs, snapshot(sim.state.memory),
                     sim.get_data_memory_entries()))
    for rep in range(8):
        a = rng.randrange(1024, 4096)
        sim = ToySimulation()
        sim.load_program(f"INC\nINC\nSTO {a}\nADD {a}\nSTO {min(a + 1, 4095)}\n")
        try:
            sim.run()
            out = ("ran",)
        except Exception as e:
            out = ("exc", type(e).__name__, repr(e))
        log.add((a, out, int(sim.state.accu), snapshot(sim.state.memory)))
    log.report()


if __name__ == "__main__":
    scenario_riscv_state()
    scenario_toy_state()
    scenario_custom_memories()
    scenario_typed_addresses()
    scenario_public_attributes()
    scenario_settings()
    scenario_construction()
    scenario_programs()
    sys.exit(0)
