"""One integer decides everything.

VERIF_SEED is the root.  Run i of batch B of check P uses
    run_seed = H(VERIF_SEED / P / B / i)
and inside a run every generator draws from its own labelled child stream
    stream(run_seed, "program"), stream(run_seed, "faults"), ...
so adding a draw in one generator never shifts another.  Logging, statistics
and evidence never draw from a stream.
"""
import hashlib
import os
import random


def verif_seed() -> int:
    try:
        return int(os.environ.get("VERIF_SEED", "0"))
    except ValueError:
        return 0


def h64(text: str) -> int:
    return int.from_bytes(hashlib.sha256(text.encode()).digest()[:8], "big")


def run_seed(root: int, prop: str, batch: str, index: int) -> int:
    return h64(f"{root}/{prop}/{batch}/{index}")


def stream(seed: int, label: str) -> random.Random:
    return random.Random(h64(f"{seed}/{label}"))


def digest(obj) -> str:
    """Canonical sha256 of a JSON-like object (used for event logs and traces)."""
    import json

    return hashlib.sha256(
        json.dumps(obj, sort_keys=True, separators=(",", ":"), default=repr).encode()
    ).hexdigest()


class Hasher:
    """Incremental digest of an event log; never touches a PRNG or a clock."""

    def __init__(self) -> None:
        self._h = hashlib.sha256()
        self.count = 0

    def add(self, *items) -> None:
        self._h.update(repr(items).encode())
        self._h.update(b"\n")
        self.count += 1

    def hexdigest(self) -> str:
        return self._h.hexdigest()


def weighted(rng: random.Random, pairs):
    """pairs: list of (item, weight)."""
    total = sum(w for _, w in pairs)
    x = rng.random() * total
    acc = 0.0
    for item, w in pairs:
        acc += w
        if x < acc:
            return item
    return pairs[-1][0]


def deep(r) -> int:
    """Length multiplier: in the thorough tier (VERIF_DEEP=1, set by the runner for its workers and for the
    determinism resample) half of the runs - decided by the run's own stream - are generated several times
    longer.  The trace stores everything, so replay does not depend on the tier."""
    import os

    if os.environ.get("VERIF_DEEP") == "1" and r.random() < 0.5:
        return r.choice([2, 3, 4])
    return 1


def marathon(seed: int, p: float = 0.005) -> int:
    """Length of a marathon run, or 0.  A few runs of every history / walk batch (own labelled stream, so no other
    draw shifts) are an order of magnitude longer than the rest and pass the thresholds that short histories never
    reach: the 256th, the 1024th and the 4096th access, fill or write, ages and time stamps beyond a byte, more blocks than a
    small table holds."""
    r = stream(seed, "marathon")
    if r.random() < p:
        return r.choice([258, 300, 520, 520, 1030, 1100, 1300, 1300, 2200, 2700, 4300, 4400]) + r.randint(0, 40)
    return 0


def errname(e) -> str:
    """Name under which an exception is judged: like the front end (isinstance), a subclass of one of the two
    run-time error types counts as that type."""
    names = [c.__name__ for c in type(e).__mro__]
    for base in ("InstructionExecutionException", "StepSequenceError"):
        if base in names:
            return base
    return names[0]
