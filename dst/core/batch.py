"""Interfaces between the runner and the engines."""
from dataclasses import dataclass, field

from .result import Result
from .shrink import Budget


class Batch:
    """One family of simulated runs serving one property.

    run(seed, prop)      -> (trace, Result)   generate (seeded) and execute
    execute(trace, prop) -> Result            execute a recorded trace (replay / shrinking)
    shrink(trace, prop, still_fails, budget) -> trace

    A trace is JSON-serialisable and, together with the code, decides the
    execution completely.
    """

    name = "batch"
    engine = "engine"
    runs_quick = 1000
    runs_thorough = 10000
    per_run_timeout_s = 30.0

    def run(self, seed: int, prop: str):
        trace = self.generate(seed)
        return trace, self.execute(trace, prop)

    def generate(self, seed: int) -> dict:
        raise NotImplementedError

    def execute(self, trace: dict, prop: str) -> Result:
        raise NotImplementedError

    def shrink(self, trace: dict, prop: str, still_fails, budget: Budget) -> dict:
        return trace

    def describe(self, trace: dict) -> object:
        """Compact human-readable form for evidence samples."""
        return trace


@dataclass
class CheckDef:
    prop: str
    title: str
    batches: list
    design_ref: str
    rule: str
    hang_is_violation: bool = False
    components_real: list = field(default_factory=list)
    components_stub: list = field(default_factory=list)
    assumptions: list = field(default_factory=list)
    state_measure: str = ""
    time_unit: str = ""
    # probes that must be > 0 in a thorough run for the workload to be considered adequate
    required_probes: list = field(default_factory=list)
    level_text: str = ""
    level_note: str = ""
    technique: str = "deterministic simulation with fault injection: seeded search over workloads, fault plans and call schedules, reference-model / shadow-instance oracles, ddmin-minimised replay files"
