"""Python port of the web front end's driver (a stub - JavaScript is not executed):

  EventLoop            setTimeout / clearTimeout on a virtual clock (discrete events)
  SimulationStore      webgui/src/js/base_simulation_store.js (+ riscv_/toy_ subclasses)
  EditorStore          webgui/src/js/editor_store.js
  Ui                   button guards (RiscvControlButtons.vue / ToyControlButtons.vue),
                       settings watchers (RiscvSettingsPage.vue, CacheParameters.vue)

Each function names the JavaScript it mirrors.  All calls on the Python
simulation object go through a Subject, which mirrors them onto the shadows.
"""
import heapq

from .subject import CLOCK, RISCV_INSP, TOY_INSP


class EventLoop:
    def __init__(self):
        self.q = []
        self.seq = 0
        self.now = 0.0
        self.cancelled = set()
        self.fired = 0

    def set_timeout(self, fn, ms):
        self.seq += 1
        heapq.heappush(self.q, (self.now + ms, self.seq, fn))
        return self.seq

    def clear_timeout(self, tid):
        if tid is not None:
            self.cancelled.add(tid)

    def run_until(self, t):
        """Fire every timer due up to simulated time t (jumping the clock from event to event)."""
        while self.q and self.q[0][0] <= t:
            when, tid, fn = heapq.heappop(self.q)
            if tid in self.cancelled:
                self.cancelled.discard(tid)
                continue
            self.now = max(self.now, when)
            CLOCK.sim_ms = self.now
            self.fired += 1
            fn()
        self.now = max(self.now, t)
        CLOCK.sim_ms = self.now


class SimulationStore:
    """base_simulation_store.js:BaseSimulationStore with the RISC-V / TOY syncAll."""

    def __init__(self, subject, loop, knobs):
        self.sub = subject
        self.loop = loop
        self.batch = knobs.get("batch", 1000)
        self.step_cap = knobs.get("step_cap", 3000)
        self.tick_ms = knobs.get("tick_ms", 25)
        self.isDone = None
        self.hasStarted = None
        self.hasInstructions = None
        self.doPause = None
        self.isRunning = False
        self.error = None
        self.nextCycle = None
        self.overshoot = 0

    @property
    def isa(self):
        return self.sub.isa

    # loadProgram(text)  (base_simulation_store.js:64-71)
    def loadProgram(self, text):
        out = self.sub.load(text)
        if out[0] == "ok":
            self.error = None
        else:
            self.error = out[1]

    # syncAll()  (riscv_simulation_store.js:179-189 / toy_simulation_store.js:85-91)
    def syncAll(self):
        names = RISCV_INSP if self.isa == "riscv" else TOY_INSP
        self.sub.inspect(names, 1)
        sut = self.sub.sut
        try:
            self.isDone = bool(sut.is_done())
            self.hasStarted = bool(sut.has_started)
            self.hasInstructions = bool(sut.has_instructions())
            if self.isa == "toy":
                self.nextCycle = sut.next_cycle
        except Exception:  # noqa: BLE001
            pass

    # stepSimulation()  (base 139-145; toy 96-102 uses single_step)
    def stepSimulation(self):
        out = self.sub.step("single_step" if self.isa == "toy" else "step")
        if out[0] == "raised":
            self.error = ["InstructionExecutionException" if out[1] == "InstructionExecutionException" else "Unknown", out[1], out[2]]

    # doubleStepSimulation()  (toy 107-113)
    def doubleStepSimulation(self):
        out = self.sub.step("step")
        if out[0] == "raised":
            self.error = ["Unknown", out[1], None]

    # runSimulation()  (base 96-133)
    def runSimulation(self):
        self.isRunning = True
        self.resumePerformanceTimer()

        def stop_condition():
            try:
                done = bool(self.sub.sut.is_done())
            except Exception:  # noqa: BLE001
                done = True
            return done or self.doPause or self.error

        def step_loop():
            def body():
                for _ in range(self.batch):
                    if self.sub.total_steps >= self.step_cap:
                        # harness bound (<= step_cap step() calls per episode): behave like a user
                        # who presses pause; the rest of this batch is not issued
                        self.doPause = True
                        self.sub.res.probes["episode step cap reached: run loop paused"] += 1
                        break
                    try:
                        if self.sub.sut.is_done():
                            self.overshoot += 1
                    except Exception:  # noqa: BLE001
                        pass
                    self.stepSimulation()
                    if self.error:
                        break
                if not stop_condition():
                    self.syncAll()
                    self.sub.compare()
                    step_loop()
                else:
                    self.stopPerformanceTimer()
                    self.doPause = False
                    self.isRunning = False
                    self.syncAll()
                    self.sub.compare()

            self.loop.set_timeout(body, self.tick_ms)

        step_loop()

    # resetSimulation()  (base 151-157)
    def resetSimulation(self):
        self.sub.new_simulation()
        self.error = None

    def pauseSimulation(self):
        self.doPause = True

    def resumePerformanceTimer(self):
        self.sub.timer("resume_timer")

    def stopPerformanceTimer(self):
        self.sub.timer("stop_timer")


class EditorStore:
    """editor_store.js:EditorStore (text buffer, hasUnparsedChanges, debounce, linter)."""

    def __init__(self, store, loop, knobs, text=""):
        self.store = store
        self.loop = loop
        self.debounce_ms = knobs.get("debounce", 500)
        self.text = text
        self.hasUnparsedChanges = False
        self.timer = None
        self.linter_line = None

    # updateListener docChanged  (editor_store.js:102-110)
    def docChanged(self, new_text):
        self.text = new_text
        self.hasUnparsedChanges = True
        self.debounceAutoParsing()
        self.linter_line = None

    # debounceAutoParsing()  (176-183)
    def debounceAutoParsing(self):
        self.loop.clear_timeout(self.timer)
        self.timer = self.loop.set_timeout(self._auto, self.debounce_ms)

    def _auto(self):
        self.store.sub.res.probes["auto-parse timer fired"] += 1
        self.loadProgram()
        self.store.sub.compare()

    # loadProgram()  (190-211)
    def loadProgram(self):
        self.loop.clear_timeout(self.timer)
        self.linter_line = None
        self.store.loadProgram(self.text)
        err = self.store.error
        if err and err[0] == "ParserException":
            self.showLinterError(err[2], err[1])
        self.hasUnparsedChanges = False
        self.store.syncAll()

    # showLinterError(lineNumber, msg)  (142-160): CodeMirror's doc.line(n) throws for a line that does not exist
    def showLinterError(self, line, msg):
        nlines = len(self.text.split("\n"))
        if not isinstance(line, int) or not (1 <= line <= nlines):
            self.store.sub.violate(
                "C15", "linter-line-lookup-throws", expected=f"1..{nlines}", got=line, error=str(msg)[:200]
            )
            return
        self.linter_line = line


class Ui:
    """Button guards and settings watchers."""

    def __init__(self, subject, knobs, text=""):
        self.loop = EventLoop()
        self.sub = subject
        self.store = SimulationStore(subject, self.loop, knobs)
        self.editor = EditorStore(self.store, self.loop, knobs, text)
        self.store.syncAll()  # useRiscvSimulationStore(): syncAll right after creation

    # cantStep  (RiscvControlButtons.vue:15-23)
    def cantStep(self):
        s = self.store
        return bool(s.isRunning or not s.hasInstructions or s.isDone or s.error or self.editor.hasUnparsedChanges)

    def enabled(self):
        s = self.store
        acts = {"idle", "download"}
        if not self.cantStep():
            acts |= {"step", "run"}
            if self.sub.isa == "toy" and s.nextCycle == 1:
                acts.add("double")
        if s.isRunning:
            acts.add("pause")
        else:
            acts.add("reset")
        if not s.hasStarted:
            acts |= {"type", "upload"}
        acts |= {"setting", "clock"}
        return acts

    def do(self, act, arg):
        """Perform one user action if its guard allows it. Returns True if it was performed."""
        s, e = self.store, self.editor
        if act not in self.enabled():
            return False
        if act == "step":  # stepButton()
            s.resumePerformanceTimer()
            s.stepSimulation()
            s.stopPerformanceTimer()
            s.syncAll()
        elif act == "double":
            s.resumePerformanceTimer()
            s.doubleStepSimulation()
            s.stopPerformanceTimer()
            s.syncAll()
        elif act == "run":
            s.runSimulation()
        elif act == "pause":
            s.pauseSimulation()
        elif act == "reset":  # resetButton()
            s.resetSimulation()
            e.loadProgram()
        elif act == "type":
            e.docChanged(arg)
        elif act == "upload":  # uploadFile(): replace the text, load immediately
            e.docChanged(arg)
            e.loadProgram()
        elif act == "setting":  # settings watchers: reset + load with the new settings, also while running
            self.sub.settings.update(arg)
            self.sub.res.faults["F-reset (settings change)" + (" while running" if s.isRunning else "")] += 1
            s.resetSimulation()
            e.loadProgram()
        elif act == "clock":
            kind, val = arg
            if kind == "skew":
                CLOCK.skew += val
            elif kind == "freeze":
                CLOCK.freeze()
            else:
                CLOCK.unfreeze()
            self.sub.res.faults["F-clock:" + kind] += 1
        return True
