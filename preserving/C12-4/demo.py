"""Differential check for property C12 (write-through keeps memory current,
write-back never loses a written value).

Runs a few hundred random access histories (fixed seeds) over random cache
geometries / policies / replacement strategies against a byte-wise reference
model of the LOGICAL memory contents, checks the C12 state invariant after
every operation and prints a digest of everything the property talks about:

  * the value (or the fact of a rejection) returned by every read/write,
  * which blocks are resident and what they contain,
  * write-through: the complete backing memory and the memory table after
    every operation,
  * write-back: the set of addresses at which backing memory lags behind the
    logical contents *outside* resident blocks (must be empty), the contents
    that a reader sees (resident block, else backing memory), and the backing
    memory + memory table once every block has been evicted again,
  * hit / access counters (as long as no access was answered with a
    MemoryAddressError).

Deliberately NOT part of the digest, because C12 does not pin them down:
dirty bits, the backing-memory contents underneath a resident write-back block,
rows of the write-back memory table whose value is zero (an absent row and a
zero row show the same contents), counters after an out-of-range access.

Usage: PYTHONPATH=<worktree> python demo_1.py     (exit status 0, output is
identical for the unchanged and the changed code)
"""
import hashlib
import random
import sys

from fixedint import UInt8, UInt16, UInt32

import architecture_simulator
from architecture_simulator.uarch.memory.memory import (
    Memory,
    AddressingType,
    MemoryAddressError,
)
from architecture_simulator.uarch.memory.write_back_memory_system import (
    WriteBackMemorySystem,
)
from architecture_simulator.uarch.memory.write_through_memory_system import (
    WriteThroughMemorySystem,
)
from architecture_simulator.uarch.riscv.riscv_performance_metrics import (
    RiscvPerformanceMetrics,
)

N_CASES = 400
OPS_PER_CASE = 70
SEED0 = 1000
P_WT = 0.3  # share of write-through cases (the rest is write-back)
P_LIMITED = 0.15  # share of cases whose universe reaches below the valid address range
P_RESET = 0.03  # probability of a reset() per operation


class Violation(Exception):
    pass


def resident_blocks(ms):
    """[(set, way, base_address, [word values])] of all valid blocks."""
    res = []
    for si, zet in enumerate(ms.cache.sets):
        for wi, block in enumerate(zet.blocks):
            if block.valid_bit:
                base = block.decoded_address.block_alinged_address
                res.append((si, wi, base, [int(v) for v in block.values]))
    return res


def backing_byte(mem, a):
    return int(mem.read_byte(a))


def run_case(seed, out):
    rng = random.Random(seed)
    kind = "wt" if rng.random() < P_WT else "wb"
    idx = rng.randint(0, 2)
    blk = rng.randint(0, 2)
    assoc = rng.choice([1, 2, 4])
    strat = rng.choice(["lru", "plru"])
    penalty = rng.choice([0, 3])
    limited = rng.random() < P_LIMITED
    if limited:
        lo = 0x4000
        mem = Memory(AddressingType.BYTE, 32, True, range(lo, 2**32))
        base = lo - 64  # the first 64 bytes of the universe are out of range
    else:
        mem = Memory(AddressingType.BYTE, 32, True)
        base = rng.choice([0, 0x4000, 0x7FFFFF00])
    cls = WriteThroughMemorySystem if kind == "wt" else WriteBackMemorySystem
    pm = RiscvPerformanceMetrics()
    ms = cls(mem, idx, blk, assoc, pm, penalty, strat)
    block_bytes = 4 * 2**blk
    n_words = 2 ** (idx + blk) * assoc * 2 + 2 ** (blk + 1)
    size = 4 * n_words
    if limited:
        size = max(size, 128)
    universe = range(base, base + size)
    in_range = [a for a in universe if a in mem.get_address_range()]
    logical = {}  # byte address -> int, absent = 0
    small = rng.random() < 0.4  # small / repeated values personality
    stats_ok = True
    fresh = True  # no cached access since construction / reset

    out.append(("case", seed, kind, idx, blk, assoc, strat, penalty, limited, base))

    def val(bits):
        if small:
            return rng.choice([0, 0, 1, 1, 2, 0xFF, 0x101 & (2**bits - 1)])
        return rng.getrandbits(bits)

    def lget(a, n):
        return sum(logical.get(a + i, 0) << (8 * i) for i in range(n))

    def lput(a, n, v):
        for i in range(n):
            logical[a + i] = (v >> (8 * i)) & 0xFF

    def check_and_digest():
        blocks = resident_blocks(ms)
        covered = {}
        for si, wi, b, vals in blocks:
            if len(vals) != 2**blk:
                raise Violation("resident block with wrong length")
            for i, w in enumerate(vals):
                for k in range(4):
                    a = b + 4 * i + k
                    if a in covered:
                        raise Violation("address resident twice")
                    covered[a] = (w >> (8 * k)) & 0xFF
        backing = [backing_byte(mem, a) for a in in_range]
        logic = [logical.get(a, 0) for a in in_range]
        if kind == "wt":
            if backing != logic:
                raise Violation("write-through: backing memory not current")
            for a, v in covered.items():
                if a in mem.get_address_range() and backing_byte(mem, a) != v:
                    raise Violation("write-through: resident block != backing block")
            table = sorted(ms.wordwise_repr().items())
            out.append(("wt-state", blocks, backing, table))
        else:
            lag_outside = [
                a for a, bv, lv in zip(in_range, backing, logic) if bv != lv and a not in covered
            ]
            if lag_outside:
                raise Violation("write-back: memory lags at a non-resident address")
            seen = [covered.get(a, bv) for a, bv in zip(in_range, backing)]
            if seen != logic:
                raise Violation("write-back: a written value was lost")
            out.append(("wb-state", blocks, lag_outside, seen))
        if stats_ok:
            out.append(("stats", ms.hits, ms.accesses, ms.last_was_hit, pm.cycles, ms.get_cache_stats()["hits"], ms.get_cache_stats()["accesses"]))

    for step in range(OPS_PER_CASE):
        r = rng.random()
        a = base + rng.randrange(size)
        if rng.random() < 0.5:
            a &= ~3
        try:
            if fresh and r < 0.25:
                # initialised data segment: only before the first cached access
                v = val(32)
                a &= ~3
                ms.write_word(a, UInt32(v), directly_write_to_lower_memory=True)
                lput(a, 4, v)
                out.append(("init", a, v))
            elif r < P_RESET:
                ms.reset()
                logical.clear()
                fresh = True
                out.append(("reset",))
            elif r < 0.50:
                fresh = False
                width = rng.choice([1, 2, 4])
                upd = rng.random() < 0.8
                fn = {1: ms.read_byte, 2: ms.read_halfword, 4: ms.read_word}[width]
                got = int(fn(a, upd))
                out.append(("read", width, a, upd, got))
                if got != lget(a, width):
                    raise Violation("read returned %r, logical contents %r" % (got, lget(a, width)))
            else:
                fresh = False
                width = rng.choice([1, 2, 4])
                v = val(8 * width)
                if width == 1:
                    ms.write_byte(a, UInt8(v))
                elif width == 2:
                    ms.write_halfword(a, UInt16(v))
                else:
                    ms.write_word(a, UInt32(v))
                lput(a, width, v)
                out.append(("write", width, a, v))
        except MemoryAddressError:
            stats_ok = False
            out.append(("rejected", "address", a))
        except ValueError:
            # word-crossing access (ByteOffsetError is a ValueError)
            out.append(("rejected", "offset", a))
        check_and_digest()

    if kind == "wb" and not limited:
        # evict everything: read `assoc` far-away blocks per set
        far = (base + 0x100000) & ~(block_bytes * 2**idx - 1)
        for way in range(assoc):
            for s in range(2**idx):
                ms.read_word(far + way * block_bytes * 2**idx + s * block_bytes)
        backing = [backing_byte(mem, a) for a in in_range]
        if backing != [logical.get(a, 0) for a in in_range]:
            raise Violation("write-back: a written value was lost by eviction")
        table = sorted((k, v) for k, v in ms.wordwise_repr().items() if v[1] != "0" and k in universe)
        out.append(("wb-flushed", backing, table, ms.hits, ms.accesses))


def main():
    assert architecture_simulator.__file__  # imported from PYTHONPATH
    total = hashlib.sha256()
    violations = 0
    n_records = 0
    per_kind = {"wt": 0, "wb": 0}
    tally = {}
    for seed in range(N_CASES):
        out = []
        try:
            run_case(SEED0 + seed, out)
        except Violation as e:
            violations += 1
            out.append(("VIOLATION", str(e)))
            print("seed", SEED0 + seed, "VIOLATION", e)
        per_kind[out[0][2]] += 1
        n_records += len(out)
        for rec in out:
            key = rec[0] if rec[0] != "rejected" else "rejected-" + rec[1]
            tally[key] = tally.get(key, 0) + 1
        h = hashlib.sha256(repr(out).encode()).hexdigest()
        total.update(h.encode())
        if seed % 40 == 0:
            print("seed", SEED0 + seed, out[0][2:], h[:16])
    print("cases", N_CASES, per_kind, "records", n_records, "violations", violations)
    print("records by type", sorted(tally.items()))
    print("digest", total.hexdigest())
    return 0


if __name__ == "__main__":
    sys.exit(main())
