"""Run a pipesim trace on the real simulator in a chosen configuration and record
the event log the oracles read.  Every call into the system under test is
wrapped: exceptions become data.
"""
from . import ir
from ..core.rng import errname

REF_CAP = 400  # dynamic instructions

_MN_CLASS = {}
for _op in ir.R3 + ir.IT + ir.SHI:
    _MN_CLASS[_op.lower()] = "alu"
for _op in ir.LD:
    _MN_CLASS[_op.lower()] = "load"
for _op in ir.ST:
    _MN_CLASS[_op.lower()] = "store"
for _op in ir.BR:
    _MN_CLASS[_op.lower()] = "branch"
_MN_CLASS.update({"jal": "jal", "jalr": "jalr", "ecall": "ecall", "lui": "upper", "auipc": "upper", "Empty": "-"})


def _cache_options(c):
    from architecture_simulator.uarch.memory.cache import CacheOptions

    if not c:
        return CacheOptions(False, 0, 0, 1, "wb", "lru", 0)
    return CacheOptions(True, c["ib"], c["bb"], c["ways"], c["kind"], c["strat"], c["pen"])


class SutConstructionError(Exception):
    """RiscvSimulation(...) raised for a legal configuration."""


def make_sim(trace, mode, hz=True, dc=None, ic=None, prog=None):
    import fixedint
    from architecture_simulator.simulation.riscv_simulation import RiscvSimulation

    try:
        if trace["cfg"].get("via_state"):
            # the other documented way to get a simulation (the repository's own tests use it): the architectural
            # state is built first and handed over; the simulation's remaining arguments keep their defaults
            from architecture_simulator.uarch.riscv.riscv_architectural_state import RiscvArchitecturalState

            state = RiscvArchitecturalState(
                pipeline_mode=mode,
                detect_data_hazards=hz,
                data_cache_options=_cache_options(dc),
                instruction_cache_options=_cache_options(ic),
            )
            sim = RiscvSimulation(state=state, mode=mode)
        else:
            sim = RiscvSimulation(
                mode=mode,
                detect_data_hazards=hz,
                data_cache=_cache_options(dc),
                instruction_cache=_cache_options(ic),
            )
    except Exception as e:  # noqa: BLE001
        raise SutConstructionError(f"{type(e).__name__}: {e} (mode={mode}, dc={dc}, ic={ic})") from e
    if trace["cfg"].get("probe_before_load"):
        # the front end queries a new simulation before anything is loaded (syncAll right after creation)
        try:
            sim.is_done()
            sim.has_instructions()
        except Exception:  # noqa: BLE001
            pass
    # the assembler is stubbed, but the rest of load_program() is not: reset both memories first
    # (riscv_simulation.py:106-116), then place the instructions as the parser's last step does
    sim.state.memory.reset()
    sim.state.instruction_memory.reset()
    objs = ir.build(trace["prog"] if prog is None else prog)
    sim.state.instruction_memory.write_instructions(objs)
    sim._dst_program = objs  # the instruction objects as the harness placed them
    regs = sim.state.register_file.registers
    for k, v in trace["regs"].items():
        regs[int(k)] = fixedint.UInt32(v)
    mem = sim.state.memory
    for a, v in trace["mem"].items():
        # what the parser does for the data segment: straight into the backing store
        mem.write_byte(int(a), fixedint.UInt8(v), directly_write_to_lower_memory=True)
    return sim


class Decoy:
    """A second live simulation with the *opposite* settings, created after the simulation under
    observation and stepped alternately with it (the web UI keeps several simulation objects alive;
    state shared between instances - class attributes, module globals, mutable defaults - only
    shows when instances with different settings coexist)."""

    def __init__(self, trace, hz, dc, ic, prog=None):
        self.sim = None
        if not trace["cfg"].get("decoy"):
            return
        cfg = trace["cfg"]
        try:
            self.sim = make_sim(trace, "five_stage_pipeline", not hz, None if dc else cfg.get("dc"), None if ic else cfg.get("ic"), prog)
        except Exception:  # noqa: BLE001
            self.sim = None

    def step(self):
        if self.sim is not None:
            try:
                self.sim.step()
            except Exception:  # noqa: BLE001
                self.sim = None


def _stalled(pl):
    """Pipeline.stalled is bookkeeping of the implementation (not used by the GUI or the tests); it is read for
    coverage signatures and probes only, and a pipeline that keeps this state elsewhere is fine."""
    st = getattr(pl, "stalled", None)
    try:
        return tuple(st) if st is not None else None
    except TypeError:
        return None


class FetchSpy:
    """Records every fetch the simulation performs: an instance-level wrapper around read_instruction of its
    instruction memory (system); nothing in /repo changes.  The fetch stream is what C11's counters are
    compared with - observed, not derived from the pipeline's stall bookkeeping."""

    def __init__(self, sim):
        self.log = []
        im = sim.state.instruction_memory
        orig = im.read_instruction
        log = self.log

        def read_instruction(address, _orig=orig):
            ins = _orig(address)
            log.append((address, ins))
            return ins

        im.read_instruction = read_instruction


def exc_info(e):
    return {
        "type": errname(e),
        "address": getattr(e, "address", None),
        "repr": getattr(e, "instruction_repr", None),
        "msg": str(getattr(e, "error_message", ""))[:120],
    }


def logical_memory(sim):
    """Non-zero bytes of the logical data memory (resident cache blocks over the
    backing store), read white-box without side effects."""
    mem = sim.state.memory
    if hasattr(mem, "memory_file"):
        return {a: int(v) for a, v in mem.memory_file.items() if int(v)}
    out = {a: int(v) for a, v in mem.memory.memory_file.items()}
    for st in mem.cache.sets:
        for b in st.blocks:
            if b.valid_bit:
                base = b.decoded_address.block_alinged_address
                for i, wd in enumerate(b.values):
                    w = int(wd)
                    for j in range(4):
                        out[(base + 4 * i + j) & 0xFFFFFFFF] = (w >> (8 * j)) & 0xFF
    return {a: v for a, v in out.items() if v}


def summary(sim):
    st = sim.state
    pm = st.performance_metrics
    return {
        "regs": [int(x) for x in st.register_file.registers],
        "mem": logical_memory(sim),
        "output": st.output,
        "exit_code": st.exit_code,
        "instruction_count": pm.instruction_count,
        "branch_count": pm.branch_count,
        "procedure_count": pm.procedure_count,
    }


def cache_counters(sim):
    st = sim.state
    d = st.memory
    i = st.instruction_memory
    return (
        getattr(d, "accesses", None),
        getattr(d, "hits", None),
        getattr(i, "accesses", None),
        getattr(i, "hits", None),
    )


def run_ref(trace, dc=None, ic=None, cap=None, prog=None, hook=None, spy=False):
    """Single-cycle mode: the sequential reference.  Returns
    {"recs": [...], "sim", "exc", "capped"} with one record per executed instruction:
    (addr, index, redirect, is_ecall, exited, rd, rdval, out_len)."""
    prog_ir = trace["prog"] if prog is None else prog
    if cap is None:
        cap = trace["cfg"].get("cap", REF_CAP)
    sim = make_sim(trace, "single_stage_pipeline", True, dc, ic, prog)
    fetch_spy = FetchSpy(sim) if spy else None
    decoy = Decoy(trace, True, dc, ic, prog)
    st = sim.state
    pm = st.performance_metrics
    regs = st.register_file.registers
    recs = []
    exc = None
    n = len(prog_ir)
    while len(recs) < cap:
        try:
            if sim.is_done():
                break
        except Exception as e:  # noqa: BLE001
            exc = exc_info(e)
            break
        pc = st.program_counter
        idx = pc // 4
        ins = prog_ir[idx] if pc % 4 == 0 and 0 <= idx < n else None
        bc0 = pm.branch_count
        if hook:
            hook(sim, ins, len(recs))
        decoy.step()
        try:
            sim.step()
        except Exception as e:  # noqa: BLE001
            exc = exc_info(e)
            exc["at_index"] = idx
            break
        cls = ir.klass(ins) if ins else "?"
        rd = ir.dst(ins) if ins else None
        recs.append(
            (
                pc,
                idx,
                cls in ("jal", "jalr") or pm.branch_count != bc0,
                cls == "ecall",
                st.exit_code is not None,
                rd,
                int(regs[rd]) if rd else None,
                len(st.output),
            )
        )
    capped = len(recs) >= cap and exc is None and not _safe_done(sim)
    return {"recs": recs, "sim": sim, "exc": exc, "capped": capped, "fetches": fetch_spy.log if fetch_spy else None}


def _safe_done(sim):
    try:
        return bool(sim.is_done())
    except Exception:  # noqa: BLE001
        return False


def run_five(trace, hz=True, dc=None, ic=None, max_ticks=3000, stop_after_retired=None, prog=None, on_tick=None, spy=False):
    """Five-stage mode, one tick at a time.  Returns {"ticks": [...], "sim", "exc", "done"};
    one record per tick:
      (tick, retired_addr, cycles, flushes, stalls, out_len, exit_code,
       dc_acc, dc_hits, ic_acc, ic_hits, stalled_pre, pc_pre, had_instr_pre, if_addr, sig, rdval,
       mem_addr, mem_comparison,   # the instruction in the MEM latch and the pipeline's own branch evaluation
       decode_stall_requested)     # the ID latch carries a stall signal (public field of PipelineRegister)"""
    sim = make_sim(trace, "five_stage_pipeline", hz, dc, ic, prog)
    fetch_spy = FetchSpy(sim) if spy else None
    decoy = Decoy(trace, hz, dc, ic, prog)
    st = sim.state
    pm = st.performance_metrics
    pl = st.pipeline
    regs = st.register_file.registers
    ticks = []
    exc = None
    retired = 0
    t = 0
    done = False
    while t < max_ticks:
        try:
            if sim.is_done():
                done = True
                break
        except Exception as e:  # noqa: BLE001
            exc = exc_info(e)
            break
        stalled_pre = _stalled(pl)
        pc_pre = st.program_counter
        try:
            had = bool(st.instruction_at_pc())
        except Exception:  # noqa: BLE001
            had = None
        fl0 = pm.flushes
        decoy.step()
        try:
            sim.step()
        except Exception as e:  # noqa: BLE001
            exc = exc_info(e)
            exc["tick"] = t + 1
            exc["stalled_pre"] = stalled_pre
            exc["pc_pre"] = pc_pre
            exc["had_pre"] = had
            break
        t += 1
        prs = pl.pipeline_registers
        last = prs[-1]
        raddr = last.address_of_instruction
        rdval = None
        if raddr is not None:
            retired += 1
            wr = getattr(last, "write_register", None)
            if wr:
                rdval = int(regs[wr])
        dca, dch, ica, ich = cache_counters(sim)
        sig = (
            tuple(_MN_CLASS.get(p.instruction.mnemonic, "?") for p in prs),
            _stalled(pl),
            pm.flushes - fl0,
        )
        rec = (
            t, raddr, pm.cycles, pm.flushes, pm.stalls, len(st.output), st.exit_code,
            dca, dch, ica, ich, stalled_pre, pc_pre, had, prs[0].address_of_instruction, sig, rdval,
            prs[3].address_of_instruction, getattr(prs[3], "comparison", None),
            getattr(prs[1], "stall_signal", None) is not None,
        )
        ticks.append(rec)
        if on_tick:
            on_tick(sim, rec)
        if stop_after_retired is not None and retired >= stop_after_retired:
            break
    else:
        done = _safe_done(sim)
    if not done and exc is None:
        done = _safe_done(sim)
    return {"ticks": ticks, "sim": sim, "exc": exc, "done": done, "fetches": fetch_spy.log if fetch_spy else None}
