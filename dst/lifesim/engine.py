"""lifesim: episodes of the driver against the real simulation objects.

UI mode   a seeded *user* process acts on the ported front end (driver.py) through a
          discrete-event loop with two timers (run loop 25 ms x batch, auto-parse debounce
          500 ms) and a virtual wall clock.  Trace = knobs + initial settings + list of user
          intents {"dt", "act", "arg"}; an intent whose button guard is false at that moment is
          ignored, so a trace stays meaningful under deletion of events (shrinking).
API mode  raw call sequences without the button guards: run(), load_program on a started
          object (F-reload), TOY half-cycle calls in invalid orders (F-seq), many consecutive
          loads, inspection storms.

Generation happens *while executing* in UI mode (the user chooses among the actions
currently enabled); the recorded intent list replays to the same execution.
"""
import copy

from ..core import findings
from ..core import rng as R
from ..core.batch import Batch
from ..core.result import Result
from ..core.rng import Hasher
from ..core.shrink import Budget, ddmin_list
from ..memsim.models import RefCache
from . import textgen as T
from .driver import Ui
from .subject import CLOCK, RISCV_INSP, TOY_INSP, Subject, SutConstructionError, install_clock, call_insp

STEP_CAP = 3000


def gen_cache(r, data, p_enable=0.5):
    strat = r.choice(["lru", "plru"])
    return {
        "enable": r.random() < p_enable,
        "ib": r.randint(0, 2),
        "bb": r.choice([0, 0, 1, 1, 2, 2, 3]),
        "ways": r.choice([1, 2, 4]) if strat == "plru" else r.choice([1, 2, 3, 4, 5]),
        "kind": r.choice(["wb", "wt"]) if data else "wt",
        "strat": strat,
        "pen": r.choice([0, 0, 1, 3]),
    }


def gen_settings(r, isa=None):
    isa = isa or ("toy" if r.random() < 0.3 else "riscv")
    if isa == "toy":
        return {"isa": "toy", "decoy": r.random() < 0.25}
    return {
        "decoy": r.random() < 0.25,
        "isa": "riscv",
        "mode": r.choice(["single_stage_pipeline", "five_stage_pipeline"]),
        "hz": r.random() < 0.8,
        "dc": gen_cache(r, True),
        "ic": gen_cache(r, False),
    }


def gen_text(r, isa, p_bad=0.25):
    if isa == "toy":
        if r.random() < p_bad:
            k = r.random()
            if k < 0.3:
                return r.choice(T.TOY_BAD)
            if k < 0.55:
                return T.mutate_literal(r, T.gen_toy(r))
            return T.mutate(r, T.gen_toy(r), T.TOY_TOK)
        return T.gen_toy(r)
    if r.random() < p_bad:
        k = r.random()
        if k < 0.3:
            return r.choice(T.RV_BAD)
        if k < 0.6:
            return T.mutate_literal(r, T.gen_riscv(r))
        return T.mutate(r, T.gen_riscv(r), T.TOK)
    return T.gen_riscv(r)


# ---------------------------------------------------------------------------
# UI mode


def _user_choice(r, ui, isa, state):
    """The seeded user: picks the next intent among the enabled actions."""
    en = ui.enabled()
    w = []
    if "type" in en:
        w.append(("type", 5))
        w.append(("upload", 1))
    if "step" in en:
        w.append(("step", 6))
        w.append(("run", 2))
    if "double" in en:
        w.append(("double", 3))
    if "pause" in en:
        w.append(("pause", 2))
    if "reset" in en:
        w.append(("reset", 1.5))
    w.append(("idle", 4))
    w.append(("setting", 0.7 if isa == "riscv" else 0.0))
    w.append(("clock", 0.6))
    act = R.weighted(r, [x for x in w if x[1] > 0])
    arg = None
    dt = r.choice([0, 1, 5, 20, 30, 100, 400, 499, 500, 501, 700, 2000])
    if act == "type":
        cur = ui.editor.text
        toks = T.TOY_TOK if isa == "toy" else T.TOK
        k = r.random()
        if k < 0.25:
            arg = gen_text(r, isa, p_bad=0.1)  # paste a whole program
        elif k < 0.35:
            arg = ""
        else:
            arg = T.mutate(r, cur, toks)
        dt = r.choice([0, 10, 50, 120, 300, 480, 520, 900])
    elif act == "upload":
        arg = gen_text(r, isa, p_bad=0.2)
    elif act == "setting":
        k = r.random()
        s = ui.sub.settings
        if k < 0.3:
            arg = {"mode": "five_stage_pipeline" if s["mode"] == "single_stage_pipeline" else "single_stage_pipeline"}
        elif k < 0.45:
            arg = {"hz": not s["hz"]}
        elif k < 0.75:
            arg = {"dc": gen_cache(r, True, 0.7)}
        else:
            arg = {"ic": gen_cache(r, False, 0.7)}
    elif act == "clock":
        k = r.random()
        if k < 0.5:
            arg = ["skew", r.choice([-3.0, -0.5, -100.0, 0.25, 50.0, 3600.0])]
        elif k < 0.8:
            arg = ["freeze", 0]
        else:
            arg = ["unfreeze", 0]
    elif act == "idle":
        dt = r.choice([30, 100, 600, 600, 1500, 5000])
    return {"dt": dt, "act": act, "arg": arg}


def _construction_failed(trace, prop, e):
    res = Result()
    res.violate(prop, "simulation-could-not-be-constructed", got=str(e)[:200], settings=trace.get("settings"),
                note="the front end's factory raised for a legal configuration")
    res.digest = "construction-failed"
    return res


def run_ui(trace, prop, seed=None):
    """Execute (and, if trace['events'] is None, generate) one UI-mode episode."""
    try:
        return _run_ui(trace, prop, seed)
    except SutConstructionError as e:
        out = dict(trace)
        if out.get("events") is None:
            out["events"] = []
        return out, _construction_failed(trace, prop, e)


def _run_ui(trace, prop, seed=None):
    install_clock()
    CLOCK.reset()
    res = Result()
    hs = Hasher()
    generating = trace.get("events") is None
    r = R.stream(seed, "user") if generating else None
    settings = copy.deepcopy(trace["settings"])
    sub = Subject(settings, res, hs, {prop})
    ui = Ui(sub, trace["knobs"], trace.get("initial_text", ""))
    isa = settings["isa"]
    events = [] if generating else trace["events"]
    # initial load of the editor content, as the page does on start-up
    ui.editor.loadProgram()
    sub.compare()
    n_events = trace["n_events"] if generating else len(events)
    total_steps = 0
    i = 0
    performed = 0
    prev_sig = None
    while i < n_events and not sub.dead:
        if generating:
            ev = _user_choice(r, ui, isa, None)
            events.append(ev)
        else:
            ev = events[i]
        i += 1
        ui.loop.run_until(ui.loop.now + ev["dt"])
        if sub.dead:
            break
        running_before = ui.store.isRunning
        done = ui.do(ev["act"], ev["arg"])
        hs.add("ev", ev["act"], bool(done), ui.loop.now)
        if done:
            performed += 1
            sig = hash((ev["act"], bool(ui.store.isRunning), bool(ui.store.error), bool(ui.store.isDone), bool(ui.store.hasStarted),
                        bool(ui.editor.hasUnparsedChanges), ui.store.nextCycle))
            res.states.add(sig)
            res.trans.add(hash((prev_sig, sig)))
            prev_sig = sig
            if ev["act"] == "reset" or ev["act"] == "setting":
                res.faults["F-reset"] += 1
                if running_before:
                    res.probes["reset/settings change while the run loop is scheduled"] += 1
            if ev["act"] == "clock" and ev["arg"][0] == "skew" and ev["arg"][1] < 0 and ui.store.isRunning:
                res.probes["clock went backwards while the timer was running"] += 1
            if ev["act"] not in ("idle", "clock", "pause", "run"):
                sub.compare()
        total_steps = res.probes.get("steps", 0)
    # let pending timers (run loop, auto-parse) finish, bounded
    guard = 0
    while ui.loop.q and guard < 400 and not sub.dead:
        nxt = ui.loop.q[0][0]
        ui.loop.run_until(nxt)
        guard += 1
        if guard > 60 and ui.store.isRunning:
            ui.store.pauseSimulation()
    if not sub.dead:
        sub.compare()
    if ui.store.overshoot:
        res.probes["batch overshoot: step() calls after done"] += ui.store.overshoot
    sub.final_compare()
    sub.close()
    res.sim["simulated_ms"] += int(ui.loop.now)
    res.sim["events"] += len(events)
    res.sim["timers_fired"] += ui.loop.fired
    res.nontrivial = performed >= 3
    res.digest = hs.hexdigest()
    del total_steps
    out = dict(trace)
    out["events"] = events
    return out, res


class UiEpisodes(Batch):
    engine = "lifesim"
    per_run_timeout_s = 60.0

    def __init__(self, name, runs_quick, runs_thorough, isa=None):
        self.name = name
        self.runs_quick = runs_quick
        self.runs_thorough = runs_thorough
        self.isa = isa

    def _skeleton(self, seed):
        r = R.stream(seed, "config")
        settings = gen_settings(r, self.isa)
        knobs = {
            "batch": r.choice([1, 2, 3, 7, 50, 1000]),
            "tick_ms": r.choice([25, 25, 5, 100]),
            "debounce": r.choice([500, 500, 100, 1000]),
        }
        text = gen_text(r, settings["isa"], p_bad=0.15) if r.random() < 0.8 else ""
        return {
            "mode": "ui",
            "settings": settings,
            "knobs": knobs,
            "initial_text": text,
            "n_events": r.choice([r.randint(3, 10), r.randint(8, 25), r.randint(20, 45)]) * R.deep(r),
            "gen_seed": seed,
            "events": None,
        }

    def run(self, seed, prop):
        return run_ui(self._skeleton(seed), prop, seed)

    def generate(self, seed):
        # generation needs execution; used only after a wall-clock timeout
        return self._skeleton(seed)

    def execute(self, trace, prop):
        if trace.get("events") is None:
            return run_ui(trace, prop, trace.get("gen_seed", 0))[1]
        return run_ui(trace, prop)[1]

    def shrink(self, trace, prop, still_fails, budget: Budget):
        mk = lambda ev, base=None: {**(base or trace), "events": ev}  # noqa: E731
        ev = ddmin_list(trace["events"], still_fails, budget, rebuild=mk)
        cur = mk(ev)
        # simplify: delays to 0 / 600, batch to small, initial text to empty
        for i in range(len(ev)):
            if budget.spent():
                break
            for dt in (0, 600):
                if ev[i]["dt"] == dt:
                    break
                cand = [dict(x) for x in ev]
                cand[i]["dt"] = dt
                budget.tick()
                if still_fails(mk(cand, cur)):
                    ev = cand
                    break
        cur = mk(ev, cur)
        for key, val in (("initial_text", ""),):
            if cur.get(key) != val and not budget.spent():
                cand = {**cur, key: val}
                budget.tick()
                if still_fails(cand):
                    cur = cand
        for b in (1, 3):
            if cur["knobs"]["batch"] > b and not budget.spent():
                cand = {**cur, "knobs": {**cur["knobs"], "batch": b}}
                budget.tick()
                if still_fails(cand):
                    cur = cand
                    break
        cur = _shrink_settings(cur, still_fails, budget)
        cur = _shrink_texts(cur, still_fails, budget, "events")
        return cur

    def describe(self, trace):
        return _describe(trace)


# ---------------------------------------------------------------------------
# API mode


def gen_api(seed, isa=None, flavour=None, force=None):
    r = R.stream(seed, "config")
    settings = gen_settings(r, isa)
    isa = settings["isa"]
    for k, v in (force or {}).items():
        if isinstance(v, dict):
            settings[k].update(v)
        else:
            settings[k] = v
    r = R.stream(seed, "ops")
    flavour = flavour or r.choice(["lifecycle", "lifecycle", "inspect", "loads", "reload"] + (["halfsteps"] * 3 if isa == "toy" else []))
    if flavour == "reload" and isa == "riscv":
        settings["ic"]["enable"] = True
    names = RISCV_INSP if isa == "riscv" else TOY_INSP
    ops = []
    n = r.choice([r.randint(3, 10), r.randint(8, 25)]) * R.deep(r)
    loaded = False
    for _ in range(n):
        k = r.random()
        if not loaded or k < (0.30 if flavour == "loads" else 0.10):
            bad = r.random() < (0.45 if flavour == "loads" else 0.2)
            ops.append(["load", gen_text(r, isa, p_bad=1.0 if bad else 0.0)])
            if isa == "riscv" and flavour in ("loads", "lifecycle") and R.stream(seed, f"long-text-{len(ops)}").random() < 0.012:
                ops[-1][1] = T.long_text(R.stream(seed, f"long-text-body-{len(ops)}"))  # far branches (own streams)
            loaded = loaded or not bad
            if flavour == "reload":
                pass
        elif k < 0.55:
            if isa == "toy" and flavour == "halfsteps":
                for _ in range(r.randint(1, 6)):
                    ops.append(["call", r.choice(["step", "first_cycle_step", "second_cycle_step", "single_step", "single_step", "step"])])
            elif isa == "toy":
                ops.append(["call", r.choice(["step", "step", "single_step", "first_cycle_step", "second_cycle_step"])])
            else:
                ops.append(["step", r.choice([1, 1, 2, 5, 40, 300])])
        elif k < 0.62:
            ops.append(["run"])
        elif k < 0.85:
            sub = r.sample(names, r.randint(1, len(names)))
            ops.append(["insp", sub, r.choice([1, 1, 3])])
        elif k < 0.90:
            ops.append(["clock", r.choice(["skew", "skew", "freeze", "unfreeze", "advance"]), r.choice([-3.0, 0.01, 100.0, -0.5, 25.0])])
        elif k < 0.92:
            ops.append(["timer", r.choice(["resume_timer", "stop_timer", "resume_timer"])])
        elif k < 0.96 and flavour in ("reload", "loads"):
            ops.append(["load", gen_text(r, isa, p_bad=0.2)])  # possibly on a started object (F-reload)
        else:
            ops.append(["reset"])
            loaded = False
    if flavour == "reload" and isa == "riscv":
        # run program P1 for k steps, load P2 on the same object, keep stepping
        ops = [["load", gen_text(r, isa, 0.0)], ["step", r.choice([1, 3, 7, 20])], ["load", gen_text(r, isa, 0.0)],
               ["insp", ["get_instruction_cache_stats", "get_instruction_cache_entries"], 1], ["step", r.choice([1, 5, 30])]] + ops[:6]
    return {"mode": "api", "settings": settings, "flavour": flavour, "cmp_every": r.choice([1, 1, 2, 3]), "ops": ops}


class _ReloadWatch:
    """C11 reload clause: after load_program on an object that has run, the instruction cache
    holds nothing of the previous program and every later fetch is served correctly."""

    def __init__(self, sub):
        self.sub = sub
        ic = sub.settings["ic"]
        self.ref = RefCache("ro", ic["ib"], ic["bb"], ic["ways"], ic["strat"])
        self.base_acc = 0
        self.base_hits = 0

    def after_reload(self):
        sub = self.sub
        sim = sub.sut
        stats = call_insp(sim, "riscv", sub.mode, "get_instruction_cache_stats")
        entries = call_insp(sim, "riscv", sub.mode, "get_instruction_cache_entries")
        if not isinstance(stats, dict) or stats.get("hits") != "0" or stats.get("accesses") != "0":
            sub.violate("C11", "instruction-cache-counters-survive-reload", expected={"hits": "0", "accesses": "0"}, got=stats)
            return
        valid = [b for s in (entries or {}).get("sets", []) for b in s.get("blocks", []) if b.get("valid_bit") != "0"]
        if valid:
            sub.violate("C11", "instruction-cache-blocks-survive-reload", expected="no valid block", got=valid[:2])
            return
        sub.res.probes["reload on a started simulation with an instruction cache: cache empty, counters 0/0"] += 1

    def attach(self):
        """Spy on the SUT's read_instruction (instance-level wrapper): the fetches really performed after the reload."""
        im = self.sub.sut.state.instruction_memory
        if getattr(im, "_dst_fetch_log", None) is None:
            log = []
            orig = im.read_instruction

            def read_instruction(address, _orig=orig):
                ins = _orig(address)
                log.append((address, ins))
                return ins

            im.read_instruction = read_instruction
            im._dst_fetch_log = log
        self.log = im._dst_fetch_log
        del self.log[:]

    def step(self):
        """One step() on the SUT with the fetch check (called instead of Subject.step)."""
        sub = self.sub
        st = sub.sut.state

        def counters():
            try:
                d = st.memory
                return (st.performance_metrics.cycles, getattr(d, "accesses", 0) - getattr(d, "hits", 0))
            except Exception:  # noqa: BLE001
                return None

        try:
            was_done = bool(sub.sut.is_done())
        except Exception:  # noqa: BLE001
            was_done = None
        c0 = counters()
        h0 = (self.ref.acc, self.ref.hits)
        out = sub.step("step")
        c1 = counters()
        im = st.instruction_memory
        try:
            backing = im.instruction_memory.instructions
        except AttributeError:
            backing = None
        for (a, got) in self.log:
            self.ref.access(a, False)
            if backing is not None and got is not backing.get(a):
                sub.violate("C11", "stale-instruction-fetched-after-reload", address=a, expected=repr(backing.get(a)), got=repr(got))
        if self.log and (im.accesses, im.hits) != (self.ref.acc, self.ref.hits):
            sub.violate("C11", "fetch-accounting-after-reload", expected=[self.ref.acc, self.ref.hits], got=[im.accesses, im.hits])
        elif out[0] == "ok" and was_done is False and None not in (c0, c1) and not sub.res.violations:
            # every miss adds the configured penalty to the cycle counter the user sees - also after a reload (the data
            # side's misses of this step are taken from its own counters, so that only the instruction side is judged)
            imiss = (self.ref.acc - h0[0]) - (self.ref.hits - h0[1])
            dpen = sub.settings["dc"]["pen"] if sub.settings["dc"]["enable"] else 0
            want = 1 + imiss * sub.settings["ic"]["pen"] + (c1[1] - c0[1]) * dpen
            if c1[0] - c0[0] != want:
                sub.violate("C11", "penalty-cycles-after-reload", expected=want, got=c1[0] - c0[0], instruction_cache_misses=imiss,
                            data_cache_misses=c1[1] - c0[1])
            elif imiss and sub.settings["ic"]["pen"]:
                sub.res.probes["instruction-cache miss after a reload charged to the cycle counter"] += 1
        del self.log[:]
        return out


def run_api(trace, prop):
    try:
        return _run_api(trace, prop)
    except SutConstructionError as e:
        return _construction_failed(trace, prop, e)


def _run_api(trace, prop):
    install_clock()
    CLOCK.reset()
    res = Result()
    hs = Hasher()
    settings = copy.deepcopy(trace["settings"])
    sub = Subject(settings, res, hs, {prop})
    isa = settings["isa"]
    cmp_every = trace.get("cmp_every", 1)
    watch = None
    steps = 0
    performed = 0
    prev_sig = None
    for i, op in enumerate(trace["ops"]):
        if sub.dead:
            break
        kind = op[0]
        hs.add("op", kind)
        CLOCK.sim_ms += 7.0  # every call takes a little simulated time
        if kind == "load":
            started = bool(getattr(sub.sut, "has_started", False))
            out = sub.load(op[1])
            if started and out[0] == "ok" and isa == "riscv" and settings["ic"]["enable"] and prop == "C11":
                watch = _ReloadWatch(sub)
                watch.after_reload()
                watch.attach()
            elif not started:
                watch = None
            performed += 1
        elif kind == "step":
            if not sub.loaded_ok or sub.faulted:
                continue
            for _ in range(op[1]):
                if steps >= STEP_CAP or sub.dead or sub.faulted:
                    break
                steps += 1
                if watch is not None:
                    watch.step()
                else:
                    sub.step("step")
            performed += 1
        elif kind == "call":
            if not sub.loaded_ok or sub.faulted:
                continue
            steps += 1
            sub.step(op[1])
            performed += 1
        elif kind == "run":
            if not sub.loaded_ok or sub.faulted or sub.reloaded_started:
                continue
            if isa == "toy" and getattr(sub.sut, "next_cycle", 1) != 1:
                continue  # run() in the middle of an instruction: no property speaks about it
            # only issue run() when a probe copy terminates within the cap: otherwise the wall
            # watchdog would decide, and a hang of run() on a terminating program is a violation
            try:
                probe = copy.deepcopy(sub.s13 if sub.s13 is not None else sub.sut)
            except Exception:  # noqa: BLE001
                res.probes["run() skipped: the simulation cannot be deep-copied for the termination probe"] += 1
                continue
            k = 0
            try:
                while not probe.is_done() and k < STEP_CAP:
                    probe.step()
                    k += 1
                term = probe.is_done()
            except Exception:  # noqa: BLE001
                term = True  # faults: run() raises, which is fine
            if not term:
                res.probes["run() skipped: program does not terminate within the step cap"] += 1
                continue
            sub.run()
            res.probes["run() issued"] += 1
            performed += 1
        elif kind == "insp":
            sub.inspect(op[1], op[2])
            performed += 1
        elif kind == "clock":
            if op[1] == "skew":
                CLOCK.skew += op[2]
            elif op[1] == "freeze":
                CLOCK.freeze()
            elif op[1] == "unfreeze":
                CLOCK.unfreeze()
            else:
                CLOCK.sim_ms += abs(op[2]) * 1000
            res.faults["F-clock:" + op[1]] += 1
            continue
        elif kind == "timer":
            sub.timer(op[1])
            res.probes["timer function called directly (" + op[1] + ")"] += 1
        elif kind == "reset":
            sub.new_simulation()
            watch = None
            res.faults["F-reset"] += 1
            continue
        sig = hash((kind, sub.loaded_ok, sub.faulted, sub.was_done, bool(getattr(sub.sut, "has_started", False))))
        res.states.add(sig)
        res.trans.add(hash((prev_sig, sig)))
        prev_sig = sig
        if (i % cmp_every == 0) or i == len(trace["ops"]) - 1:
            sub.compare()
    if not sub.dead:
        sub.compare()
    sub.final_compare()
    sub.close()
    res.sim["calls"] += len(trace["ops"])
    res.sim["steps"] += steps
    res.sim["simulated_ms"] += int(CLOCK.sim_ms)
    res.nontrivial = performed >= 3
    res.digest = hs.hexdigest()
    return res


class ApiEpisodes(Batch):
    engine = "lifesim"
    per_run_timeout_s = 60.0

    def __init__(self, name, runs_quick, runs_thorough, isa=None, flavour=None, force=None):
        self.name = name
        self.runs_quick = runs_quick
        self.runs_thorough = runs_thorough
        self.isa = isa
        self.flavour = flavour
        self.force = force

    def generate(self, seed):
        return gen_api(seed, self.isa, self.flavour, self.force)

    def execute(self, trace, prop):
        return run_api(trace, prop)

    def shrink(self, trace, prop, still_fails, budget: Budget):
        mk = lambda ops, base=None: {**(base or trace), "ops": ops}  # noqa: E731
        ops = ddmin_list(trace["ops"], still_fails, budget, rebuild=mk)
        cur = mk(ops)
        # step counts towards 1
        ops = [list(o) for o in cur["ops"]]
        for i, o in enumerate(ops):
            if budget.spent():
                break
            if o[0] == "step" and o[1] > 1:
                for v in (1, 2, o[1] // 2):
                    cand = [list(x) for x in ops]
                    cand[i][1] = v
                    budget.tick()
                    if still_fails(mk(cand, cur)):
                        ops = cand
                        break
            if o[0] == "insp" and (len(o[1]) > 1 or o[2] > 1):
                for name in o[1]:
                    cand = [list(x) for x in ops]
                    cand[i] = ["insp", [name], 1]
                    budget.tick()
                    if still_fails(mk(cand, cur)):
                        ops = cand
                        break
        cur = mk(ops, cur)
        cur = _shrink_settings(cur, still_fails, budget)
        cur = _shrink_texts(cur, still_fails, budget, "ops")
        return cur

    def describe(self, trace):
        return _describe(trace)


# ---------------------------------------------------------------------------
# program clauses through the real assembler: one generated text under two configurations
#   pair "dc"    (C03): data cache off versus on, same pipeline mode
#   pair "ic"    (C11): instruction cache off versus on, same pipeline mode
#   pair "modes" (C02): single-cycle versus five-stage with hazard detection, same caches


def gen_pair(seed, pair="dc"):
    r = R.stream(seed, "config")
    dc = gen_cache(r, True, p_enable=1.0 if pair in ("dc", "modes-dc") else 0.4)
    ic = gen_cache(r, False, p_enable=1.0 if pair == "ic" else 0.25)
    if pair in ("dc", "modes-dc"):
        dc["enable"] = True
    if pair == "cycles":
        dc["enable"] = r.random() < 0.7
        ic["enable"] = r.random() < 0.5 or not dc["enable"]
        dc["pen"], ic["pen"] = r.choice([1, 2, 3, 5, 7]), r.choice([0, 1, 3, 4])
    if pair == "ic":
        ic["enable"] = True
    settings = {"isa": "riscv", "decoy": False, "hz": True, "dc": dc, "ic": ic,
                "mode": r.choice(["single_stage_pipeline", "five_stage_pipeline"])}
    r = R.stream(seed, "ops")
    text = gen_text(r, "riscv", p_bad=0.05)
    if r.random() < 0.004:
        text = T.full_memory_text(r)
    elif R.stream(seed, "long-text").random() < 0.008:
        text = T.long_text(R.stream(seed, "long-text-body"))
    return {"mode": "pair", "pair": pair, "settings": settings, "ops": [["load", text]], "cap": r.choice([300, 1500])}


class _CrossingSpy:
    """Does the run *without* the cache perform an access that crosses a word boundary? (Instance-level wrappers
    around the flat memory's access functions; such a program is outside the transparency clause and must be
    rejected when the cache is on.)"""

    def __init__(self, mem):
        self.crossed = False
        for name, width in (("read_byte", 1), ("read_halfword", 2), ("read_word", 4),
                            ("write_byte", 1), ("write_halfword", 2), ("write_word", 4)):
            orig = getattr(mem, name, None)
            if orig is None:
                continue

            def wrapped(address, *a, _orig=orig, _w=width, **kw):
                try:
                    if (int(address) & 3) + _w > 4:
                        self.crossed = True
                except Exception:  # noqa: BLE001
                    pass
                return _orig(address, *a, **kw)

            setattr(mem, name, wrapped)


_PAIR = {
    # pair: (property, name of side A, name of side B, what the violation kinds say)
    "dc": ("C03", "off", "on", "with-cache"),
    "ic": ("C11", "off", "on", "with-instruction-cache"),
    "modes": ("C02", "single", "five", "between-modes"),
    "modes-dc": ("C09", "single", "five", "between-modes"),
    "cycles": ("C07", "uncached", "cached", "with-caches"),
}


def run_pair(trace, prop):
    from architecture_simulator.gui import webgui
    from ..pipesim.exec import summary
    from .subject import Settings

    install_clock()
    CLOCK.reset()
    res = Result()
    hs = Hasher()
    pair = trace.get("pair", "dc")
    P, A, B, tag = _PAIR[pair]
    st = copy.deepcopy(trace["settings"])
    text = trace["ops"][0][1] if trace["ops"] else ""
    sa, sb = copy.deepcopy(st), copy.deepcopy(st)
    if pair == "dc":
        sa["dc"]["enable"] = False
    elif pair == "ic":
        sa["ic"]["enable"] = False
    elif pair == "cycles":
        sa["dc"]["enable"] = False
        sa["ic"]["enable"] = False
    else:  # "modes", "modes-dc"
        sa["mode"], sb["mode"] = "single_stage_pipeline", "five_stage_pipeline"
        low = text.lower()
        if any(t in low for t in ("csr", "fence", "ebreak")):
            res.discarded = "CSR / FENCE / EBREAK are outside the claim for five-stage mode"
            return res
    shown = {"dc": st["dc"], "ic": st["ic"], "mode": st["mode"] if not pair.startswith("modes") else "both"}
    sims = {}
    try:
        for name, s_ in ((A, sa), (B, sb)):
            S = Settings(s_)
            sims[name] = webgui.get_riscv_simulation(s_["mode"], True, S.cache_options("dc"), S.cache_options("ic"))
    except Exception as e:  # noqa: BLE001
        return _construction_failed(trace, prop, SutConstructionError(f"{type(e).__name__}: {e}"))
    spy = None
    if pair == "dc":
        try:
            spy = _CrossingSpy(sims[A].state.memory)
        except Exception:  # noqa: BLE001
            pass
    out = {}
    for name, sim in sims.items():
        try:
            sim.load_program(text)
            out[name] = ["loaded"]
        except Exception as e:  # noqa: BLE001
            out[name] = ["load-error", R.errname(e), getattr(e, "line_number", None)]
    hs.add("load", out[A], out[B])
    if out[A] != out[B] and pair not in ("modes-dc", "cycles"):
        res.violate(P, "load-differs-" + tag, expected=out[A], got=out[B], settings=shown)
    if out[A][0] != "loaded" or out[B][0] != "loaded" or res.violations:
        res.probes["text does not load (nothing to compare)"] += 1
        res.digest = hs.hexdigest()
        return res
    if pair == "cycles":
        # the cycle counter counts steps (and their miss penalties): before the first step it reads 0, whatever the text
        # made the assembler write into the data memory
        for name, sim in sims.items():
            try:
                c0 = sim.state.performance_metrics.cycles
            except Exception:  # noqa: BLE001
                c0 = 0
            if c0 != 0:
                res.violate(P, "cycles-charged-by-load", expected=0, got=c0, side=name, settings=shown)
                res.digest = hs.hexdigest()
                return res
    cap = trace.get("cap", 1500)
    steps = {}
    for name, sim in sims.items():
        k = 0
        err = None
        # side B gets a generous cap: termination is compared, not the number of calls (a five-stage run needs up
        # to three ticks per instruction plus the drain)
        lim = cap if name == A else 6 * cap + 20
        try:
            while not sim.is_done() and k < lim:
                sim.step()
                k += 1
            done = bool(sim.is_done())
        except Exception as e:  # noqa: BLE001
            err = [R.errname(e), getattr(e, "address", None)]
            done = None
        steps[name] = k
        out[name] = {"error": err, "done": done}
        res.sim["steps"] += k
    hs.add("run", out[A], out[B], steps)
    res.nontrivial = steps[A] >= 3
    res.sim["calls"] += 2
    a, b = out[A], out[B]
    res.states.add(hash((pair, st["mode"], st["dc"]["enable"], st["dc"]["kind"], st["dc"]["ways"], st["dc"]["bb"],
                         st["ic"]["enable"], st["ic"]["ways"], a["error"] is None)))
    if spy is not None and spy.crossed:
        res.probes["text performs a word-crossing access (cache on: must be rejected)"] += 1
        res.faults["F-access:word-crossing (program)"] += 1
        if b["error"] is None and a["error"] is None and a["done"]:
            res.violate(P, "crossing-access-not-rejected", expected="an error with the cache on", got=b, settings=shown)
        res.digest = hs.hexdigest()
        return res
    if a["done"] is False:
        res.probes["text does not terminate within the step cap (nothing to compare)"] += 1
        res.digest = hs.hexdigest()
        return res
    if pair == "cycles":
        # C07, penalty clause through the real assembler: the cycle counter of the run with caches is that of the run
        # without them plus the counted misses times the configured penalties - from the first load on (nothing is
        # charged while a program is loaded)
        def cyc(sim):
            st_ = sim.state
            d, im_ = st_.memory, st_.instruction_memory
            return (st_.performance_metrics.cycles, getattr(d, "accesses", 0) - getattr(d, "hits", 0),
                    getattr(im_, "accesses", 0) - getattr(im_, "hits", 0))

        try:
            ca, cb = cyc(sims[A]), cyc(sims[B])
        except Exception as e:  # noqa: BLE001
            res.violate(P, "counters-unreadable", got=R.errname(e), settings=shown)
            res.digest = hs.hexdigest()
            return res
        hs.add("cycles", ca, cb)
        if not (a["error"] or b["error"]) and a["done"] is True and b["done"] is True and steps[A] == steps[B]:
            want = ca[0] + (cb[1] * st["dc"]["pen"] if st["dc"]["enable"] else 0) + (cb[2] * st["ic"]["pen"] if st["ic"]["enable"] else 0)
            if cb[0] != want:
                res.violate(P, "cycle-total-with-caches", expected=want, got=cb[0], uncached_cycles=ca[0], data_misses=cb[1],
                            instruction_misses=cb[2], settings=shown,
                            note="cycles with caches = cycles without + counted misses x penalties")
            else:
                res.probes["assembled text: cycle total with caches = total without + misses x penalties"] += 1
                if cb[1] and st["dc"]["enable"]:
                    res.probes["assembled text with data-cache misses: penalties add up"] += 1
        else:
            res.probes["assembled text: run with an error / not done / different step counts (cycle identity not evaluated)"] += 1
        res.digest = hs.hexdigest()
        return res
    if pair == "modes-dc":
        # C09, program clause: the data-cache counters are identical in both modes
        def counters(sim):
            m = sim.state.memory
            return [m.hits, m.accesses, bool(m.last_was_hit)]

        try:
            ca, cb = counters(sims[A]), counters(sims[B])
        except Exception as e:  # noqa: BLE001
            res.violate(P, "counters-unreadable", got=R.errname(e), settings=shown)
            res.digest = hs.hexdigest()
            return res
        hs.add("counters", ca, cb)
        if a["error"] or b["error"] or b["done"] is not True:
            # a faulting access is outside the accounting claim (it may or may not have been counted before it was
            # rejected: one is tolerated); whether both modes fault alike is C02's business
            if a["error"] and b["error"] and a["error"][1] == b["error"][1]:
                if abs(ca[0] - cb[0]) > 1 or abs(ca[1] - cb[1]) > 1:
                    res.violate(P, "counters-differ-between-modes-at-fault", expected=ca, got=cb, settings=shown)
                res.probes["assembled text: both modes faulted at the same instruction (counters compared)"] += 1
        elif ca != cb:
            res.violate(P, "counters-differ-between-modes", expected=ca, got=cb, settings=shown)
        else:
            res.probes["assembled text: data-cache counters identical in both modes"] += 1
            if ca[1] >= 2:
                res.probes["assembled text with >= 2 counted accesses compared across modes"] += 1
        res.digest = hs.hexdigest()
        return res
    keys = ["regs", "output", "exit_code"]
    if pair != "dc":
        keys.append("mem")
    if (a["error"] is None) != (b["error"] is None):
        if b["done"] is False and a["error"] is not None:
            res.hang = f"side {A} faulted after {steps[A]} steps, side {B} neither faulted nor finished within {steps[B]} steps"
        else:
            res.violate(P, "fault-differs-" + tag, expected=a, got=b, settings=shown)
    elif a["error"] is not None:
        res.faults["F-instr (run-time fault in the text)"] += 1
        if pair == "modes":
            # C02: the same faulting instruction, with identical registers, memory and output at that point
            if a["error"][1] != b["error"][1]:
                res.violate(P, "fault-address", expected=a, got=b, settings=shown)
            keys = ["regs", "mem", "output"]
        elif None not in (a["error"][1], b["error"][1]) and a["error"][1] != b["error"][1]:
            res.violate(P, "fault-differs-" + tag, expected=a, got=b, settings=shown)
    elif b["done"] is not True:
        if pair == "dc":
            res.violate(P, "termination-differs-" + tag, expected=a, got=b, steps=steps, settings=shown)
        else:
            res.hang = f"side {A} finished after {steps[A]} steps, side {B} not done after {steps[B]} steps"
    elif pair == "modes":
        keys += ["instruction_count", "branch_count", "procedure_count"]
    if not res.violations and not res.hang:
        try:
            va, vb = summary(sims[A]), summary(sims[B])
        except Exception as e:  # noqa: BLE001
            va, vb = {"summary-raised": R.errname(e)}, {}
            keys = ["summary-raised"]
        hs.add("summary", [va.get(k) for k in keys])
        for k in keys:
            if va.get(k) != vb.get(k):
                x, y = va.get(k), vb.get(k)
                if k == "regs":
                    d = [(i, p_, q_) for i, (p_, q_) in enumerate(zip(x, y)) if p_ != q_][:4]
                    x, y = [(i, p_) for i, p_, _ in d], [(i, q_) for i, _, q_ in d]
                elif k == "mem":
                    d = sorted(set(x.items()) ^ set(y.items()))[:6]
                    x, y = [(k_, v_) for k_, v_ in d if x.get(k_) == v_], [(k_, v_) for k_, v_ in d if y.get(k_) == v_]
                res.violate(P, ("fault-state-differs-" if a["error"] else "result-differs-") + tag, what=k, expected=x, got=y,
                            settings=shown)
                break
        else:
            res.probes[f"assembled text: same result {tag.replace('-', ' ')}" + (" (run-time fault)" if a["error"] else "")] += 1
            if ".data" in text:
                res.probes[f"assembled text with an initialised data segment compared {tag.replace('-', ' ')}"] += 1
    res.digest = hs.hexdigest()
    return res


class TextPairs(Batch):
    engine = "lifesim"
    per_run_timeout_s = 60.0

    def __init__(self, name, pair, runs_quick, runs_thorough):
        self.name = name
        self.pair = pair
        self.runs_quick = runs_quick
        self.runs_thorough = runs_thorough

    def generate(self, seed):
        return gen_pair(seed, self.pair)

    def execute(self, trace, prop):
        return run_pair(trace, prop)

    def shrink(self, trace, prop, still_fails, budget: Budget):
        cur = _shrink_texts(trace, still_fails, budget, "ops")
        for which in ("dc", "ic"):
            for key, val in (("enable", False), ("ib", 0), ("bb", 0), ("ways", 1), ("pen", 0), ("strat", "lru")):
                if budget.spent():
                    break
                if key == "enable" and which == cur.get("pair"):
                    continue
                if cur["settings"][which].get(key) != val:
                    cand = copy.deepcopy(cur)
                    cand["settings"][which][key] = val
                    budget.tick()
                    if still_fails(cand):
                        cur = cand
        return cur

    def describe(self, trace):
        return {"pair": trace.get("pair"), "settings": trace["settings"], "text": trace["ops"][0][1][:600] if trace["ops"] else ""}


def CacheOnOffTexts(name, runs_quick, runs_thorough):
    return TextPairs(name, "dc", runs_quick, runs_thorough)


# ---------------------------------------------------------------------------
# shared shrinking / description helpers


def _shrink_settings(cur, still_fails, budget):
    s = cur["settings"]
    if s.get("decoy") and not budget.spent():
        cand = {**cur, "settings": {**s, "decoy": False}}
        budget.tick()
        if still_fails(cand):
            cur = cand
            s = cur["settings"]
    if s.get("isa") != "riscv":
        return cur
    for which in ("dc", "ic"):
        if budget.spent():
            break
        if s[which]["enable"]:
            cand = {**cur, "settings": {**s, which: {**s[which], "enable": False}}}
            budget.tick()
            if still_fails(cand):
                cur = cand
                s = cur["settings"]
                continue
        for key, small in (("pen", 0), ("ib", 0), ("bb", 0), ("ways", 1), ("strat", "lru")):
            if budget.spent() or s[which][key] == small:
                continue
            cand = {**cur, "settings": {**s, which: {**s[which], key: small}}}
            budget.tick()
            if still_fails(cand):
                cur = cand
                s = cur["settings"]
    if s["mode"] != "single_stage_pipeline" and not budget.spent():
        cand = {**cur, "settings": {**s, "mode": "single_stage_pipeline"}}
        budget.tick()
        if still_fails(cand):
            cur = cand
    return cur


def _shrink_texts(cur, still_fails, budget, key):
    """ddmin over the lines of every program text in the trace."""
    items = [list(x) if isinstance(x, list) else dict(x) for x in cur[key]]

    def get(i):
        it = items[i]
        if isinstance(it, list):
            return it[1] if it[0] == "load" else None
        return it["arg"] if it.get("act") in ("type", "upload") and isinstance(it.get("arg"), str) else None

    def put(lst, i, text):
        lst = [list(x) if isinstance(x, list) else dict(x) for x in lst]
        if isinstance(lst[i], list):
            lst[i][1] = text
        else:
            lst[i]["arg"] = text
        return lst

    for i in range(len(items)):
        if budget.spent():
            break
        text = get(i)
        if not text or "\n" not in text:
            continue
        lines = text.split("\n")
        kept = ddmin_list(lines, still_fails, budget, rebuild=lambda ls, i=i: {**cur, key: put(items, i, "\n".join(ls))})
        new = "\n".join(kept)
        cand = {**cur, key: put(items, i, new)}
        if new != text and still_fails(cand):
            items = cand[key]
            cur = cand
    if isinstance(cur.get("initial_text"), str) and "\n" in cur["initial_text"] and not budget.spent():
        lines = cur["initial_text"].split("\n")
        kept = ddmin_list(lines, still_fails, budget, rebuild=lambda ls: {**cur, "initial_text": "\n".join(ls)})
        cand = {**cur, "initial_text": "\n".join(kept)}
        if still_fails(cand):
            cur = cand
    return cur


def _describe(trace):
    def short(x):
        if isinstance(x, str) and len(x) > 300:
            return x[:300] + f"... ({len(x)} chars)"
        return x

    d = {k: v for k, v in trace.items() if k not in ("events", "ops")}
    if isinstance(d.get("initial_text"), str):
        d["initial_text"] = short(d["initial_text"])
    if trace.get("events") is not None:
        d["events"] = [{**e, "arg": short(e.get("arg"))} for e in trace["events"]]
    if trace.get("ops") is not None:
        d["ops"] = [[short(x) for x in o] for o in trace["ops"]]
    return d


@findings.predicate("load_key_error")
def _p_load_key_error(trace, violation):
    """D5: a load failing with KeyError (a mnemonic with a character that case-folds to an ASCII letter)."""
    return violation.get("kind") == "load-failed-with-untyped-error" and violation.get("got") == "KeyError"


@findings.predicate("load_value_error")
def _p_load_value_error(trace, violation):
    """D3: a load failing with ValueError (leading-zero decimal literal / digit limit)."""
    return violation.get("kind") == "load-failed-with-untyped-error" and violation.get("got") == "ValueError"
