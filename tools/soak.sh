#!/bin/sh
# thorough tier of the given checks (default: all) with another root seed; evidence and replays go to scratch directories
# usage: tools/soak.sh <seed> [budget_s] [checks...]
seed=${1:-31}
budget=${2:-1100}
shift 2 2>/dev/null
checks=${*:-C02 C03 C07 C08 C09 C10 C11 C12 C13 C15 C16 C18 C20}
cd "$(dirname "$0")/.."
for c in $checks; do
  VERIF_SEED=$seed VERIF_BUDGET_S=$budget VERIF_EVIDENCE_DIR=/tmp/soak_ev_$seed VERIF_REPLAY_DIR=/tmp/soak_rp_$seed \
    /venv/bin/python -m dst check $c --tier thorough 2>&1 | tail -4 | cut -c1-600
  echo "done($c)"
done
