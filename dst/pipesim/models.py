"""Reference models of the documented five-stage pipeline, independent of the
repository's Pipeline / Stage classes.

1. schedule(): closed timing recurrences over the dynamic instruction stream
   (DESIGN §4.5).  F = fetch tick, D = first decode tick, E = first execute tick,
   X = last execute tick, M = X+1, W = X+2 (retire tick).
2. run_delayed(): the interlock-free pipeline as a *delayed-visibility register
   model* (DESIGN §4.6): the repository's own sequential behavior() is executed,
   but every instruction is shown a register view that contains exactly the
   writes that have completed write-back by its last decode tick.
"""
from . import ir
from .exec import make_sim, exc_info, REF_CAP, Decoy


def schedule(recs, prog, hz=True):
    """recs: REF records (addr, idx, redirect, is_ecall, ...). Returns dict of lists."""
    F, D, E, X, HZ, DR = [], [], [], [], [], []
    dsts = []
    for i, rec in enumerate(recs):
        ins = prog[rec[1]]
        if i == 0:
            f = 1
        elif recs[i - 1][2]:
            f = X[i - 1] + 2
        else:
            f = D[i - 1]
        d1 = f + 1 if i == 0 else max(f + 1, E[i - 1])
        haz = ()
        if hz:
            s = ir.srcs(ins)
            hit = []
            for k in (i - 2, i - 1):
                if k >= 0 and dsts[k] is not None and dsts[k] in s and E[k] <= d1 <= X[k] + 1:
                    hit.append((i - k, dsts[k]))
            haz = tuple(hit)
        ready = d1 + 1 + (2 if haz else 0)
        e1 = ready if i == 0 else max(ready, X[i - 1] + 1)
        x = e1
        drain = False
        if rec[3]:  # ecall: held in execute while an older instruction is in MEM or WB
            for k in (i - 2, i - 1):
                if k >= 0 and (X[k] + 1 == e1 or X[k] + 2 == e1):
                    drain = True
            if drain:
                x = e1 + 2
        F.append(f)
        D.append(d1)
        E.append(e1)
        X.append(x)
        HZ.append(haz)
        DR.append(drain)
        dsts.append(ir.dst(ins))
    return {"F": F, "D": D, "E": E, "X": X, "W": [x + 2 for x in X], "haz": HZ, "drain": DR}


class _ViewRegs(list):
    """Register list presented to behavior(): reads come from a prepared view,
    writes are captured instead of applied."""

    def __init__(self, vals):
        super().__init__(vals)
        self.writes = []

    def __setitem__(self, idx, val):
        if 0 < idx < 32:
            self.writes.append((idx, val))


def run_delayed(trace, dc=None, ic=None, cap=None, prog=None):
    """Interlock-free pipeline reference. Returns dict(regs, sim, total_ticks, n, exc,
    capped, stale, sched) where `stale` says whether any instruction observed a register
    value different from the sequential one."""
    import fixedint

    prog_ir = trace["prog"] if prog is None else prog
    if cap is None:
        cap = trace["cfg"].get("cap", REF_CAP)
    sim = make_sim(trace, "single_stage_pipeline", True, dc, ic, prog)
    decoy = Decoy(trace, False, dc, ic, prog)
    st = sim.state
    pm = st.performance_metrics
    committed = list(st.register_file.registers)
    pending = []  # (W, reg, value) in program order
    D, E, X, redir = [], [], [], []
    drains = []
    n = len(prog_ir)
    i = 0
    exc = None
    stale = False
    while i < cap:
        try:
            if not st.instruction_at_pc() or st.exit_code is not None:
                break
        except Exception as e:  # noqa: BLE001
            exc = exc_info(e)
            break
        pc = st.program_counter
        idx = pc // 4
        ins = prog_ir[idx] if pc % 4 == 0 and 0 <= idx < n else None
        is_ecall = bool(ins) and ins[0] == "ECALL"
        if i == 0:
            f = 1
        elif redir[i - 1]:
            f = X[i - 1] + 2
        else:
            f = D[i - 1]
        d1 = f + 1 if i == 0 else max(f + 1, E[i - 1])
        e1 = d1 + 1 if i == 0 else max(d1 + 1, X[i - 1] + 1)
        x = e1
        drain = False
        if is_ecall:
            for k in (i - 2, i - 1):
                if k >= 0 and (X[k] + 1 == e1 or X[k] + 2 == e1):
                    drain = True
            if drain:
                x = e1 + 2
        read_tick = x if is_ecall else e1 - 1  # ecall reads a7/a0 in EX after the drain
        view = list(committed)
        latest = list(committed)
        for (w, r, v) in pending:
            latest[r] = v
            if w <= read_tick:
                view[r] = v
        if ins is not None and not stale:
            used = {17, 10} if is_ecall else ir.srcs(ins)
            if any(int(view[r]) != int(latest[r]) for r in used if r):
                stale = True
        vr = _ViewRegs(view)
        st.register_file.registers = vr
        bc0 = pm.branch_count
        decoy.step()
        try:
            sim.step()
        except Exception as e:  # noqa: BLE001
            exc = exc_info(e)
            exc["at_index"] = idx
            break
        for (r, v) in vr.writes:
            pending.append((x + 2, r, fixedint.UInt32(int(v))))
        cls = ir.klass(ins) if ins else "?"
        redir.append(cls in ("jal", "jalr") or pm.branch_count != bc0)
        D.append(d1)
        E.append(e1)
        X.append(x)
        drains.append(drain)
        i += 1
    final = list(committed)
    for (_w, r, v) in pending:
        final[r] = v
    capped = i >= cap and exc is None
    return {
        "regs": [int(v) for v in final],
        "sim": sim,
        "total_ticks": (X[-1] + 2) if X else 0,
        "n": i,
        "exc": exc,
        "capped": capped,
        "stale": stale,
        "drains": sum(drains),
        "X": X,
    }
