"""Differential check for property C10 (replacement policies), change 3.

Exercises only the public results the property talks about:
  * LRU / PLRU: get_next_to_replace(), get_repr() after every access of random
    access histories, for many associativities (fixed seeds);
  * "same block twice in a row" leaves victim and reported state unchanged;
  * the same policies embedded in the write-through / write-back cache systems
    (hit/miss sequence, per-set replacement status and resident tags).
Prints digests and small summaries; output must be identical with and without
the patch.  Emphasis of this demo: both policies plus the generic Cache/CacheSet
read/write paths (change 3 restructures access() into a template method, walks
the PLRU tree top-down and merges the hit/miss branches of CacheSet.write).
"""
import hashlib
import random

from fixedint import UInt32

from architecture_simulator.uarch.memory.cache import Cache
from architecture_simulator.uarch.memory.decoded_address import DecodedAddress
from architecture_simulator.uarch.memory.memory import Memory, AddressingType
from architecture_simulator.uarch.memory.replacement_strategies import LRU, PLRU
from architecture_simulator.uarch.memory.write_back_memory_system import (
    WriteBackMemorySystem,
)
from architecture_simulator.uarch.memory.write_through_memory_system import (
    WriteThroughMemorySystem,
)
from architecture_simulator.uarch.riscv.riscv_performance_metrics import (
    RiscvPerformanceMetrics,
)

SEED = 303


def norm(x):
    """Public state as plain ints (True == 1 in Python, so this loses nothing)."""
    return [int(v) for v in x]


class Digest:
    def __init__(self):
        self.h = hashlib.sha256()
        self.n = 0

    def add(self, *items):
        self.h.update(repr(items).encode())
        self.n += 1

    def done(self):
        return f"{self.h.hexdigest()[:32]} ({self.n} records)"


def policy_walks(cls, assocs, walks, steps, seed):
    rng = random.Random(seed)
    d = Digest()
    victims = 0
    for a in assocs:
        for w in range(walks):
            p = cls(a)
            d.add("init", a, p.get_next_to_replace(), norm(p.get_repr()))
            for s in range(steps):
                r = rng.random()
                if r < 0.25:
                    idx = p.get_next_to_replace()  # fill the victim (miss path)
                elif r < 0.35 and s:
                    idx = last  # repeat last access
                else:
                    idx = rng.randrange(a)
                before = (p.get_next_to_replace(), norm(p.get_repr()))
                p.access(idx)
                after = (p.get_next_to_replace(), norm(p.get_repr()))
                p.access(idx)  # same block twice in a row
                again = (p.get_next_to_replace(), norm(p.get_repr()))
                assert after == again, (cls.__name__, a, idx, after, again)
                # getters must not disturb anything
                assert (p.get_next_to_replace(), norm(p.get_repr())) == again
                d.add(a, w, s, idx, before, after)
                victims += after[0]
                last = idx
    return d.done(), victims


def lru_reference_agreement(assocs, steps, seed):
    """LRU against a timestamp model written here (never-accessed blocks first,
    in index order; victim = oldest; ages = rank in that order)."""
    rng = random.Random(seed)
    checked = 0
    for a in assocs:
        p = LRU(a)
        stamp = [(-1, i) for i in range(a)]  # (time of last access, index)
        for t in range(steps):
            idx = rng.randrange(a)
            p.access(idx)
            stamp[idx] = (t, idx)
            order = [i for _, i in sorted(stamp)]
            ages = [order.index(i) for i in range(a)]
            assert p.get_next_to_replace() == order[0]
            assert norm(p.get_repr()) == ages
            checked += 1
    return checked


def plru_reference_agreement(assocs, steps, seed):
    rng = random.Random(seed)
    checked = 0
    for a in assocs:
        p = PLRU(a)
        bits = [0] * (a - 1)
        depth = a.bit_length() - 1
        for _ in range(steps):
            idx = rng.randrange(a)
            p.access(idx)
            node = 0
            for lvl in reversed(range(depth)):
                right = (idx >> lvl) & 1
                bits[node] = 0 if right else 1  # point away from the accessed side
                node = 2 * node + 1 + right
            node = 0
            for _ in range(depth):
                node = 2 * node + 1 + bits[node]
            assert p.get_next_to_replace() == node - (a - 1)
            assert norm(p.get_repr()) == bits == norm(p.tree_array)
            checked += 1
    return checked


def cache_walk(system_cls, strategy, index_bits, block_bits, assoc, steps, seed):
    rng = random.Random(seed)
    memory = Memory(AddressingType.BYTE, 32, True)
    ms = system_cls(
        memory=memory,
        num_index_bits=index_bits,
        num_block_bits=block_bits,
        associativity=assoc,
        performance_metrics=RiscvPerformanceMetrics(),
        replacement_strategy=strategy,
    )
    d = Digest()
    n_words = (1 << (index_bits + block_bits)) * (assoc + 3)
    for s in range(steps):
        addr = 4 * rng.randrange(n_words)
        if rng.random() < 0.4:
            ms.write_word(addr, UInt32(rng.getrandbits(32)))
            op = "w"
        else:
            op = "r" + str(int(ms.read_word(addr)))
        sets = ms.cache_repr().sets
        d.add(
            s,
            op,
            addr,
            ms.last_was_hit,
            [norm(z.replacement_status) for z in sets],
            [[b.tag for b in z.blocks] for z in sets],
            [
                z.replacement_strategy.get_next_to_replace()
                for z in ms.cache.sets
            ],
        )
    stats = ms.get_cache_stats()
    return d.done(), stats["hits"], stats["accesses"]


def raw_cache_walk(strategy_cls, index_bits, block_bits, assoc, steps, seed):
    """Drives the generic Cache directly (read_block / write_block / contains) and
    records hit flags, evicted dirty blocks, victims and replacement status."""
    rng = random.Random(seed)
    cache = Cache[int](index_bits, block_bits, assoc, strategy_cls)
    d = Digest()
    n_blocks = (1 << index_bits) * (assoc + 2)
    evictions = 0
    for s in range(steps):
        block_no = rng.randrange(n_blocks)
        da = DecodedAddress(index_bits, block_bits, block_no << (block_bits + 2))
        zet = cache.sets[da.cache_set_index]
        victim_before = zet.replacement_strategy.get_next_to_replace()
        r = rng.random()
        if r < 0.5:
            values = [rng.randrange(1000) for _ in range(1 << block_bits)]
            hit, replaced = cache.write_block(da, values)
            out = ("w", hit,
                   None if replaced is None else (replaced[0].full_address, list(replaced[1])))
            evictions += replaced is not None
        elif r < 0.9:
            got = cache.read_block(da)
            out = ("r", None if got is None else list(got))
        else:
            out = ("c", cache.contains(da))
        rep = cache.get_repr()
        d.add(s, block_no, victim_before, out,
              [norm(z.replacement_status) for z in rep.sets],
              [[(b.valid_bit, b.dirty_bit, b.tag) for b in z.blocks] for z in rep.sets],
              [z.replacement_strategy.get_next_to_replace() for z in cache.sets])
    return d.done(), evictions


def main():
    print("LRU walks  :", *policy_walks(LRU, range(1, 10), 6, 60, SEED))
    print("LRU walks16:", *policy_walks(LRU, [12, 16, 17], 3, 120, SEED + 1))
    print("PLRU walks :", *policy_walks(PLRU, [1, 2, 4, 8, 16], 6, 60, SEED + 2))
    print("LRU  vs in-demo model, steps checked:",
          lru_reference_agreement([1, 2, 3, 4, 5, 7, 8, 16], 150, SEED + 3))
    print("PLRU vs in-demo model, steps checked:",
          plru_reference_agreement([1, 2, 4, 8, 16, 32], 150, SEED + 4))
    k = 0
    for strategy_cls, assocs in ((LRU, (1, 2, 3, 4, 5, 8)), (PLRU, (1, 2, 4, 8, 16))):
        for assoc in assocs:
            for index_bits, block_bits in ((0, 0), (1, 2), (2, 1)):
                k += 1
                print(f"raw cache {strategy_cls.__name__:4} a={assoc} i={index_bits} "
                      f"b={block_bits}:",
                      *raw_cache_walk(strategy_cls, index_bits, block_bits, assoc,
                                      120, SEED * 77 + k))
    for system_cls in (WriteThroughMemorySystem, WriteBackMemorySystem):
        for strategy, assocs in (("lru", (1, 2, 3, 4, 6)), ("plru", (1, 2, 4, 8))):
            for assoc in assocs:
                for index_bits, block_bits in ((0, 0), (1, 1), (2, 0)):
                    k += 1
                    res = cache_walk(system_cls, strategy, index_bits, block_bits,
                                     assoc, 80, SEED * 1000 + k)
                    print(f"cache {system_cls.__name__[:9]} {strategy:4} a={assoc} "
                          f"i={index_bits} b={block_bits}:", *res)


if __name__ == "__main__":
    main()
