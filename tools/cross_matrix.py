#!/venv/bin/python
"""Cross matrix: every check against every seeded change (also those aimed at *other* properties).

An alarm of check Q on a change seeded for property P != Q is not automatically a false alarm - many changes
break several properties - but every such cell has to be explained.  Output: /verif/seeded/cross_matrix.json
and a text table.  usage: cross_matrix.py [--own] [--scale 0.1] [--only C02-1,C03-2] [--checks C02,C07]
"""
import json
import os
import shutil
import subprocess
import sys
import time

PY = "/venv/bin/python"
BASE = os.path.dirname(os.path.dirname(os.path.abspath(__file__)))  # the /verif tree this tool belongs to (a vp-run snapshot uses its own code)
PROPS = ["C02", "C03", "C07", "C08", "C09", "C10", "C11", "C12", "C13", "C15", "C16", "C18", "C20"]


def sh(cmd, **kw):
    return subprocess.run(cmd, capture_output=True, text=True, **kw)


def main():
    arg = lambda n, d=None: sys.argv[sys.argv.index(n) + 1] if n in sys.argv else d  # noqa: E731
    scale = arg("--scale", "0.1")
    only = arg("--only")
    checks = (arg("--checks") or ",".join(PROPS)).split(",")
    sub = arg("--dir", "seeded")  # "seeded" (property-breaking changes) or "preserving" (behaviour-preserving changes)
    out_path = arg("--out", os.path.join(BASE, sub, "cross_matrix.json"))
    names = sorted(d for d in os.listdir(os.path.join(BASE, sub)) if os.path.isdir(os.path.join(BASE, sub, d)))
    if only:
        names = [n for n in names if n in only.split(",")]
    matrix = {}
    if os.path.exists(out_path):
        matrix = json.load(open(out_path))
    own = "--own" in sys.argv  # only the check of the property the change was made against
    jobs = int(arg("--jobs", "4"))
    workers = arg("--workers", str(max(2, 16 // jobs)))
    import threading
    from concurrent.futures import ThreadPoolExecutor

    lock = threading.Lock()

    def one(name):
        if name in matrix and all(c in matrix[name] for c in ([name.split("-")[0]] if own else checks)):
            return
        wt = f"/tmp/xm_{sub}_{name}"
        sh(["git", "-C", "/repo", "worktree", "remove", "--force", wt])
        shutil.rmtree(wt, ignore_errors=True)
        with lock:
            sh(["git", "-C", "/repo", "worktree", "add", "-q", "--detach", wt, "HEAD"])
        try:
            r = sh(["git", "-C", wt, "apply", os.path.join(BASE, sub, name, "patch.diff")])
            if r.returncode != 0:
                print(name, "patch does not apply", r.stderr[:200], flush=True)
                return
            row = {}
            for c in ([name.split("-")[0]] if own else checks):
                env = dict(os.environ, VERIF_REPO=wt, VERIF_SCALE=scale, VERIF_NO_RESAMPLE="1", VERIF_WORKERS=workers,
                           VERIF_EVIDENCE_DIR=wt + "_ev", VERIF_REPLAY_DIR=wt + "_rp")
                t0 = time.monotonic()
                p = sh([PY, "-m", "dst", "check", c, "--tier", "quick"], cwd=BASE, env=env, timeout=7200)
                kinds = sorted({ln.strip().split(":")[0] for ln in p.stdout.splitlines() if ln.startswith("  ") and ": {" in ln})
                row[c] = {"rc": p.returncode, "kinds": kinds, "s": round(time.monotonic() - t0, 1)}
                if p.returncode == 2:
                    row[c]["tail"] = p.stdout.splitlines()[-6:]
                shutil.rmtree(wt + "_ev", ignore_errors=True)
                shutil.rmtree(wt + "_rp", ignore_errors=True)
            with lock:
                matrix[name] = row
                print(name, " ".join(f"{c}:{'X' if row[c]['rc'] == 1 else '.' if row[c]['rc'] == 0 else 'E'}" for c in row), flush=True)
                json.dump(matrix, open(out_path, "w"), indent=1, sort_keys=True)
        finally:
            with lock:
                sh(["git", "-C", "/repo", "worktree", "remove", "--force", wt])
            shutil.rmtree(wt, ignore_errors=True)

    with ThreadPoolExecutor(max_workers=jobs) as ex:
        list(ex.map(one, names))


if __name__ == "__main__":
    main()
