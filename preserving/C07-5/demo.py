"""Differential check for C07 (five-stage retire times / cycle count).

Self-contained.  Generates a few hundred random RV32IM programs (fixed seeds)
with all hazard distances, nested stalls and flushes, loops, calls, memory
traffic and ecalls at any position, runs them in five-stage mode with hazard
detection under random instruction/data cache configurations and miss
penalties, and prints digests of everything the property talks about:

  * the cycle counter after every single step (so: the advance per step),
  * the cycle in which every instruction retires (non-empty instruction in the
    write-back pipeline register), and which instruction sits in which stage,
  * program counter, register file, output, exit code, instruction count,
  * cache statistics (hits / accesses / last hit) and the final cache views.

Run it on the unchanged and on the changed code: the output must be identical.
"""
import hashlib
import random
import sys

import fixedint

from architecture_simulator.simulation.riscv_simulation import RiscvSimulation
from architecture_simulator.uarch.memory.cache import CacheOptions
from architecture_simulator.isa.riscv.instruction_types import EmptyInstruction

FOCUS = "icache"  # only selects seeds / the extra section at the bottom
SEED_BASE = {"metrics": 1000, "icache": 2000, "stages": 3000}[FOCUS]
N_CASES = 360
MAX_STEPS = 450

POOL = [0, 1, 2, 3, 4, 5, 6, 7]  # small pool -> many hazards; x0 included
R3 = ["add", "sub", "and", "or", "xor", "sll", "srl", "sra", "slt", "sltu", "mul", "mulh", "div", "rem", "divu", "remu"]
I3 = ["addi", "andi", "ori", "xori", "slti", "sltiu"]
SH = ["slli", "srli", "srai"]
BR = ["beq", "bne", "blt", "bge", "bltu", "bgeu"]
LD = [("lw", 4), ("lh", 2), ("lhu", 2), ("lb", 1), ("lbu", 1)]
ST = [("sw", 4), ("sh", 2), ("sb", 1)]


class Gen:
    def __init__(self, rng, profile):
        self.r = rng
        self.p = profile
        self.lines = []
        self.nlabel = 0
        self.funcs = []

    def label(self):
        self.nlabel += 1
        return f"L{self.nlabel}"

    def reg(self, dest=False):
        r = self.r
        if dest and r.random() < 0.1:
            return 0
        return r.choice(POOL[1:] if dest else POOL)

    def alu(self):
        r = self.r
        k = r.random()
        if k < 0.45:
            self.lines.append(f"{r.choice(R3)} x{self.reg(True)}, x{self.reg()}, x{self.reg()}")
        elif k < 0.8:
            self.lines.append(f"{r.choice(I3)} x{self.reg(True)}, x{self.reg()}, {r.randint(-64, 64)}")
        elif k < 0.9:
            self.lines.append(f"{r.choice(SH)} x{self.reg(True)}, x{self.reg()}, {r.randint(0, 31)}")
        elif k < 0.95:
            self.lines.append(f"lui x{self.reg(True)}, {r.randint(0, 1000)}")
        else:
            self.lines.append(f"auipc x{self.reg(True)}, {r.randint(0, 3)}")

    def independent(self):
        # writes a register nobody in the pool reads, reads x0 only
        self.lines.append(f"addi x{self.r.randint(20, 27)}, x0, {self.r.randint(-5, 5)}")

    def mem(self):
        r = self.r
        if r.random() < 0.5:
            op, size = r.choice(LD)
            off = r.randrange(0, self.p["span"], size)
            self.lines.append(f"{op} x{self.reg(True)}, {off}(x8)")
        else:
            op, size = r.choice(ST)
            off = r.randrange(0, self.p["span"], size)
            self.lines.append(f"{op} x{self.reg()}, {off}(x8)")

    def ecall_print(self):
        r = self.r
        code = r.choice([1, 11, 34, 35, 36, 4])
        if code == 4:  # print string: reads the data memory without touching the statistics
            seq = [f"addi x17, x0, 4", f"addi x10, x8, {r.randrange(0, self.p['span'])}"]
        else:
            seq = [f"addi x17, x0, {code}", f"addi x10, x{self.reg()}, {r.randint(0, 90)}"]
        r.shuffle(seq)
        self.lines.extend(seq)
        for _ in range(r.choice([0, 0, 1, 2, 3])):
            self.simple()
        self.lines.append("ecall")

    def ecall_exit(self):
        r = self.r
        self.lines.append(f"addi x17, x0, {r.choice([10, 93])}")
        for _ in range(r.choice([0, 0, 1, 2, 3])):
            self.simple()
        self.lines.append("ecall")

    def simple(self):
        k = self.r.random()
        if k < self.p["mem"]:
            self.mem()
        elif k < self.p["mem"] + self.p["indep"]:
            self.independent()
        else:
            self.alu()

    def forward_branch(self, depth):
        r = self.r
        lab = self.label()
        if r.random() < 0.3:
            self.lines.append(f"jal x{r.choice([0, 6])}, {lab}")
        else:
            self.lines.append(f"{r.choice(BR)} x{self.reg()}, x{self.reg()}, {lab}")
        for _ in range(r.randint(0, 4)):
            self.item(depth + 1)
        self.lines.append(f"{lab}:")

    def loop(self, depth):
        r = self.r
        cnt = 9 if depth == 0 else 18
        lab = self.label()
        self.lines.append(f"addi x{cnt}, x0, {r.randint(1, 3)}")
        self.lines.append(f"{lab}:")
        for _ in range(r.randint(1, 5)):
            self.item(depth + 1)
        self.lines.append(f"addi x{cnt}, x{cnt}, -1")
        for _ in range(r.choice([0, 0, 1, 2])):
            self.independent()
        self.lines.append(f"bne x{cnt}, x0, {lab}")

    def call(self):
        name = f"F{len(self.funcs) + 1}"
        self.funcs.append(name)
        self.lines.append(f"jal x1, {name}")

    def item(self, depth=0):
        r = self.r
        k = r.random()
        p = self.p
        if k < p["branch"] and depth < 3:
            self.forward_branch(depth)
        elif k < p["branch"] + p["loop"] and depth < 2:
            self.loop(depth)
        elif k < p["branch"] + p["loop"] + p["call"] and depth == 0:
            self.call()
        elif k < p["branch"] + p["loop"] + p["call"] + p["ecall"]:
            if r.random() < p["exit"]:
                self.ecall_exit()
            else:
                self.ecall_print()
        else:
            self.simple()

    def program(self):
        r = self.r
        self.lines.append("lui x8, 4")  # data base 0x4000, never overwritten
        for _ in range(r.randint(2, self.p["len"])):
            self.item(0)
        end = r.random()
        if end < 0.35:
            self.ecall_exit()
            for _ in range(r.randint(0, 4)):
                self.simple()  # must be flushed / never retire
        if self.funcs:
            self.lines.append("jal x0, END")
            for f in self.funcs:
                self.lines.append(f"{f}:")
                for _ in range(r.randint(0, 3)):
                    self.simple()
                self.lines.append("jalr x0, x1, 0")
            self.lines.append("END:")
        return "\n".join(self.lines)


def profile(rng):
    kind = rng.choice(["mixed", "mixed", "hazard", "control", "ecall", "memory", "straight"])
    p = dict(mem=0.2, indep=0.15, branch=0.12, loop=0.08, call=0.05, ecall=0.08, exit=0.15, len=22, span=256)
    if kind == "hazard":
        p.update(mem=0.1, indep=0.05, branch=0.05, loop=0.03, call=0.0, ecall=0.03)
    elif kind == "control":
        p.update(branch=0.3, loop=0.15, call=0.1, ecall=0.05)
    elif kind == "ecall":
        p.update(ecall=0.3, exit=0.2, branch=0.1)
    elif kind == "memory":
        p.update(mem=0.6, span=2048, ecall=0.03)
    elif kind == "straight":
        p.update(mem=0.0, indep=1.0, branch=0.0, loop=0.0, call=0.0, ecall=0.0, len=40)
    p["kind"] = kind
    return p


def cache_options(rng, data, force=None):
    enable = rng.random() < 0.7 if force is None else force
    return CacheOptions(
        enable=enable,
        num_index_bits=rng.randint(0, 3),
        num_block_bits=rng.randint(0, 3),
        associativity=rng.choice([1, 2, 4]),
        cache_type=rng.choice(["wb", "wt"]) if data else "wb",
        replacement_strategy=rng.choice(["lru", "plru"]),
        miss_penalty=rng.choice([0, 1, 2, 3, 5, 7, 10, 20]),
    )


def describe(opts):
    if not opts.enable:
        return "off"
    return f"{opts.cache_type}/{opts.replacement_strategy}/i{opts.num_index_bits}b{opts.num_block_bits}a{opts.associativity}p{opts.miss_penalty}"


def cache_view(mem):
    rep = mem.cache_repr()
    if rep is None:
        return None
    return [
        (s.index, str(s.replacement_status), [(b.valid_bit, b.dirty_bit, b.tag, b.address_value_list) for b in s.blocks])
        for s in rep.sets
    ]


def stats(mem):
    """hits / accesses / last hit of a cache (None without a cache)."""
    d = mem.get_cache_stats()
    return None if d is None else (d["hits"], d["accesses"], d["last_hit"])


def snapshot(sim):
    st = sim.state
    pm = st.performance_metrics
    regs = st.pipeline.pipeline_registers
    return (
        pm.cycles,
        pm.instruction_count,
        pm.branch_count,
        pm.procedure_count,
        pm.stalls,
        pm.flushes,
        st.program_counter,
        st.exit_code,
        st.output,
        tuple(
            (None if isinstance(pr.instruction, EmptyInstruction) else (pr.address_of_instruction, repr(pr.instruction)))
            for pr in regs
        ),
        tuple(int(x) for x in st.register_file.registers),
        stats(st.instruction_memory),
        stats(st.memory),
    )


def run_case(seed, force_icache=None):
    rng = random.Random(seed)
    prof = profile(rng)
    text = Gen(rng, prof).program()
    ic = cache_options(rng, data=False, force=force_icache)
    dc = cache_options(rng, data=True)
    sim = RiscvSimulation(mode="five_stage_pipeline", detect_data_hazards=True, data_cache=dc, instruction_cache=ic)
    sim.load_program(text)
    for i in range(1, 8):
        sim.state.register_file.registers[i] = fixedint.UInt32(rng.choice([0, 1, 2, 3, 0xFFFFFFFF, rng.getrandbits(32)]))
    h = hashlib.sha256()
    h.update(text.encode())
    retire = []  # (cycle counter after the step, address) of every retirement
    deltas = {}
    steps = 0
    error = None
    while steps < MAX_STEPS and not sim.is_done():
        before = sim.state.performance_metrics.cycles
        try:
            sim.step()
        except Exception as e:  # a faulting step ends the case; its type is part of the trace
            error = type(e).__name__
        steps += 1
        snap = snapshot(sim)
        h.update(repr(snap).encode())
        d = snap[0] - before
        deltas[d] = deltas.get(d, 0) + 1
        wb = sim.state.pipeline.pipeline_registers[-1]
        if error is None and not isinstance(wb.instruction, EmptyInstruction):
            retire.append((snap[0], wb.address_of_instruction))
        if error is not None:
            break
    h.update(repr(retire).encode())
    h.update(repr(cache_view(sim.state.memory)).encode())
    h.update(repr(cache_view(sim.state.instruction_memory)).encode())
    h.update(repr(sorted(sim.state.memory.wordwise_repr().items())).encode())
    pm = sim.state.performance_metrics
    return dict(
        kind=prof["kind"],
        ic=describe(ic),
        dc=describe(dc),
        n=len(text.splitlines()),
        steps=steps,
        cycles=pm.cycles,
        retired=len(retire),
        icount=pm.instruction_count,
        exit=sim.state.exit_code,
        error=error,
        done=sim.is_done(),
        digest=h.hexdigest(),
        deltas=deltas,
        last_retire=retire[-1] if retire else None,
    )


def straight_line_check():
    """n mutually independent instructions take exactly n + 4 cycles."""
    out = []
    for n in [1, 2, 3, 5, 8, 13, 21, 34, 55]:
        text = "\n".join(f"addi x{1 + (i % 31)}, x0, {i}" for i in range(n))
        sim = RiscvSimulation(mode="five_stage_pipeline", detect_data_hazards=True)
        sim.load_program(text)
        sim.run()
        c = sim.state.performance_metrics.cycles
        assert c == n + 4, (n, c)
        out.append((n, c))
    return out


def main(extra=None):
    total = hashlib.sha256()
    agg = dict(cases=0, steps=0, cycles=0, retired=0, errors=0, exits=0, unfinished=0)
    all_deltas = {}
    for k in range(N_CASES):
        res = run_case(SEED_BASE + k, force_icache=True if FOCUS == "icache" and k % 4 else None)
        total.update(res["digest"].encode())
        agg["cases"] += 1
        agg["steps"] += res["steps"]
        agg["cycles"] += res["cycles"]
        agg["retired"] += res["retired"]
        agg["errors"] += res["error"] is not None
        agg["exits"] += res["exit"] is not None
        agg["unfinished"] += not res["done"] and res["error"] is None
        for d, c in res["deltas"].items():
            all_deltas[d] = all_deltas.get(d, 0) + c
        if k % 12 == 0:
            print(
                f"case {SEED_BASE + k} {res['kind']:8s} ic={res['ic']:22s} dc={res['dc']:22s} lines={res['n']:3d} "
                f"steps={res['steps']:3d} cycles={res['cycles']:5d} retired={res['retired']:3d} exit={res['exit']} "
                f"err={res['error']} last_retire={res['last_retire']} {res['digest'][:16]}"
            )
    print("straight-line n -> cycles:", straight_line_check())
    print("per-step cycle advance histogram:", sorted(all_deltas.items()))
    print("summary:", agg)
    if extra is not None:
        for line in extra():
            total.update(line.encode())
            print(line)
    print("TOTAL DIGEST", total.hexdigest())


# --------------------------------------------------------------------------
# extra section for this change: the instruction cache used directly and in
# whole simulations, with the complete cache view (blocks, tags, replacement
# status) hashed after EVERY access / step, program reloads (reset) and
# instructions rewritten behind the cache's back.
# --------------------------------------------------------------------------
def extra_icache():
    from architecture_simulator.uarch.memory.instruction_memory_cache_system import InstructionMemoryCacheSystem
    from architecture_simulator.uarch.memory.instruction_memory import InstructionMemory
    from architecture_simulator.uarch.riscv.riscv_performance_metrics import RiscvPerformanceMetrics
    from architecture_simulator.isa.riscv.rv32i_instructions import ADDI

    lines = []
    rng = random.Random(4242)
    for trial in range(40):
        pm = RiscvPerformanceMetrics()
        pen = rng.choice([0, 1, 3, 8])
        ib, bb, assoc = rng.randint(0, 2), rng.randint(0, 3), rng.choice([1, 2, 4])
        strat = rng.choice(["lru", "plru"])
        ic = InstructionMemoryCacheSystem(InstructionMemory(), ib, bb, assoc, pm, pen, strat)
        n = rng.randint(8, 120)
        ic.write_instructions([ADDI(rd=1, rs1=0, imm=i) for i in range(n)])
        h = hashlib.sha256()
        pc = 0
        for k in range(400):
            m = rng.random()
            if m < 0.6:
                pc = pc + 4  # sequential fetch
            elif m < 0.75:
                pass  # same address again (as after a flush to the same pc)
            elif m < 0.9:
                pc = 4 * rng.randrange(n)  # jump
            else:
                pc = (pc + 4 * (2 ** (bb + ib)) * rng.randint(1, 3))  # same set, other tag
            if pc >= 4 * n or pc < 0:
                pc = 4 * rng.randrange(n)
            if k % 97 == 50:
                ic.write_instruction(pc, ADDI(rd=2, rs1=0, imm=1000 + k))  # lower memory only, cache may be stale
            if k == 300 and trial % 3 == 0:
                ic.reset()
                ic.write_instructions([ADDI(rd=3, rs1=0, imm=i) for i in range(n)])
            instr = ic.read_instruction(pc)
            h.update(repr((pc, repr(instr), ic.hits, ic.accesses, ic.last_was_hit, pm.cycles, stats(ic), cache_view(ic))).encode())
        lines.append(f"direct icache t{trial:02d} {strat}/i{ib}b{bb}a{assoc}p{pen} n={n} hits={ic.hits} accesses={ic.accesses} cycles={pm.cycles} {h.hexdigest()[:16]}")
    # whole simulations, instruction cache view hashed after every step, program loaded twice
    for k in range(40):
        seed = 9000 + k
        r2 = random.Random(seed)
        prof = profile(r2)
        text = Gen(r2, prof).program()
        ico = cache_options(r2, data=False, force=True)
        sim = RiscvSimulation(mode="five_stage_pipeline", detect_data_hazards=True, instruction_cache=ico, data_cache=cache_options(r2, data=True))
        h = hashlib.sha256()
        totals = []
        for rnd in range(2):
            if rnd == 1:
                sim = RiscvSimulation(state=None, mode="five_stage_pipeline", detect_data_hazards=True, instruction_cache=ico)
                sim.load_program("addi x1, x0, 1\n" * 9)
                for _ in range(6):
                    sim.step()
                sim.load_program(text)  # reset of a warm cache in the middle of a run
                sim.state.program_counter = 0
            else:
                sim.load_program(text)
            steps = 0
            try:
                while not sim.is_done() and steps < 300:
                    sim.step()
                    steps += 1
                    h.update(repr((snapshot(sim), cache_view(sim.state.instruction_memory))).encode())
            except Exception as e:
                h.update(type(e).__name__.encode())
            totals.append((steps, sim.state.performance_metrics.cycles, stats(sim.state.instruction_memory)))
        lines.append(f"sim icache {seed} {describe(ico)} {totals} {h.hexdigest()[:16]}")
    return lines


if __name__ == "__main__":
    main(extra_icache)
    sys.exit(0)
