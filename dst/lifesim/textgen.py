"""Seeded generators of source texts for lifesim: RISC-V and TOY programs from a
small grammar (labels, pseudo-instructions, data segments, ecalls, terminating
loops, faulting programs, empty / comment-only texts) and the *edits* a user
types (character / token / line level), which is where malformed texts come
from in deployment: the auto-parse timer fires on whatever half-typed text
exists 500 ms after the last keystroke.
"""

RV_FIXED = [
    # (text, note)
    "addi x1, x0, 5\nloop:\naddi x2, x2, 3\naddi x1, x1, -1\nbne x1, x0, loop\n",
    ".data\nv: .word 1, 2, 3\ns: .string \"hey\"\n.text\nlw x1, v[1]\nla x10, s\naddi x17, x0, 4\necall\nsw x1, v[2], x5\nlw x3, v[2]\n",
    "li x5, 70000\nsw x5, 0(x5)\nlw x6, 0(x5)\nlb x7, 1(x5)\naddi x17, x0, 93\naddi x10, x0, 7\necall\naddi x9, x0, 9\n",
    "",
    "# only a comment\n\n",
    ".data\nq: .half 1\n",
    "jal x1, 8\naddi x2, x0, 1\naddi x3, x0, 1\njalr x0, x1, 40\n",
    "addi x1, x0, 1\nlw x2, 0(x0)\naddi x3, x0, 3\n",  # faults at run time
    "addi a7, zero, 1\naddi a0, zero, 42\necall\naddi a7, zero, 10\necall\nsw a0, 0(a0)\necall\n",  # exit with younger instructions
    ".text\nmain: li t0, 3\nnext: addi t0, t0, -1\nbeq t0, zero, end\njal zero, next\nend: mv a0, t0\n.data\narr: .byte 1, 2, 3\nz: .zero 2\n",
    "addi x5, x0, 9\nsw x5, 1(x5)\n",  # run-time fault
    "lui x1, 4\nsw x1, 0(x1)\nlh x2, 0(x1)\nsb x2, 3(x1)\nlw x3, 0(x1)\nbeq x3, x3, 8\naddi x4, x0, 1\naddi x5, x0, 2\n",
]

RV_CSR = [
    "addi x1, x0, 5\ncsrrw x2, 0x001, x1\naddi x3, x0, 1\ncsrrs x4, 0x001, x0\naddi x5, x4, 1\n",
    "addi x1, x0, 3\ncsrrwi x2, 0x003, 7\ncsrrci x3, 0x003, 2\nadd x4, x2, x3\n",
]

RV_UNICODE = [
    "addi x1, x0, 1\n\u017fub x1, x2, x3\n",
    "nop\nadd\u0131 x1, x0, 1\n",
    ".data\nmsg: .string \"price: 5 \u20ac\"\n.text\nla a0, msg\naddi a7, zero, 4\necall\n",
    ".data\nq: .string \"\u201cquoted\u201d\"\n.text\nnop\n",
    "# commentaire \u00e9\u00e8 \u65e5\u672c\naddi x1, x0, 1  # \U0001f600\n",
    ".data\nk: .string \"\u65e5\u672c\u8a9e\"\nw: .word 1\n.text\nlw x1, w\n",
]

RV_BAD = [
    "addi x1, x0\n",
    ".data\nv: .word 1\n.text\nlw x1, w\n",
    "beq x0, x0, nowhere\n",
    ".data\nv: .word 1\nv: .word 2\n.text\nnop\n",
    "foo bar\n",
    ".text\nnop\n.text\nnop",
    "l: nop\nl: nop\n",
    "jal x0, 3\n",
    ".data\nnop\n",
    "addi x1, x0, 09\n",
    ".data\nw: .word 007\n.text\nnop\n",
    "lw x1, 04(x2)\n",
    ".data\nbig: .zero 9999999999\nv: .word 1\n.text\nlw x1, v\n",
    "addi x1, x0, " + "9" * 4400 + "\n",
]

TOK = [
    "0", "00", "09", "0x", "0b", "0x1G", "-", "--1", "+1", "1e3", "x32", "x-1", "zero", ":", ",", "(", ")",
    "[", "]", "[0]", "[99999999999]", ".data", ".text", ".word", ".byte", ".half", ".string", ".zero", ".foo",
    "\"", "\"abc", "abc\"", "#", "label:", "label", "li", "la", "nop", "ecall", "ebreak", "fence", "9" * 30,
    "9" * 4400, "0x" + "f" * 30, "0b" + "1" * 70, "-0", "-0x1", "\t", "  ", "lw", "sw", "x1", "a0", "4(x1)",
    "v[1]", "v", "v[007]", "loop", "loop+0x", "loop+0x8", "007", "-08", "0008(x1)", "0o7", "1_000", "٣",
    "\u20ac", "\"\u20ac\"", "s: .string \"\u4e2d\"", "\u00e9", "\U0001f600", "# \u20ac",
    # characters whose case folding is an ASCII letter (long s, dotless i, Kelvin sign): caseless matching takes them
    "\u017fub", "\u017fw", "add\u0131", "\u017f", "\u0131", "\u212a", "\u017fll x1, x2, x3", "l\u0131 x1, 1", "x\u0131",
]

TOY_TOK = ["\u017fTO", "\u017fto 5", "\u017fub", "\u0131nc", "\u017f", "0", "00", "09", "0x", "0xG", "4096", "9" * 4400, "0x" + "F" * 20, "-1", "lbl", "lbl:", ":", ".data",
           ".text", ".word", ".foo", ",", "LDA", "sto", "NOP", "BRZ", "v", "v:", "#", "007", "4095", "65536", "٣"]

REGS = ["x0", "x1", "x2", "x5", "x6", "x7", "x10", "x11", "x17", "a0", "a1", "a7", "t0", "t1", "s0", "sp", "zero"]
R3 = ["add", "sub", "sll", "slt", "sltu", "xor", "srl", "sra", "or", "and", "mul", "mulh", "div", "divu", "rem", "remu", "mulhu", "mulhsu"]
IT = ["addi", "slti", "sltiu", "xori", "ori", "andi"]
BR = ["beq", "bne", "blt", "bge", "bltu", "bgeu"]


def full_memory_text(r):
    """The instruction memory exactly full, one short of full, or one too many (16 KiB = 4096 instructions); only a
    handful of instructions execute: the run jumps over the padding.  Parsing such a text takes seconds, so only the
    text-pair batches use it (two loads per run), rarely."""
    n = r.choice([4096, 4096, 4095, 4097])
    tail = r.choice([["addi a7, zero, 10", "ecall"], ["addi a7, zero, 93", "addi a0, zero, 3", "ecall"], ["addi x6, x6, 1"],
                     ["beq zero, zero, end"], ["jal x0, end"], ["addi a7, zero, 1", "addi a0, zero, 42", "ecall"]])
    head = ["addi x5, zero, 7", "jal x0, skip"]
    pad = n - len(head) - len(tail)
    return "\n".join(head + ["nop"] * pad + ["skip:"] + tail + ["end:"]) + "\n"


def long_text(r):
    """500-2100 instructions with branches and jumps to labels more than 2 KiB / 4 KiB / 8 KiB away, forwards and
    backwards (the filler in between is jumped over, only a handful of instructions execute).  One line costs about a
    millisecond to parse, so only API-mode loads and the text pairs use it, rarely."""
    n = r.choice([520, 1030, 1100, 1300, 2060])
    filler = r.choice(["nop", "addi x6, x6, 1", "add x7, x7, x6", "lw x7, 0(x0)"])
    fwd = r.choice(["beq zero, zero, far", "jal x0, far", "bne x5, zero, far", "blt zero, x5, far", "bgeu x5, zero, far", "jal ra, far"])
    head = ["addi x5, zero, 3", "back:", fwd]
    tail = ["far:", "addi x6, x6, 1"]
    if r.random() < 0.5:
        tail += ["addi x5, x5, -1", r.choice(["bne x5, zero, back", "blt zero, x5, back", "bge x5, x6, back"])]
    if r.random() < 0.3:
        tail += ["la x10, far", "jalr x0, x10, 4"] if r.random() < 0.5 else ["addi a7, zero, 10", "ecall"]
    return "\n".join(head + [filler] * n + tail) + "\n"


def gen_riscv(r):
    """A random, usually terminating RISC-V text."""
    k = r.random()
    if k < 0.27:
        return r.choice(RV_FIXED)
    if k < 0.31:
        return r.choice(RV_UNICODE)
    if k < 0.34:
        return r.choice(RV_CSR)
    if k < 0.355:
        # array-sweep personality: a loop stores to (and reads back from) 40-300 consecutive or strided locations - the
        # backing memory, the memory table and every index kept over them grow past 64 / 256 / 1024 entries within one
        # run batch, i.e. between two inspections of the front end
        w = r.choice(["sw", "sw", "sh", "sb"])
        stride = r.choice([4, 4, 8, 1, 2, 64]) if w == "sb" else r.choice([4, 4, 8, 16, 64]) if w == "sw" else r.choice([2, 4, 4, 8])
        n = r.choice([40, 70, 130, 260, 300])
        body = [f"lui s0, {r.choice([4, 4, 16, 0x80000])}", f"li t2, {n}", f"addi t0, zero, {r.choice([0, 1, 1, 7, 255])}", "again:",
                f"{w} t0, 0(s0)"]
        if r.random() < 0.5:
            body.append(f"{r.choice(['lw', 'lbu', 'lh'])} t1, {r.choice([0, 0, 4])}(s0)" if w != "sb" or stride % 4 == 0 else "lbu t1, 0(s0)")
        body += [f"addi s0, s0, {stride}", f"addi t0, t0, {r.choice([0, 1, 1, 3])}", "addi t2, t2, -1", "bne t2, zero, again"]
        if r.random() < 0.5:
            body += ["lui s0, 4", "lw a0, 0(s0)", "addi a7, zero, 1", "ecall"]
        if r.random() < 0.3:
            body += ["addi a7, zero, 10", "ecall"]
        return "\n".join(body) + "\n"
    if k < 0.46:
        # memory-heavy personality: loads and stores over a few conflicting blocks (same set, different tags for the
        # tiny caches of the driver configurations), re-use and write-backs - what the cache tables and the
        # replacement state depend on
        stride = r.choice([4, 8, 16, 32, 64, 128])
        slots = [stride * i for i in range(r.randint(3, 7))]
        body = ["lui s0, 4", f"addi t0, zero, {r.randint(1, 99)}"]
        # optionally an initialised data segment (a string directly followed by words/bytes: the terminator and the
        # next variable share a block) that the program reads through labels and prints with ecall 4
        data = []
        if r.random() < 0.5:
            data.append(f's: .string "{r.choice(["a", "ab", "abc", "Hello", "0123456", ""])}"')
            for i in range(r.randint(1, 3)):
                t = r.choice(["word", "word", "half", "byte"])
                if r.random() < 0.2:
                    data.append(f"z{i}: .zero {r.randint(1, 6)}")
                data.append(f"d{i}: .{t} " + ", ".join(str(r.choice([1234, 8, 255, 77, 65535, r.randint(1, 99999)])) for _ in range(r.randint(1, 5))))
            if r.random() < 0.3:
                data.append('s2: .string "xy"')
        loop = r.random() < 0.4
        if loop:
            body += [f"li t2, {r.randint(2, 4)}", "again:"]
        for _ in range(r.randint(4, 14)):
            off = r.choice(slots) + r.choice([0, 0, 0, 1, 2])
            c = r.random()
            if c < 0.45:
                body.append(f"{r.choice(['lw', 'lw', 'lh', 'lbu', 'lb'])} {r.choice(['t1', 'a0', 'a1', 'x6'])}, {off - off % 4}(s0)")
            elif c < 0.85:
                w = r.choice(['sw', 'sw', 'sh', 'sb'])
                a = off - off % (4 if w == 'sw' else 2 if w == 'sh' else 1)
                body.append(f"{w} {r.choice(['t0', 't1', 'a0'])}, {a}(s0)")
            elif c < 0.90:
                body.append(f"addi t0, t0, {r.randint(1, 9)}")
            elif c < 0.95 or not data:
                # print the bytes at a slot as a string: uncounted byte reads through the cache (fills, evictions)
                body += [f"addi a0, s0, {off - off % 4}", "addi a7, zero, 4", "ecall"]
            else:
                nvar = len([d for d in data if d.startswith("d")])
                k2 = r.random()
                if k2 < 0.4:
                    body.append(f"{r.choice(['lw', 'lh', 'lbu'])} {r.choice(['t1', 'a1', 'x6'])}, d{r.randrange(nvar)}{r.choice(['', '[0]', '[1]'])}")
                elif k2 < 0.6:
                    body.append(f"{r.choice(['sw', 'sh', 'sb'])} t0, d{r.randrange(nvar)}{r.choice(['', '[0]', '[1]'])}, a2")
                else:
                    body += [f"la a0, {r.choice(['s', 's', 's2'] if any(d.startswith('s2') for d in data) else ['s'])}", "addi a7, zero, 4", "ecall"]
        if loop:
            body += ["addi t2, t2, -1", "bne t2, zero, again"]
        if data:
            if r.random() < 0.5:
                return "\n".join([".data"] + data + [".text"] + body) + "\n"
            return "\n".join([".text"] + body + [".data"] + data) + "\n"
        return "\n".join(body) + "\n"
    lines = []
    data = []
    has_data = r.random() < 0.5
    if has_data:
        nvars = r.randint(1, 3)
        for i in range(nvars):
            t = r.choice(["word", "half", "byte", "string", "zero"])
            if t == "string":
                data.append(f'v{i}: .string "{r.choice(["hi", "Hello, World!", "a b", "", "caf\u00e9", "5 \u20ac", "\u201cq\u201d", "\u65e5\u672c", "ok \U0001f600", "tab\\t"])}"')
            elif t == "zero":
                data.append(f"v{i}: .zero {r.randint(1, 3)}")
            else:
                vals = ", ".join(r.choice(["1", "-1", "0x7f", "0b101", "255", "65535", "-128", str(r.randint(0, 99999))]) for _ in range(r.randint(1, 4)))
                data.append(f"v{i}: .{t} {vals}")
    n = r.choice([r.randint(1, 5), r.randint(3, 12)])
    reg = lambda: r.choice(REGS)  # noqa: E731
    wreg = lambda: r.choice([x for x in REGS if x not in ("x0", "zero", "sp")])  # noqa: E731
    body = []
    loop = r.random() < 0.4
    if loop:
        # a few loops run long enough for counters to pass 256 / 1000 within one episode
        body.append(f"li t2, {r.randint(1, 4) if r.random() < 0.96 else r.choice([40, 70, 130, 260])}")
        body.append("again:")
    for i in range(n):
        c = r.random()
        if c < 0.30:
            body.append(f"{r.choice(R3)} {wreg()}, {reg()}, {reg()}")
        elif c < 0.50:
            body.append(f"{r.choice(IT)} {wreg()}, {reg()}, {r.choice(['1', '-1', '0x10', '0b11', '2047', '-2048', str(r.randint(-99, 99))])}")
        elif c < 0.58:
            body.append(f"li {wreg()}, {r.choice(['0', '-1', '2047', '2048', '-2049', '100000', '0x7fffffff', '0xffffffff', '4096', '0x800'])}")
        elif c < 0.63:
            body.append(f"mv {wreg()}, {reg()}")
        elif c < 0.64:
            body.append("nop")
        elif c < 0.66:
            body.append(r.choice([f"{r.choice(['slli', 'srli', 'srai'])} {wreg()}, {reg()}, {r.choice([0, 1, 4, 31, 31, r.randint(0, 31)])}",
                                  f"auipc {wreg()}, {r.choice([0, 1, 4, 0xfffff, r.randint(0, 0xfffff)])}",
                                  f"lui {wreg()}, {r.choice([0, 1, 0x80000, 0xfffff, r.randint(0, 0xfffff)])}"]))
        elif c < 0.76 and has_data:
            v = f"v{r.randrange(len(data))}"
            idx = r.choice(["", "[0]", "[1]"])
            c2 = r.random()
            if c2 < 0.4:
                body.append(f"{r.choice(['lw', 'lh', 'lb', 'lbu', 'lhu'])} {wreg()}, {v}{idx}")
            elif c2 < 0.7:
                body.append(f"{r.choice(['sw', 'sh', 'sb'])} {reg()}, {v}{idx}, t1")
            else:
                body.append(f"la {wreg()}, {v}{idx}")
        elif c < 0.82:
            body.append(f"lui s0, 4")
            body.append(f"{r.choice(['sw', 'sh', 'sb', 'lw', 'lh', 'lbu'])} {wreg()}, {4 * r.randint(0, 8)}(s0)")
        elif c < 0.88:
            tgt = f"f{i}"
            # label+0x<offset> (also odd and beyond the last instruction: the branch leaves the program)
            ref = tgt + (r.choice(["+0x0", "+0x4", "+0x4", "+0x8", "+0x2", "+0x3", "+0x1", "+0x7fe"]) if r.random() < 0.2 else "")
            body.append(f"{r.choice(BR)} {reg()}, {reg()}, {ref}")
            body.append(f"{r.choice(IT)} {wreg()}, {reg()}, 1")
            body.append(f"{tgt}:")
            if ref != tgt:
                body.append(f"{r.choice(IT)} {wreg()}, {reg()}, 2")
        elif c < 0.91:
            body.append(f"jal {r.choice(['x0', 'x1', 'ra'])}, j{i}")
            body.append("addi x6, x6, 1")
            body.append(f"j{i}: addi x7, x7, 1")
        elif c < 0.96:
            body.append(f"addi a7, zero, {r.choice([1, 1, 11, 34, 35, 36, 2])}")
            body.append("ecall")
        elif c < 0.98:
            body.append(f"addi a7, zero, {r.choice([10, 93])}")
            body.append("ecall")
        elif c < 0.985:
            # instructions the front end cannot visualise (CSR) or does not implement (fence, ebreak: they fault)
            body.append(r.choice(["csrrw x2, 0x001, x1", "csrrs x5, 0x003, x0", "csrrwi x6, 0x002, 5", "csrrci x7, 0x001, 3",
                                  "csrrw x2, 0x300, x1", "fence x0, x0", "ebreak"]))
        elif c < 0.99:
            body.append(r.choice(["lw x1, 0(x0)", "addi a7, zero, 5\necall", "sw x1, 1(x0)"]))  # run-time fault
        elif c < 0.995:
            # the last words of the address space through a negative sum (legal), zero stored over data
            body += r.choice([["sw t0, -4(zero)", "lw t1, -4(x0)"], ["sb t0, -1(zero)", "lbu t1, -1(zero)", "lw a1, -4(zero)"],
                              ["addi t1, zero, 4", "sh t0, -8(t1)", "lhu a0, -4(zero)"], ["sw t0, -8(x0)", "sw zero, -8(x0)", "lw t1, -8(x0)"]])
        else:
            # the program ends by leaving the instruction memory's address range altogether
            body += r.choice([["lui t0, 4", "jalr x0, t0, 0"], ["li t0, -8", "jalr x1, t0, 0"], ["jalr x0, zero, -4"],
                              ["lui t0, 0x80000", "jalr x0, t0, 4"], ["lui t0, 4", "jalr x1, t0, -4", "addi x6, x6, 1"]])
    if loop:
        body.append("addi t2, t2, -1")
        body.append("bne t2, zero, again")
    if r.random() < 0.2:
        body = [("    " + b if not b.endswith(":") else b) + ("  # c" if r.random() < 0.3 else "") for b in body]
    if has_data:
        if r.random() < 0.5:
            lines = [".data"] + data + [".text"] + body
        else:
            lines = ([".text"] if r.random() < 0.7 else []) + body + [".data"] + data
            if lines[0] != ".text":
                lines = [".text"] + lines
    else:
        lines = ([".text"] if r.random() < 0.2 else []) + body
    return "\n".join(lines) + ("\n" if r.random() < 0.7 else "")


ODD_LITERALS = ["09", "007", "-08", "00", "0" * 10, "9" * 4400, "1" * 4301, "-" + "9" * 4400, "0x" + "f" * 5000,
                "0b" + "1" * 5000, "-0", "0x", "0b", "4294967296", "-2147483649", "99999999999999999999", "0x100000000"]
_LIT = None


def mutate_literal(r, text):
    """Replace one numeric literal of a (valid) program by an odd one: aims at every place where the
    assembler converts a literal after tokenising (.byte/.half/.word/.zero values, name[i] indices, li,
    immediates, offsets, CSR numbers, label+0x offsets)."""
    global _LIT
    import re

    if _LIT is None:
        _LIT = re.compile(r"(?<![\w.])-?(?:0x[0-9a-fA-F]+|0b[01]+|\d+)(?![\w])")
    spans = [m.span() for m in _LIT.finditer(text)]
    if not spans:
        return text
    # every *kind* of conversion site gets its share, however many literals of other kinds the text has: the kind
    # is drawn first (what precedes the literal on its line: a directive, an index bracket, an offset before a
    # parenthesis, a label+, anything else), then a literal of that kind
    kinds = {}
    for (a, b) in spans:
        ls = text.rfind("\n", 0, a) + 1
        head = text[ls:a]
        m = re.search(r"\.(zero|word|half|byte|string)\b", head)
        if m:
            k = "." + m.group(1)
        elif head.endswith("["):
            k = "index"
        elif text[b:b + 1] == "(":
            k = "offset"
        elif head.endswith("+"):
            k = "label+"
        else:
            k = "other"
        kinds.setdefault(k, []).append((a, b))
    kind = r.choice(sorted(kinds))
    a, b = r.choice(kinds[kind])
    lits = ODD_LITERALS
    if kind != "other":
        # decimal-only sites accept nothing odd but length: Python refuses to convert more than 4300 digits
        lits = ODD_LITERALS + ["9" * 4400, "1" * 4301, "9" * 4400, "1" * 4301, "7" * 5000, "0" * 4400 + "1"]
    return text[:a] + r.choice(lits) + text[b:]


def mutate(r, text, toks):
    """One editing step: returns the new text (character / token / line level)."""
    lines = text.split("\n")
    k = r.random()
    i = r.randrange(len(lines))
    if k < 0.12:
        del lines[i]
        lines = lines or [""]
    elif k < 0.24:
        lines.insert(i, lines[r.randrange(len(lines))])
    elif k < 0.34:
        j = r.randrange(len(lines))
        lines[i], lines[j] = lines[j], lines[i]
    elif k < 0.64:
        t = lines[i].split(" ")
        p = r.randrange(len(t))
        t[p] = r.choice(toks) if r.random() < 0.7 else t[p] + r.choice(toks)
        lines[i] = " ".join(t)
    elif k < 0.84:
        ln = lines[i]
        if ln:
            p = r.randrange(len(ln))
            lines[i] = ln[:p] + r.choice(["", "0", ",", ":", " ", "x", "-", "9", "#", ".", "[", "(", "\"", "0x"]) + ln[p + r.randint(0, 1):]
        else:
            lines[i] = r.choice(toks)
    elif k < 0.92:
        lines[i] = " ".join(r.choice(toks) for _ in range(r.randint(1, 5)))
    else:
        lines.insert(i, r.choice(["nop", "addi x1, x1, 1", "ecall", "l9:", ".data", ".text", "x: .word 1", ""]))
    return "\n".join(lines)


# ---------------------------------------------------------------------------
# TOY

TOY_A = ["STO", "LDA", "BRZ", "ADD", "SUB", "OR", "AND", "XOR"]
TOY_N = ["NOT", "INC", "DEC", "ZRO", "NOP"]
TOY_FIXED = [
    ".data\nv: .word 5, 0x10\nw: .word 1\n.text\nLDA v\nloop: ADD w\nSTO 0x3FF\nBRZ end\nZRO\nBRZ loop\nend: NOP\nINC\nDEC\nNOT\nlda 4000\n",
    "INC\nINC\nSTO 100\nLDA 100\nDEC\nBRZ 7\nDEC\nNOP\n",
    "",
    "# nothing\n",
    "LDA 3\nSTO 1\nNOP\nINC\n",  # self-modifying
    ".data\nx: .word 7\n",
]
TOY_BAD = ["LDA\n", "FOO 1\n", "LDA nolabel\n", "a: NOP\na: NOP\n", ".data\nNOP\n", ".text\nv: .word 1\n",
           "LDA 0x\n", ".data\nv: .word " + ", ".join(["1"] * 5000) + "\n", "LDA " + "9" * 4400 + "\n"]


def gen_toy(r):
    if r.random() < 0.3:
        return r.choice(TOY_FIXED)
    n = r.randint(1, 10)
    lines = []
    for i in range(n):
        lbl = f"l{i}: " if r.random() < 0.15 else ""
        if r.random() < 0.7:
            a = r.choice([r.randint(0, n + 2), r.randint(0, n + 2), 4095, 100, r.randint(0, 4095)])
            lines.append(f"{lbl}{r.choice(TOY_A)} {a if r.random() < 0.8 else hex(a)}")
        else:
            lines.append(lbl + r.choice(TOY_N))
    if r.random() < 0.5:
        d = [".data", f"v: .word {r.getrandbits(16)}, {r.getrandbits(16)}"]
        if r.random() < 0.5:
            lines.insert(r.randrange(len(lines) + 1), f"{r.choice(['LDA', 'ADD', 'STO'])} v")
        lines = d + [".text"] + lines if r.random() < 0.5 else [".text"] + lines + d
    return "\n".join(lines) + "\n"
