"""Differential check for C08 (hazard detection off == interlock-free pipeline).

Self-contained: generates random RV32I programs (fixed seeds), runs them in the
five-stage pipeline with hazard detection DISABLED and records, cycle by cycle,
exactly the things the property talks about:

  * the operands every instruction reads in decode (register numbers + values),
  * that the decode stage never raises a stall signal,
  * register file, program counter, output and exit code,
  * final data memory, instruction count, stall / flush / cycle counters of
    complete (error free) runs,
  * for faulting programs: the reported error, registers, memory and output at
    the moment of the error (nothing else - the property says nothing more).

It also runs the nop-padded variant (two nops behind every instruction) of each
program in the pipeline (detection off) and in single-cycle mode and compares
the results (hazard-free clause).

Everything is folded into a sha256 digest; a short summary is printed.  The
output must be identical with and without the source change.
"""
import hashlib
import random
import sys

import fixedint

from architecture_simulator.simulation.riscv_simulation import RiscvSimulation
from architecture_simulator.uarch.riscv.pipeline_registers import (
    InstructionDecodePipelineRegister,
)

# knobs (the three demos differ only here)
N_PROGRAMS = 300
SEED = 80802
P_ECALL = 0.08  # probability of an ecall per slot
P_FAULT_PROGRAM = 0.40  # fraction of programs containing an invalid access
MAX_CYCLES = 1500
ECALL_CODES = [1, 11, 34, 35, 36, 10, 93, 7, 0, 4, 1, 36]  # 7 and 0 are invalid, 4 prints a string (may fault)

NOP = "add x0, x0, x0"
DATA_BASE = 2**14  # lowest valid data address
WORK_REGS = [1, 2, 3, 4, 6, 7, 8, 9, 10, 11, 12, 17]
ALU_R = ["add", "sub", "xor", "or", "and", "sll", "srl", "sra", "slt", "sltu", "mul"]
ALU_I = ["addi", "xori", "ori", "andi", "slti", "sltiu"]
SHIFT_I = ["slli", "srli", "srai"]
BRANCH = ["beq", "bne", "blt", "bge", "bltu", "bgeu"]


def gen_program(rng):
    """Returns (items, init_regs, jalr_slot).  items: list of (label|None, text)."""
    n = rng.randint(6, 28)
    items = []
    faulty = rng.random() < P_FAULT_PROGRAM
    fault_at = rng.randrange(n) if faulty else -1
    loop_open = None
    for i in range(n):
        label = f"L{i}"
        r = rng.random()
        rd = rng.choice(WORK_REGS[:-1])  # a7 is only written by 'addi x17, x0, code'
        rs1 = rng.choice(WORK_REGS + [0, 28])
        rs2 = rng.choice(WORK_REGS + [0])
        if i == fault_at:
            text = f"lw x{rd}, {rng.choice([0, 4, 100])}(x0)"
        elif r < P_ECALL:
            text = "ecall"
        elif r < 0.40:
            text = f"{rng.choice(ALU_R)} x{rd}, x{rs1}, x{rs2}"
        elif r < 0.62:
            text = f"{rng.choice(ALU_I)} x{rd}, x{rs1}, {rng.randint(-40, 40)}"
        elif r < 0.68:
            text = f"{rng.choice(SHIFT_I)} x{rd}, x{rs1}, {rng.randint(0, 31)}"
        elif r < 0.72:
            text = f"lui x{rd}, {rng.randint(0, 2000)}"
        elif r < 0.80:
            op = rng.choice(["lw", "lh", "lhu", "lb", "lbu"])
            text = f"{op} x{rd}, {4 * rng.randint(0, 15)}(x{rng.choice([28, 29])})"
        elif r < 0.88:
            op = rng.choice(["sw", "sh", "sb"])
            text = f"{op} x{rs2}, {4 * rng.randint(0, 15)}(x{rng.choice([28, 29])})"
        elif r < 0.94 and i < n - 1:
            target = rng.randint(i + 1, min(n, i + 6))
            text = f"{rng.choice(BRANCH)} x{rs1}, x{rs2}, L{target}"
        elif r < 0.96 and i < n - 1:
            target = rng.randint(i + 1, min(n, i + 6))
            text = f"jal x{rng.choice([0, 1])}, L{target}"
        elif r < 0.975 and i < n - 2:
            text = f"jalr x{rng.choice([0, 1])}, x31, 0"
        elif loop_open is None and i < n - 3:
            # open a bounded loop: counter x30 (only ever decremented)
            loop_open = i
            text = "addi x30, x30, -1"
        elif loop_open is not None and i - loop_open >= 2:
            text = f"blt x0, x30, L{loop_open}"
            loop_open = None
        else:
            text = f"addi x17, x0, {rng.choice(ECALL_CODES)}"
        items.append((label, text))
    items.append((f"L{n}", NOP))
    init = {r: rng.choice([0, 1, 2, 5, 0xFFFFFFFF, 0x80000000, rng.getrandbits(32)])
            for r in WORK_REGS}
    init[17] = rng.choice(ECALL_CODES)
    init[28] = DATA_BASE
    init[29] = DATA_BASE + 64
    init[30] = rng.randint(0, 4)
    jalr_slot = rng.randint(max(0, n - 4), n)  # x31 points at this slot
    return items, init, jalr_slot


def render(items, pad):
    lines = []
    for label, text in items:
        lines.append(f"{label}:")
        lines.append(text)
        for _ in range(pad):
            lines.append(NOP)
    return "\n".join(lines)


def make_sim(items, init, jalr_slot, pad, mode, detect):
    sim = RiscvSimulation(mode=mode, detect_data_hazards=detect)
    sim.load_program(render(items, pad))
    for r, v in init.items():
        sim.state.register_file.registers[r] = fixedint.UInt32(v)
    sim.state.register_file.registers[31] = fixedint.UInt32(4 * jalr_slot * (1 + pad))
    return sim


def regs_of(sim):
    return tuple(int(v) for v in sim.state.register_file.registers)


def mem_of(sim):
    return tuple(sorted((k, v[2]) for k, v in sim.state.memory.wordwise_repr().items()))


def run_traced(sim, h):
    """Runs the pipeline cycle by cycle and feeds the observations into h."""
    decode_stalls = 0
    error = None
    cycles = 0
    while not sim.is_done() and cycles < MAX_CYCLES:
        try:
            sim.step()
        except Exception as e:  # noqa: BLE001 - the error is an observation
            error = repr(e)
            break
        cycles += 1
        idr = sim.state.pipeline.pipeline_registers[1]
        if isinstance(idr, InstructionDecodePipelineRegister):
            obs = (
                idr.address_of_instruction,
                repr(idr.instruction),
                idr.register_read_addr_1,
                idr.register_read_addr_2,
                idr.register_read_data_1,
                idr.register_read_data_2,
                idr.imm,
                idr.write_register,
            )
            if idr.stall_signal is not None:
                decode_stalls += 1
        else:
            obs = None
        h.update(
            repr(
                (
                    obs,
                    regs_of(sim),
                    sim.state.program_counter,
                    sim.state.output,
                    sim.state.exit_code,
                )
            ).encode()
        )
    return cycles, decode_stalls, error


def final_obs(sim, error):
    base = (regs_of(sim), mem_of(sim), sim.state.output, sim.state.exit_code, error)
    if error is not None:
        return base
    pm = sim.state.performance_metrics
    return base + (
        sim.state.program_counter,
        pm.instruction_count,
        pm.cycles,
        pm.stalls,
        pm.flushes,
        pm.branch_count,
        pm.procedure_count,
    )


def run_plain(sim):
    error = None
    cycles = 0
    while not sim.is_done() and cycles < 3 * MAX_CYCLES:
        try:
            sim.step()
        except Exception as e:  # noqa: BLE001
            error = repr(e)
            break
        cycles += 1
    return (regs_of(sim), mem_of(sim), sim.state.output, sim.state.exit_code, error)


def main():
    rng = random.Random(SEED)
    h = hashlib.sha256()
    tot_cycles = tot_decode_stalls = tot_errors = tot_stalls = tot_flushes = 0
    tot_exit = padded_equal = padded_total = timeouts = 0
    for _ in range(N_PROGRAMS):
        items, init, jalr_slot = gen_program(rng)

        # (a) raw program, interlock-free pipeline, traced cycle by cycle
        sim = make_sim(items, init, jalr_slot, 0, "five_stage_pipeline", False)
        cycles, dstalls, error = run_traced(sim, h)
        h.update(repr(final_obs(sim, error)).encode())
        tot_cycles += cycles
        tot_decode_stalls += dstalls
        tot_errors += error is not None
        tot_exit += sim.state.exit_code is not None
        timeouts += (error is None and not sim.is_done())
        if error is None:
            tot_stalls += sim.state.performance_metrics.stalls
            tot_flushes += sim.state.performance_metrics.flushes

        # (b) nop-padded program: pipeline without interlocks vs single-cycle mode
        pipe = make_sim(items, init, jalr_slot, 2, "five_stage_pipeline", False)
        single = make_sim(items, init, jalr_slot, 2, "single_stage_pipeline", True)
        rp = run_plain(pipe)
        rs = run_plain(single)
        h.update(repr((rp, rs)).encode())
        padded_total += 1
        padded_equal += rp == rs
        h.update(repr(pipe.state.performance_metrics.stalls if rp[4] is None else None).encode())

    print(f"programs                 : {N_PROGRAMS}")
    print(f"pipeline cycles traced   : {tot_cycles}")
    print(f"decode-stage stalls seen : {tot_decode_stalls}")
    print(f"stalls (ecall drains)    : {tot_stalls}")
    print(f"flushes                  : {tot_flushes}")
    print(f"runs ending with an error: {tot_errors}")
    print(f"runs ending with an exit : {tot_exit}")
    print(f"runs cut at cycle limit  : {timeouts}")
    print(f"padded == single-cycle   : {padded_equal} / {padded_total}")
    print(f"digest                   : {h.hexdigest()}")
    return 0


if __name__ == "__main__":
    sys.exit(main())
