"""Reference models for the storage hierarchy. Independent of the repository's
Cache/CacheSet/LRU/PLRU classes: sets are lists of tags, LRU is last-use
timestamps, PLRU is an explicit recursive binary tree keyed by way ranges.
"""

MASK32 = 2**32 - 1
DATA_MIN = 2**14


class ByteStore:
    """Byte map over addresses modulo 2^32, default 0, valid range [2^14, 2^32)."""

    def __init__(self, lo=DATA_MIN, hi=2**32, wrap=2**32, cell_bits=8):
        self.lo, self.hi, self.wrap, self.cell_bits = lo, hi, wrap, cell_bits
        self.cells = {}

    def cell_addrs(self, addr, n):
        if self.wrap:
            return [(addr + i) % self.wrap for i in range(n)]
        return [addr + i for i in range(n)]

    def in_range(self, a):
        return self.lo <= a < self.hi

    def read(self, addr, n):
        mask = (1 << self.cell_bits) - 1
        return sum(
            (self.cells.get(a, 0) & mask) << (self.cell_bits * i)
            for i, a in enumerate(self.cell_addrs(addr, n))
        )

    def write(self, addr, n, value):
        mask = (1 << self.cell_bits) - 1
        for i, a in enumerate(self.cell_addrs(addr, n)):
            self.cells[a] = (value >> (self.cell_bits * i)) & mask

    def clear(self):
        self.cells = {}


class RefPolicy:
    """Replacement policy reference for one set."""

    def __init__(self, ways, strat):
        self.n = ways
        self.strat = strat
        self.last = [-1] * ways  # LRU: last-use timestamps; never used = -1
        self.clock = 0
        self.bits = {}  # PLRU: (lo, hi) -> True means "victim search goes right"

    def touch(self, i):
        self.clock += 1
        self.last[i] = self.clock
        lo, hi = 0, self.n
        while hi - lo > 1:
            mid = (lo + hi) // 2
            if i < mid:
                self.bits[(lo, hi)] = True  # accessed left half -> point right (away)
                hi = mid
            else:
                self.bits[(lo, hi)] = False
                lo = mid

    def victim(self):
        if self.strat == "lru":
            return min(range(self.n), key=lambda i: (self.last[i], i))
        lo, hi = 0, self.n
        while hi - lo > 1:
            mid = (lo + hi) // 2
            if self.bits.get((lo, hi), False):
                lo = mid
            else:
                hi = mid
        return lo

    def repr(self):
        """Same shape as ReplacementStrategy.get_repr(): LRU -> rank per way
        (0 = next victim); PLRU -> level-order list of tree bits."""
        if self.strat == "lru":
            order = sorted(range(self.n), key=lambda i: (self.last[i], i))
            return [order.index(i) for i in range(self.n)]
        out = []
        level = [(0, self.n)]
        while level and level[0][1] - level[0][0] > 1:
            nxt = []
            for lo, hi in level:
                out.append(bool(self.bits.get((lo, hi), False)))
                mid = (lo + hi) // 2
                nxt += [(lo, mid), (mid, hi)]
            level = nxt
        return out

    def load_repr(self, rep):
        """Resynchronise from an implementation get_repr() value (used only after
        operations that the property under check places outside its claim)."""
        if self.strat == "lru":
            # rep[i] = rank of way i; reconstruct timestamps preserving order
            self.clock = self.n
            for i, r in enumerate(rep):
                self.last[i] = int(r)
            return
        self.bits = {}
        level = [(0, self.n)]
        k = 0
        rep = list(rep)
        while level and level[0][1] - level[0][0] > 1:
            nxt = []
            for lo, hi in level:
                self.bits[(lo, hi)] = bool(rep[k])
                k += 1
                mid = (lo + hi) // 2
                nxt += [(lo, mid), (mid, hi)]
            level = nxt


class RefSet:
    def __init__(self, ways, strat):
        self.tags = [None] * ways
        self.policy = RefPolicy(ways, strat)

    def find(self, tag):
        for i, t in enumerate(self.tags):
            if t is not None and t == tag:
                return i
        return None


class _LazySets(dict):
    """set index -> RefSet, created on first use (huge index widths stay cheap)."""

    def __init__(self, ways, strat):
        super().__init__()
        self.ways, self.strat = ways, strat

    def __missing__(self, k):
        v = self[k] = RefSet(self.ways, self.strat)
        return v


class RefCache:
    """Set-associative cache: 'wb' = write-back + write-allocate, 'wt' = write-through +
    no-write-allocate, 'ro' = read-only (instruction cache)."""

    def __init__(self, kind, ib, bb, ways, strat):
        self.kind, self.ib, self.bb, self.ways, self.strat = kind, ib, bb, ways, strat
        self.sets = _LazySets(ways, strat)
        self.hits = 0
        self.acc = 0
        self.last = False

    def split(self, addr):
        blk = (addr & MASK32) >> (2 + self.bb)
        return blk & (2**self.ib - 1), blk >> self.ib

    def access(self, addr, write, counted=True):
        idx, tag = self.split(addr)
        s = self.sets[idx]
        w = s.find(tag)
        hit = w is not None
        victim = None
        if hit:
            s.policy.touch(w)
        elif (not write) or self.kind == "wb":
            victim = s.policy.victim()
            s.tags[victim] = tag
            s.policy.touch(victim)
        if counted:
            self.acc += 1
            self.hits += int(hit)
            self.last = hit
        return hit, victim, idx

    def clear(self):
        self.sets = _LazySets(self.ways, self.strat)

    def resync(self, impl_sets):
        """impl_sets: {set index: (list of (valid, tag), strategy_repr)} read white-box
        from the implementation."""
        for k, (blocks, rep) in impl_sets.items():
            s = self.sets[k]
            s.tags = [t if v else None for v, t in blocks]
            s.policy.load_repr(rep)
