"""Result of one simulated run and the commutative aggregate of many.

Aggregation is sums, set unions and min-index samples only, so the totals do
not depend on the number of workers or on completion order.
"""
from collections import Counter


class Violation(dict):
    """{"property", "kind", "at", "expected", "got", "detail"} (JSON-like)."""

    def __init__(self, prop, kind, at=None, expected=None, got=None, **detail):
        super().__init__(
            property=prop, kind=kind, at=at, expected=expected, got=got, detail=detail
        )


class Result:
    __slots__ = (
        "violations",
        "hang",
        "discarded",
        "probes",
        "faults",
        "sim",
        "states",
        "trans",
        "nontrivial",
        "digest",
        "relaxations",
    )

    def __init__(self) -> None:
        self.violations: list = []
        self.hang = None  # None or a short description
        self.discarded = None  # None or reason (run not counted)
        self.probes = Counter()
        self.faults = Counter()
        self.sim = Counter()
        self.states: set = set()
        self.trans: set = set()
        self.nontrivial = False
        self.digest = ""
        self.relaxations = Counter()

    def violate(self, prop, kind, at=None, expected=None, got=None, **detail):
        self.violations.append(Violation(prop, kind, at, expected, got, **detail))

    @property
    def outcome(self) -> str:
        if self.discarded:
            return "discarded"
        if self.violations:
            return "violation"
        if self.hang:
            return "hang"
        return "ok"


class Aggregate:
    def __init__(self) -> None:
        self.evaluations = 0
        self.discarded = Counter()
        self.probes = Counter()
        self.faults = Counter()
        self.sim = Counter()
        self.relaxations = Counter()
        self.states: set = set()
        self.trans: set = set()
        self.nontrivial_digests: set = set()
        self.per_batch = Counter()
        self.fault_runs = 0
        # samples: name -> (key, index, batch, trace)   (min key wins; key is deterministic)
        self.samples: dict = {}
        # violations: list of (batch, index, seed, trace, violations, hang)
        self.violations: list = []
        self.errors: list = []  # harness errors (strings)
        self.hangs: list = []  # runs over budget in a property without a termination clause (strings)
        self.digests: dict = {}  # (batch, index) -> digest, only for sampled indices

    def add(self, batch: str, index: int, seed: int, trace, res: Result, keep_digest: bool, chunk_start: int = 0):
        if res.discarded:
            self.discarded[res.discarded] += 1
            return
        self.evaluations += 1
        self.per_batch[batch] += 1
        self.probes.update(res.probes)
        self.faults.update(res.faults)
        self.sim.update(res.sim)
        self.relaxations.update(res.relaxations)
        self.states |= res.states
        self.trans |= res.trans
        if res.faults:
            self.fault_runs += 1
        if res.nontrivial:
            self.nontrivial_digests.add(int(res.digest[:16], 16))
        if keep_digest:
            self.digests[(batch, index)] = res.digest
        # samples
        self._sample("first", (index, batch), index, batch, trace)
        nprobes = sum(1 for v in res.probes.values() if v)
        self._sample("most_probes", (-nprobes, index, batch), index, batch, trace)
        if res.faults:
            self._sample("fault_injecting", (index, batch), index, batch, trace)
        if res.violations or res.hang:
            self.violations.append((batch, index, seed, trace, list(res.violations), res.hang, chunk_start))

    def _sample(self, name, key, index, batch, trace):
        cur = self.samples.get(name)
        if cur is None or key < cur[0]:
            self.samples[name] = (key, index, batch, trace)

    def merge(self, other: "Aggregate") -> None:
        self.evaluations += other.evaluations
        self.discarded.update(other.discarded)
        self.probes.update(other.probes)
        self.faults.update(other.faults)
        self.sim.update(other.sim)
        self.relaxations.update(other.relaxations)
        self.states |= other.states
        self.trans |= other.trans
        self.nontrivial_digests |= other.nontrivial_digests
        self.per_batch.update(other.per_batch)
        self.fault_runs += other.fault_runs
        for name, s in other.samples.items():
            self._sample(name, s[0], s[1], s[2], s[3])
        self.violations.extend(other.violations)
        self.errors.extend(other.errors)
        self.hangs.extend(other.hangs)
        self.digests.update(other.digests)
