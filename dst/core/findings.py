"""Known findings: /verif/known_findings.json, committed, never written at run time.

Entry: {"property", "status": "known"|"fixed", "commit", "what",
        "match": {"predicate": <name>, "args": {...}}}

A `known` entry carries a predicate over (minimised trace, violation) so that a
*different* violation of the same property is still reported.  A `fixed` entry
suppresses nothing; it only documents the repair.
"""
import json
import os

from .repo import VERIF_DIR

PREDICATES = {}


def predicate(name):
    def deco(fn):
        PREDICATES[name] = fn
        return fn

    return deco


def load():
    # the committed file; the override exists only for the self-test of the KNOWN-FINDING path
    path = os.environ.get("VERIF_KNOWN_FINDINGS") or os.path.join(VERIF_DIR, "known_findings.json")
    if not os.path.exists(path):
        return []
    with open(path) as f:
        data = json.load(f)
    return data.get("findings", [])


def match(prop: str, trace: dict, violation: dict):
    """Return the first `known` entry whose predicate matches, else None."""
    for entry in load():
        if entry.get("property") != prop or entry.get("status") != "known":
            continue
        m = entry.get("match") or {}
        fn = PREDICATES.get(m.get("predicate"))
        if fn is None:
            continue
        try:
            if fn(trace, violation, **(m.get("args") or {})):
                return entry
        except Exception:
            continue
    return None
