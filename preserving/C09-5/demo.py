"""Differential check for C09 (data-cache hit/miss accounting and miss penalties).

Run with the worktree forced onto the path:
    cd /tmp/wtR2_C09 && PYTHONPATH=/tmp/wtR2_C09 /venv/bin/python /tmp/outR2_C09/demo_2.py

Part A drives WriteBack/WriteThrough memory systems directly with a few hundred
random access histories (all widths, counted and uncounted reads, parser-style
preloads written directly to lower memory, before AND in between the cached
accesses) on random geometries / policies / miss penalties and records, after every single
access, (hits, accesses, last_was_hit, cycles, value read).
Part B runs random load/store programs through RiscvSimulation in single-cycle
and five-stage mode and records the data-cache counters, the miss cycles and the
register file; it also asserts that both modes report identical counters and that
the access counter equals the number of executed loads/stores.
Only a digest and a few totals are printed; the output must be identical on the
unchanged and on the changed code.
"""
import hashlib
import random
import sys

from fixedint import UInt8, UInt16, UInt32

import architecture_simulator
from architecture_simulator.uarch.memory.memory import Memory, AddressingType
from architecture_simulator.uarch.memory.cache import CacheOptions
from architecture_simulator.uarch.memory.write_back_memory_system import (
    WriteBackMemorySystem,
)
from architecture_simulator.uarch.memory.write_through_memory_system import (
    WriteThroughMemorySystem,
)
from architecture_simulator.uarch.riscv.riscv_performance_metrics import (
    RiscvPerformanceMetrics,
)
from architecture_simulator.simulation.riscv_simulation import RiscvSimulation

# which checkout is exercised goes to stderr so that stdout stays comparable
print("using", architecture_simulator.__file__, file=sys.stderr)

BASE = 2**14
digest = hashlib.sha256()
totals = {"cases": 0, "ops": 0, "hits": 0, "accesses": 0, "cycles": 0}


def rec(*items):
    digest.update((" ".join(str(i) for i in items) + "\n").encode())


# --------------------------------------------------------------------------
# Part A: memory-system level histories
# --------------------------------------------------------------------------
def part_a(n_cases=320, n_ops=140):
    for seed in range(n_cases):
        rng = random.Random(2000 + seed)
        index_bits = rng.choice([0, 0, 1, 1, 2, 3])
        block_bits = rng.choice([0, 0, 1, 2])
        repl = rng.choice(["lru", "plru"])
        assoc = rng.choice([1, 2, 4, 8] if repl == "plru" else [1, 2, 3, 4, 5, 8])
        policy = rng.choice(["wb", "wt"])
        penalty = rng.choice([0, 1, 3, 7, 10, 25])
        pm = RiscvPerformanceMetrics()
        cls = WriteBackMemorySystem if policy == "wb" else WriteThroughMemorySystem
        ms = cls(
            Memory(AddressingType.BYTE, 32, True, range(BASE, 2**32)),
            index_bits,
            block_bits,
            assoc,
            pm,
            penalty,
            repl,
        )
        capacity = (2**index_bits) * (2**block_bits) * 4 * assoc
        span = capacity * rng.choice([1, 2, 3])
        word_pool = [BASE + 4 * rng.randrange(span // 4 + 4) for _ in range(24)]
        rec("case", seed, index_bits, block_bits, assoc, policy, repl, penalty)

        # parser-style preloads (direct writes to lower memory, never counted)
        for _ in range(rng.randrange(0, 12)):
            a = rng.choice(word_pool) + rng.randrange(4)
            ms.write_byte(a, UInt8(rng.randrange(256)), True)
            if rng.random() < 0.3:
                ms.write_word(rng.choice(word_pool), UInt32(rng.getrandbits(32)), True)
        rec("pre", ms.hits, ms.accesses, ms.last_was_hit, pm.cycles)

        for _ in range(n_ops):
            word = rng.choice(word_pool)
            kind = rng.choice(
                ["rb", "rh", "rw", "wb", "wh", "ww", "urb", "urh", "urw", "pre"]
            )
            small = rng.random() < 0.4
            value = None
            if kind in ("rb", "urb"):
                value = int(ms.read_byte(word + rng.randrange(4), kind == "rb"))
            elif kind in ("rh", "urh"):
                value = int(ms.read_halfword(word + rng.randrange(3), kind == "rh"))
            elif kind in ("rw", "urw"):
                value = int(ms.read_word(word, kind == "rw"))
            elif kind == "pre":
                before = (ms.hits, ms.accesses, ms.last_was_hit, pm.cycles)
                which = rng.randrange(3)
                if which == 0:
                    ms.write_byte(word + rng.randrange(4), UInt8(rng.randrange(256)), True)
                elif which == 1:
                    ms.write_halfword(word + rng.randrange(3), UInt16(rng.randrange(2**16)), True)
                else:
                    ms.write_word(word, UInt32(rng.getrandbits(32)), True)
                assert before == (ms.hits, ms.accesses, ms.last_was_hit, pm.cycles)
            elif kind == "wb":
                v = rng.randrange(3) if small else rng.randrange(256)
                ms.write_byte(word + rng.randrange(4), UInt8(v))
            elif kind == "wh":
                v = rng.randrange(3) if small else rng.randrange(2**16)
                ms.write_halfword(word + rng.randrange(3), UInt16(v))
            else:
                v = rng.randrange(3) if small else rng.getrandbits(32)
                ms.write_word(word, UInt32(v))
            stats = ms.get_cache_stats()
            rec(
                kind,
                word - BASE,
                ms.hits,
                ms.accesses,
                ms.last_was_hit,
                pm.cycles,
                value,
                stats["hits"],
                stats["accesses"],
                stats["last_hit"],
            )
            totals["ops"] += 1
        assert pm.cycles == (ms.accesses - ms.hits) * penalty
        totals["cases"] += 1
        totals["hits"] += ms.hits
        totals["accesses"] += ms.accesses
        totals["cycles"] += pm.cycles


# --------------------------------------------------------------------------
# Part B: programs in both pipeline modes
# --------------------------------------------------------------------------
LOADS = [("lw", 4), ("lh", 2), ("lhu", 2), ("lb", 1), ("lbu", 1)]
STORES = [("sw", 4), ("sh", 2), ("sb", 1)]


def gen_program(rng):
    words = [rng.getrandbits(32) if rng.random() < 0.6 else rng.randrange(3) for _ in range(48)]
    lines = [".data", "arr: .word " + ", ".join(str(w) for w in words), ".text"]
    lines += ["la x5, arr", f"addi x6, x0, {rng.randrange(2, 6)}"]
    for r in range(7, 13):
        lines.append(f"addi x{r}, x0, {rng.randrange(-2048, 2048)}")
    lines.append("loop:")
    label = 0
    for _ in range(rng.randrange(6, 16)):
        p = rng.random()
        if p < 0.35:
            m, w = rng.choice(LOADS)
            off = rng.randrange(0, 192 // w) * w if w != 2 else rng.randrange(0, 64) * 4 + rng.randrange(3)
            lines.append(f"{m} x{rng.randrange(7, 13)}, {off}(x5)")
        elif p < 0.65:
            m, w = rng.choice(STORES)
            off = rng.randrange(0, 192 // w) * w if w != 2 else rng.randrange(0, 64) * 4 + rng.randrange(3)
            lines.append(f"{m} x{rng.randrange(7, 13)}, {off}(x5)")
        elif p < 0.8:
            lines.append(
                f"add x{rng.randrange(7, 13)}, x{rng.randrange(7, 13)}, x{rng.randrange(7, 13)}"
            )
        else:
            # branch over a few wrong-path memory instructions
            label += 1
            if rng.random() < 0.5:
                lines.append(f"beq x0, x0, skip{label}")
            else:
                lines.append(f"blt x{rng.randrange(7, 13)}, x{rng.randrange(7, 13)}, skip{label}")
            for _ in range(rng.randrange(1, 4)):
                m, w = rng.choice(LOADS + STORES)
                lines.append(f"{m} x{rng.randrange(7, 13)}, {rng.randrange(0, 32) * 4}(x5)")
            lines.append(f"skip{label}:")
    lines += [f"addi x5, x5, {rng.choice([0, 4, 8, 16, 32, 64])}", "addi x6, x6, -1", "bne x6, x0, loop"]
    return "\n".join(lines) + "\n"


class CountingProxy:
    """Counts counted accesses issued by the pipeline (wraps the memory system)."""

    def __init__(self, inner):
        self._inner = inner
        self.counted = 0

    def __getattr__(self, name):
        return getattr(self._inner, name)

    def read_byte(self, a, update_statistics=True):
        self.counted += int(update_statistics)
        return self._inner.read_byte(a, update_statistics)

    def read_halfword(self, a, update_statistics=True):
        self.counted += int(update_statistics)
        return self._inner.read_halfword(a, update_statistics)

    def read_word(self, a, update_statistics=True):
        self.counted += int(update_statistics)
        return self._inner.read_word(a, update_statistics)

    def write_byte(self, a, v, directly_write_to_lower_memory=False):
        self.counted += int(not directly_write_to_lower_memory)
        return self._inner.write_byte(a, v, directly_write_to_lower_memory)

    def write_halfword(self, a, v, directly_write_to_lower_memory=False):
        self.counted += int(not directly_write_to_lower_memory)
        return self._inner.write_halfword(a, v, directly_write_to_lower_memory)

    def write_word(self, a, v, directly_write_to_lower_memory=False):
        self.counted += int(not directly_write_to_lower_memory)
        return self._inner.write_word(a, v, directly_write_to_lower_memory)


def run_program(text, mode, opts):
    sim = RiscvSimulation(mode=mode, data_cache=opts)
    sim.load_program(text)
    proxy = CountingProxy(sim.state.memory)
    sim.state.memory = proxy
    steps = 0
    base_cycles = 0
    while not sim.is_done():
        sim.step()
        steps += 1
        assert steps < 20000
        stats = sim.get_data_cache_stats()
        rec(mode[0], stats["hits"], stats["accesses"], stats["last_hit"], stats["address"])
    ms = proxy._inner
    miss_cycles = sim.state.performance_metrics.cycles - steps
    regs = tuple(int(r) for r in sim.state.register_file.registers)
    return (ms.hits, ms.accesses, ms.last_was_hit, miss_cycles, proxy.counted, regs)


def part_b(n_programs=70):
    for seed in range(n_programs):
        rng = random.Random(7000 + seed)
        text = gen_program(rng)
        for _ in range(3):
            repl = rng.choice(["lru", "plru"])
            opts = CacheOptions(
                enable=True,
                num_index_bits=rng.choice([0, 1, 2]),
                num_block_bits=rng.choice([0, 1, 2]),
                associativity=rng.choice([1, 2, 4] if repl == "plru" else [1, 2, 3, 4]),
                cache_type=rng.choice(["wb", "wt"]),
                replacement_strategy=repl,
                miss_penalty=rng.choice([0, 2, 5, 11]),
            )
            single = run_program(text, "single_stage_pipeline", opts)
            five = run_program(text, "five_stage_pipeline", opts)
            assert single[:3] == five[:3], (seed, single[:3], five[:3])
            assert single[3] == five[3] == (single[1] - single[0]) * opts.miss_penalty
            assert single[1] == single[4] and five[1] == five[4]
            assert single[5] == five[5]
            rec("prog", seed, opts.cache_type, repl, single, five)
            totals["cases"] += 1
            totals["hits"] += single[0]
            totals["accesses"] += single[1]
            totals["cycles"] += single[3]


part_a()
part_b()
print("cases", totals["cases"], "ops", totals["ops"])
print("hits", totals["hits"], "accesses", totals["accesses"], "miss_cycles", totals["cycles"])
print("sha256", digest.hexdigest())
sys.exit(0)
