// Runs the ORIGINAL webgui/src/js/base_simulation_store.js under node with fake timers, a fake pyodide and a
// scripted fake simulation, and prints the sequence of calls the store makes on the Python-side objects.
// usage: node port_check.mjs <repo> <scenario.json>
import fs from "fs";
const repo = process.argv[2];
const scenario = JSON.parse(fs.readFileSync(process.argv[3], "utf8"));

// ---- fake timers (virtual clock)
let now = 0, seq = 0;
const queue = [];
globalThis.setTimeout = (fn, ms) => { seq += 1; queue.push({ t: now + ms, id: seq, fn }); return seq; };
globalThis.clearTimeout = (id) => { const i = queue.findIndex((e) => e.id === id); if (i >= 0) queue.splice(i, 1); };
function runUntil(t) {
    for (;;) {
        queue.sort((a, b) => a.t - b.t || a.id - b.id);
        if (!queue.length || queue[0].t > t) break;
        const e = queue.shift();
        now = Math.max(now, e.t);
        e.fn();
    }
    now = Math.max(now, t);
}

const { BaseSimulationStore } = await import("file://" + repo + "/webgui/src/js/base_simulation_store.js");

const log = [];
let simCount = 0;
function makeSim() {
    simCount += 1;
    const id = simCount;
    log.push(["new", now]);
    const sim = {
        steps: 0, total: 0, failAt: null, has_started: false, loaded: false,
        load_program(text) {
            log.push(["load_program", now, text]);
            if (text.startsWith("bad")) throw new Error("parse");
            const m = /^prog (\d+)( fail (\d+))?$/.exec(text);
            this.total = m ? Number(m[1]) : 0; this.failAt = m && m[3] ? Number(m[3]) : null; this.steps = 0; this.loaded = true;
        },
        is_done() { return this.steps >= this.total; },
        has_instructions() { return this.total > 0; },
        get_performance_metrics_str() { return ""; },
        step() {
            log.push(["step", now]);
            if (this.is_done()) return false;
            if (this.failAt !== null && this.steps + 1 === this.failAt) throw new Error("runtime");
            this.steps += 1; this.has_started = true;
            return !this.is_done();
        },
        state: { performance_metrics: {
            resume_timer() { log.push(["resume_timer", now]); },
            stop_timer() { log.push(["stop_timer", now]); } } },
        destroy() {},
    };
    return sim;
}
const pyodide = { globals: { get: () => () => ({ toJs: () => ["InstructionExecutionException", "msg", 4], destroy() {} }) } };
const store = new BaseSimulationStore(pyodide, makeSim);
store.syncAll();
let text = scenario.initial_text, unparsed = false;

// guards and handlers of RiscvControlButtons.vue / editor_store.js (loadProgram), re-stated here
const cantStep = () => !!(store.isRunning || !store.hasInstructions || store.isDone || store.error || unparsed);
function editorLoad() { store.loadProgram(text); unparsed = false; store.syncAll(); }
editorLoad();
for (const ev of scenario.events) {
    runUntil(now + ev.dt);
    if (ev.act === "step" && !cantStep()) { store.resumePerformanceTimer(); store.stepSimulation(); store.stopPerformanceTimer(); store.syncAll(); }
    else if (ev.act === "run" && !cantStep()) { store.runSimulation(); }
    else if (ev.act === "pause" && store.isRunning) { store.pauseSimulation(); }
    else if (ev.act === "reset" && !store.isRunning) { store.resetSimulation(); editorLoad(); }
    else if (ev.act === "setting") { store.resetSimulation(); editorLoad(); }
    else if (ev.act === "upload" && !store.hasStarted) { text = ev.arg; editorLoad(); }
}
let guard = 0;
while (queue.length && guard < 500) { queue.sort((a, b) => a.t - b.t || a.id - b.id); runUntil(queue[0].t); guard += 1; }
console.log(JSON.stringify({ log, isRunning: !!store.isRunning, doPause: !!store.doPause, error: !!store.error, isDone: !!store.isDone, hasStarted: !!store.hasStarted }));
