"""Seeded workload generator for pipesim (DESIGN §4.2), swarm style: every run first
draws a personality (register pool, instruction mix, shape, initial state, cache
geometries, fault plan, motifs) and then the program.

Trace:
  {"prog": [IR...], "regs": {"r": value}, "mem": {"addr": byte},
   "cfg": {"hz": bool, "dc_on": bool, "dc": {...}, "ic_on": bool, "ic": {...}},
   "plan": {"shape":..., "faults": [...], "motifs": [...]}}      # plan is descriptive only
"""
from ..core import rng as R
from . import ir

DATA_MIN = 2**14
BOUNDARY = [0, 1, 2, 0xFFFFFFFF, 0x80000000, 0x7FFFFFFF, 31, 32, 33, 0xFFFFFFFE, 4, 8]
PRINT_CODES = [1, 2, 11, 34, 35, 36]
EXIT_CODES = [10, 93]


def gen_cache(r, data):
    strat = r.choice(["lru", "plru"])
    ways = r.choice([1, 2, 4]) if strat == "plru" else r.choice([1, 1, 2, 3, 4])
    ib, bb = r.randint(0, 2), r.choice([0, 0, 1, 1, 2, 2, 3])
    if r.random() < 0.08:  # legal but unusual corners: 16-word blocks, 8 ways, 16 sets, fully associative and wide
        ib, bb = r.choice([(0, 4), (3, 3), (4, 0), (0, 3), (4, 4), (1, 4)])
        ways = r.choice([1, 8, 8, 4]) if strat == "plru" else r.choice([1, 5, 7, 8])
    return {
        "ib": ib,
        "bb": bb,
        "ways": ways,
        "kind": r.choice(["wb", "wt"]) if data else "wt",
        "strat": strat,
        "pen": r.choice([0, 1, 2, 3, 5]),
    }


class _G:
    def __init__(self, seed, faults=True, force_shape=None, fault_rate=0.25, long=False):
        self.long = long
        self.seed = seed
        self.marathon = False
        self.rp = R.stream(seed, "personality")
        self.r = R.stream(seed, "program")
        self.ri = R.stream(seed, "init")
        self.rf = R.stream(seed, "faults")
        rp = self.rp
        special = rp.sample([5, 6, 7, 28, 29, 30, 31, 18, 19], 3)
        self.B, self.C, self.K = special  # data base, code address, loop counter
        cand = [x for x in range(1, 32) if x not in special]
        self.pool = rp.sample(cand, rp.randint(2, 5))
        if rp.random() < 0.5:
            self.pool.append(0)
        if rp.random() < 0.25 and 17 not in self.pool:
            self.pool.append(17)
        if rp.random() < 0.25 and 10 not in self.pool:
            self.pool.append(10)
        self.shape = force_shape or R.weighted(
            rp, [("straight", 2), ("independent", 1), ("forward", 3), ("loops", 3), ("wild", 2)]
        )
        # instruction mix weights per run
        mixes = [
            dict(alu=6, imm=4, load=2, store=2, branch=3, jal=1, jalr=0.5, upper=1, ecall=0.7, bump=0.3),
            dict(alu=2, imm=2, load=1, store=1, branch=8, jal=2, jalr=1, upper=0.5, ecall=0.5, bump=0.2),
            dict(alu=2, imm=1, load=6, store=6, branch=1, jal=0.3, jalr=0.2, upper=0.5, ecall=0.3, bump=1),
            dict(alu=3, imm=3, load=1, store=1, branch=1, jal=0.5, jalr=0.3, upper=1, ecall=4, bump=0.2),
            dict(alu=8, imm=2, load=0, store=0, branch=0, jal=0, jalr=0, upper=1, ecall=0, bump=0),
            dict(alu=4, imm=4, load=3, store=3, branch=4, jal=1.5, jalr=1.5, upper=1, ecall=1, bump=0.5),
        ]
        self.mix = dict(rp.choice(mixes))
        if self.shape in ("straight", "independent"):
            for k in ("branch", "jal", "jalr"):
                self.mix[k] = 0
        self.faults_on = faults and rp.random() < fault_rate
        self.exit_rate = rp.choice([0.0, 0.05, 0.2])
        self.prog = []
        self.plan = {"shape": self.shape, "faults": [], "motifs": []}

    # ---- register choices
    def reg(self):
        return self.r.choice(self.pool)

    def wreg(self):
        return self.r.choice(self.pool)

    def imm12(self):
        r = self.r
        return r.choice([0, 1, -1, 2047, -2048, 4, r.randint(-2048, 2047), r.randint(-8, 8)])

    # ---- single instructions
    def alu(self):
        return [self.r.choice(ir.R3), self.wreg(), self.reg(), self.reg()]

    def imm(self):
        r = self.r
        if r.random() < 0.25:
            return [r.choice(ir.SHI), self.wreg(), self.reg(), r.choice([0, 1, 31, r.randint(0, 31)])]
        return [r.choice(ir.IT), self.wreg(), self.reg(), self.imm12()]

    def mem_off(self, width):
        r = self.r
        k = r.random()
        if k < 0.8:
            return width * r.randint(-4, 8)
        # within-word misalignment (never word-crossing here; crossing is a planned fault)
        base = 4 * r.randint(-2, 4)
        return base + r.randint(0, 4 - width)

    def load(self):
        op = self.r.choice(ir.LD)
        return [op, self.wreg(), self.B, self.mem_off(ir.WIDTH[op])]

    def store(self):
        op = self.r.choice(ir.ST)
        return [op, self.reg(), self.B, self.mem_off(ir.WIDTH[op])]

    def upper(self):
        r = self.r
        return [r.choice(["LUI", "AUIPC"]), self.wreg(), r.choice([0, 1, -1, 2**19 - 1, -(2**19), r.randint(-(2**19), 2**19 - 1)])]

    def ecall(self):
        return ["ECALL"]

    def bump(self):
        return ["ADDI", self.B, self.B, self.r.choice([4, -4, 8])]

    def branch(self, i, n, lo=None, hi=None):
        r = self.r
        if self.shape == "wild":
            t = r.randint(-1, n + 2)
        else:
            lo = i + 1 if lo is None else lo
            hi = n + 1 if hi is None else hi
            t = r.randint(lo, max(lo, hi))
        return [r.choice(ir.BR), self.reg(), self.reg(), t]

    def jal(self, i, n, lo=None, hi=None):
        r = self.r
        if self.shape == "wild":
            t = r.randint(-1, n + 2)
        else:
            lo = i + 1 if lo is None else lo
            hi = n + 1 if hi is None else hi
            t = r.randint(lo, max(lo, hi))
        return ["JAL", r.choice(self.pool + [0, 1]), t]

    def jalr(self):
        r = self.r
        base = self.C if r.random() < 0.7 else self.reg()  # a pool register: boundary values, wrap-around targets
        return ["JALR", r.choice(self.pool + [0, 1]), base, r.choice([0, 0, 4, 8, 1, 5, -4, 12, 9, 2047, -2048])]

    def one(self, i, n, lo=None, hi=None):
        m = self.mix
        kind = R.weighted(self.r, [(k, w) for k, w in m.items() if w > 0])
        if kind == "alu":
            return self.alu()
        if kind == "imm":
            return self.imm()
        if kind == "load":
            return self.load()
        if kind == "store":
            return self.store()
        if kind == "branch":
            return self.branch(i, n, lo, hi)
        if kind == "jal":
            return self.jal(i, n, lo, hi)
        if kind == "jalr":
            return self.jalr()
        if kind == "upper":
            return self.upper()
        if kind == "ecall":
            return self.ecall()
        return self.bump()

    # ---- shapes
    def body(self, n):
        return [self.one(i, n) for i in range(n)]

    def gen_program(self):
        r = self.r
        n = r.choice([r.randint(1, 6), r.randint(4, 14), r.randint(8, 22)])
        if self.long:
            n = r.randint(20, 70)
        if self.shape == "independent":
            # n mutually independent straight-line instructions: distinct destinations, sources never written
            n = r.randint(0, 12)
            dsts = r.sample([x for x in range(1, 32)], min(n, 20))
            src_pool = [x for x in range(0, 32) if x not in dsts] or [0]
            prog = []
            for d in dsts:
                k = r.random()
                if k < 0.5:
                    prog.append([r.choice(ir.R3), d, r.choice(src_pool), r.choice(src_pool)])
                elif k < 0.8:
                    prog.append([r.choice(ir.IT), d, r.choice(src_pool), self.imm12()])
                elif k < 0.9:
                    prog.append(["LUI", d, r.randint(-(2**19), 2**19 - 1)])
                else:
                    prog.append(["NOP"])
            self.prog = prog
            return
        if self.shape == "loops":
            prog = []
            nloops = r.randint(1, 2) if not self.long else r.randint(2, 5)
            # marathon loop (a fifth of the long programs): one short loop runs 130-520 times, so that instruction,
            # cycle, access and fill counts pass 256 / 1000 / 1024 / 2048 within one run
            self.marathon = self.long and R.stream(self.seed, "marathon").random() < 0.2
            for li in range(nloops):
                pre = r.randint(0, 3)
                for _ in range(pre):
                    prog.append(self.one(len(prog), len(prog) + 4, len(prog) + 1, len(prog) + 1))
                prog.append(["ADDI", self.K, 0, r.randint(1, 4) if not self.long else r.randint(2, 12)])
                start = len(prog)
                blen = r.choice([1, 2, 3, 4, 5, 6, 8, 9])
                if self.marathon and li == 0:
                    prog[-1][3] = R.stream(self.seed, "marathon-n").choice([130, 260, 300, 520, 1100])
                    blen = min(blen, 4)
                end = start + blen  # index of the counter decrement
                for j in range(blen):
                    i = len(prog)
                    prog.append(self.one(i, end, i + 1, end))  # forward branches stay inside the body
                prog.append(["ADDI", self.K, self.K, -1])
                prog.append(["BNE", self.K, 0, start])
            for _ in range(r.randint(0, 3)):
                i = len(prog)
                prog.append(self.one(i, i + 3, i + 1, i + 2))
            # fix forward targets that now point past the end by more than 2
            n = len(prog)
            for ins in prog:
                if ins[0] in ir.BR and ins[3] > n + 1:
                    ins[3] = n + 1
                if ins[0] == "JAL" and ins[2] > n + 1:
                    ins[2] = n + 1
            self.prog = prog
            return
        self.prog = self.body(n)

    # ---- splicing
    def splice(self, p, snippet):
        """Insert snippet (with absolute targets already computed for position p) at p."""
        k = len(snippet)
        for ins in self.prog:
            if ins[0] in ir.BR and ins[3] > p:
                ins[3] += k
            elif ins[0] == "JAL" and ins[2] > p:
                ins[2] += k
        self.prog[p:p] = snippet

    def motif(self, which, p):
        """Hand-described pipeline situations (targets absolute for insertion at p)."""
        r = self.r
        nz = [x for x in self.pool if x != 0]
        a, b, c = r.choice(nz), r.choice(nz), r.choice(nz)
        B, C = self.B, self.C
        taken = lambda t: ["BEQ", 0, 0, t]  # noqa: E731  always-taken branch
        if which == "stall-cancelled-by-flush":
            return [["ADDI", a, a, 1], taken(p + 3), ["ADD", b, a, a], ["XORI", a, a, 5]]
        if which == "jal-link-wrong-path-consumer":
            return [["JAL", a, p + 2], ["ADD", b, a, a], ["ADD", c, a, a]]
        if which == "producer-a7-then-print":
            return [["ADDI", 10, a, 3], ["ADDI", 17, 0, r.choice(PRINT_CODES)], ["ECALL"]]
        if which == "store-then-print-string":
            return [["ADDI", 10, B, 0], ["ADDI", a, 0, 0x41], ["SB", a, B, 0], ["SB", 0, B, 1],
                    ["ADDI", 17, 0, 4], ["ECALL"]]
        if which == "exit-then-effects":
            tail = r.choice([
                [["SW", a, B, 0]],
                [["ADDI", 17, 0, 1], ["ECALL"]],
                [["LW", a, 0, 0]],
                [["ADDI", a, a, 1], ["ADD", a, a, a], ["ADD", a, a, a]],
                [["ECALL"], ["SW", a, B, 4]],
            ])
            return [["ADDI", 17, 0, r.choice(EXIT_CODES)], ["ADDI", 10, 0, r.randint(0, 9)], ["ECALL"]] + tail
        if which == "two-ecalls":
            return [["ADDI", 17, 0, r.choice(PRINT_CODES)], ["ECALL"], ["ECALL"]]
        if which == "rs1-and-rs2-producers":
            return [["ADDI", a, 0, 3], ["ADDI", b, 0, 4], ["ADD", c, a, b]]
        if which == "waw-then-consumer":
            return [["ADDI", a, 0, 1], ["ADDI", a, 0, 2], ["ADD", b, a, a]]
        if which == "x0-writer-reader":
            return [["ADDI", 0, a, 7], ["ADD", a, 0, 0], ["LUI", 0, 5], ["OR", b, 0, a]]
        if which == "branch-to-pc-plus-4":
            return [["ADDI", a, a, 1], [r.choice(["BEQ", "BGE", "BGEU"]), a, a, p + 2], ["ADDI", b, a, 1]]
        if which == "jalr-to-pc-plus-4":
            # AUIPC gives the code address of itself; jalr to auipc_addr + 8 = the instruction behind the jalr
            return [["AUIPC", a, 0], ["JALR", b, a, 8], ["ADDI", c, a, 1]]
        if which == "jalr-odd-target":
            return [["AUIPC", a, 0], ["JALR", b, a, r.choice([9, 13])], ["ADDI", a, a, 1], ["ADDI", a, a, 2]]
        if which == "jalr-wrap":
            # rs1 + imm leaves [0, 2^32): the target wraps around to a small code address
            return [["ADDI", a, 0, r.choice([-1, -2, -4, -8])], ["JALR", b, a, r.choice([9, 12, 16, 5, 8, 2047])], ["ADDI", c, c, 1]]
        if which == "jalr-past-end":
            return [["JALR", a, C, 2000]]
        if which == "pointer-chase":
            # memory at B+8 holds a valid pointer (planted by init); load it, load through it, store through it
            return [["LW", a, B, 8], ["LW", b, a, 0], ["SW", b, a, 4]]
        if which == "load-use":
            return [["LW", a, B, 0], ["ADD", b, a, a], ["SW", b, B, 4]]
        if which == "self-branch":
            # the tightest loop: the branch goes back to the decrement that changes its own condition
            return [["ADDI", self.K, 0, r.randint(1, 3)], ["ADDI", self.K, self.K, -1], ["BNE", self.K, 0, p + 1]]
        if which == "dist-2":
            return [["ADDI", a, 0, 9], ["NOP"], ["ADD", b, a, a]]
        if which == "dist-3":
            return [["ADDI", a, 0, 9], ["NOP"], ["NOP"], ["ADD", b, a, a]]
        if which == "ecall-behind-load":
            return [["ADDI", 17, 0, 1], ["LW", 10, B, 0], ["ECALL"]]
        if which == "store-load-same-word":
            return [["SW", a, B, 0], ["LW", b, B, 0], ["SB", b, B, 1], ["LH", c, B, 0]]
        if which == "load-use-into-branch":
            # a load feeding the very next branch: decode stall first, then (perhaps) the flush
            return [["LW", a, B, 0], [r.choice(["BEQ", "BNE", "BLT", "BGEU"]), a, 0, p + 3], ["ADDI", b, b, 1], ["ADDI", c, c, 1]]
        if which == "branch-in-branch-shadow":
            # a taken branch directly behind a taken branch: the second one is on the wrong path and must not redirect
            return [taken(p + 3), taken(p + 4), ["ADDI", a, a, 1], ["ADDI", b, b, 1], ["ADDI", c, c, 1]]
        if which == "jal-in-branch-shadow":
            return [taken(p + 3), ["JAL", a, p + 4], ["ADDI", a, a, 1], ["ADDI", b, b, 1], ["ADDI", c, c, 1]]
        if which == "exit-ecall-in-branch-shadow":
            return [["ADDI", 17, 0, r.choice(EXIT_CODES)], taken(p + 4), ["ECALL"], ["ADDI", a, a, 1], ["ADDI", b, b, 1]]
        if which == "dependent-pair-behind-ecall":
            # a print ecall waiting in EX for an older load while a dependent pair queues up behind it
            return [["LW", 10, B, 0], ["ADDI", 17, 0, 1], ["ECALL"], ["ADDI", a, 10, 1], ["ADD", b, a, a]]
        if which == "branch-operands-just-written":
            return [["ADDI", a, 0, 5], ["ADDI", b, 0, 5], [r.choice(["BEQ", "BNE", "BGE"]), a, b, p + 4], ["ADDI", c, c, 1], ["ADDI", c, c, 2]]
        if which == "sub-word-lanes-one-block":
            return [["LB", a, B, 0], ["LBU", b, B, 3], ["LH", c, B, 2], ["SB", a, B, 5], ["LW", b, B, 4], ["SH", c, B, 6], ["LHU", a, B, 6]]
        if which == "jalr-link-equals-base":
            # rd == rs1: the base must be read before the link is written; lands on the instruction behind the jalr
            return [["AUIPC", a, 0], ["JALR", a, a, 8], ["ADDI", b, a, 0], ["ADD", c, a, a]]
        if which == "store-data-and-base-just-written":
            return [["ADDI", a, B, 4], ["ADDI", b, 0, r.randint(1, 200)], ["SW", b, a, 0], ["LW", c, a, 0], ["ADD", c, c, b]]
        if which == "load-into-store-data":
            return [["LW", a, B, 0], ["SW", a, B, 4], ["LW", b, B, 4], ["SB", b, B, 9]]
        if which == "top-of-memory-through-negative-sum":
            # rs1 + imm is negative before wrapping: the last words of the address space through x0 / a small base
            t = r.choice([0, 0, 4, 8])
            pre = [["ADDI", a, 0, t]] if t else []
            base = a if t else 0
            d = r.choice([b, c, 0])
            return pre + [["ADDI", b, b, 77], ["SW", b, base, -t - 4], ["LW", c, base, -t - 4], ["SB", d, base, -t - 1],
                          ["LBU", b, base, -t - 1], ["SH", c, base, -t - 8], ["LH", c, base, -t - 8]]
        if which == "wrap-above-2^32-into-low-memory":
            # 0xFFFFFFF0 + 16 wraps to address 0: below the first data address, a fault in both modes
            return [["ADDI", a, 0, -16], r.choice([["LW", b, a, 16], ["SW", b, a, 20], ["LB", b, a, 2047]])]
        if which == "store-of-zero-over-data":
            return [["ADDI", a, 0, r.choice([-1, 0x7FF, 255])], ["SW", a, B, 0], ["SW", 0, B, 0], ["LW", b, B, 0], ["SW", a, B, 4],
                    ["ADDI", c, 0, 0], ["SH", c, B, 4], ["SB", c, B, 7], ["LW", c, B, 4]]
        if which == "upper-immediate-zero":
            # results that are exactly 0 (lui 0 / auipc wrapping to 0 needs code at 0x1000: only lui here) into non-zero registers
            return [["ADDI", a, 0, 5], ["LUI", a, 0], ["ADD", b, a, a], ["ADDI", c, 0, 9], ["SUB", c, c, c], ["OR", b, b, c]]
        if which == "jalr-far-outside":
            # leaves the instruction memory's address range altogether (>= 0x4000 or negative): the program is done
            t = r.choice([4, 8, 0x7FF])
            return [["LUI", a, t], ["JALR", b, a, r.choice([0, 4, -4])]] if r.random() < 0.6 else [["ADDI", a, 0, -8], ["JALR", b, a, 0]]
        if which == "shift-amount-names-a-fresh-register":
            # the shamt field equals the number of a register written just before (it is not a source register)
            k = r.choice([x for x in self.pool if 0 < x < 32] or [3])
            return [["ADDI", k, 0, 3], ["SLLI", a, b, k], ["ADDI", k, k, 1], ["NOP"], ["SRAI", c, b, k]]
        raise KeyError(which)

    MOTIFS = [
        "top-of-memory-through-negative-sum", "wrap-above-2^32-into-low-memory", "store-of-zero-over-data",
        "upper-immediate-zero", "jalr-far-outside", "shift-amount-names-a-fresh-register",
        "load-use-into-branch", "branch-in-branch-shadow", "jal-in-branch-shadow", "exit-ecall-in-branch-shadow",
        "dependent-pair-behind-ecall", "branch-operands-just-written", "sub-word-lanes-one-block",
        "jalr-link-equals-base", "store-data-and-base-just-written", "load-into-store-data",
        "stall-cancelled-by-flush", "jal-link-wrong-path-consumer", "producer-a7-then-print",
        "store-then-print-string", "exit-then-effects", "two-ecalls", "rs1-and-rs2-producers",
        "waw-then-consumer", "x0-writer-reader", "branch-to-pc-plus-4", "jalr-to-pc-plus-4",
        "jalr-odd-target", "jalr-wrap", "jalr-past-end", "pointer-chase", "load-use", "self-branch", "dist-2",
        "dist-3", "ecall-behind-load", "store-load-same-word",
    ]

    def fault_snippet(self, p):
        """One F-instr (a faulting instruction) and its placement."""
        r = self.rf
        a = next((x for x in self.pool if x != 0), 1)
        B = self.B
        kind = r.choice(["below-0x4000", "wrap-2^32", "word-crossing", "bad-ecall"])
        if kind == "below-0x4000":
            f = r.choice([["LW", a, 0, r.choice([0, 4, 2044])], ["SW", a, 0, 8], ["LB", a, 0, 1], ["SH", a, 0, 2]])
            pre = []
        elif kind == "wrap-2^32":
            pre = [["ADDI", a, 0, -2]]  # 0xFFFFFFFE
            f = r.choice([["LW", a, a, 0], ["SW", a, a, 0], ["LH", a, a, 1], ["SW", 0, a, 1]])
        elif kind == "word-crossing":  # only a fault when a data cache is configured
            pre = []
            f = r.choice([["LW", a, B, 1], ["SW", a, B, 2], ["LH", a, B, 3], ["SH", a, B, 7], ["LHU", a, B, -1], ["SW", a, B, 3]])
        else:
            pre = [["ADDI", 17, 0, r.choice([0, 3, 5, 9, 12, 94, 2047])]]
            f = ["ECALL"]
        placement = r.choice(["plain", "wrong-path", "interlock-window", "behind-print", "before-exit", "behind-store"])
        if placement == "plain":
            sn = pre + [f]
        elif placement == "wrong-path":
            sn = pre + [["BEQ", 0, 0, p + len(pre) + 2], f]
        elif placement == "interlock-window":
            sn = pre + [["ADDI", a, a, 0]] + ([["NOP"]] if r.random() < 0.5 else []) + [f]
        elif placement == "behind-print":
            sn = [["ADDI", 17, 0, 1], ["ECALL"]] + pre + [f]
        elif placement == "before-exit":
            sn = pre + [f, ["ADDI", 17, 0, 10], ["ECALL"]]
        else:
            sn = [["SW", a, B, 0]] + pre + [f]
        return {"kind": kind, "placement": placement, "at": p, "len": len(sn)}, sn

    # ---- initial state
    def init(self):
        ri = self.ri
        regs = {}
        for x in set(self.pool + [10, 11]):
            if x == 0:
                continue
            k = ri.random()
            regs[str(x)] = (
                ri.choice(BOUNDARY) if k < 0.45 else ri.randint(0, 40) if k < 0.7 else ri.getrandbits(32)
            )
        bval = ri.choice([DATA_MIN + 64] * 6 + [DATA_MIN + 32, 0x10000, 0x7FFFFFC0, 0xFFFFFF80])
        regs[str(self.B)] = bval
        regs[str(self.C)] = ri.choice([0, 4, 8, 12, 16, 20, 24, 28, 32, 40])
        regs["17"] = ri.choice(PRINT_CODES * 3 + [4] + ([10, 93] if ri.random() < self.exit_rate else []))
        mem = {}
        for off in range(-32, 64):
            if ri.random() < 0.5:
                mem[str((bval + off) & 0xFFFFFFFF)] = ri.getrandbits(8)
        # a valid pointer at B+8 (pointer chase) and a zero-terminated string
        ptr = bval + 16
        for j in range(4):
            mem[str((bval + 8 + j) & 0xFFFFFFFF)] = (ptr >> (8 * j)) & 0xFF
        if ri.random() < 0.5:
            s = bval + 40
            for j, ch in enumerate(b"hi!"):
                mem[str((s + j) & 0xFFFFFFFF)] = ch
            mem[str((s + 3) & 0xFFFFFFFF)] = 0
            if regs["17"] == 4 or ri.random() < 0.3:
                regs["10"] = s
        return regs, mem

    def config(self):
        rp = self.rp
        return {
            "hz": True,
            "dc_on": rp.random() < 0.5,
            "dc": gen_cache(rp, True),
            "ic_on": rp.random() < 0.4,
            "ic": gen_cache(rp, False),
            "decoy": rp.random() < 0.3,
            "probe_before_load": rp.random() < 0.4,
            "via_state": rp.random() < 0.2,
        }


def generate(seed, faults=True, force_shape=None, fault_rate=0.25, long=False):
    g = _G(seed, faults, force_shape, fault_rate, long)
    g.gen_program()
    r = g.r
    if g.shape != "independent":
        if r.random() < 0.5:
            for _ in range(r.randint(1, 2)):
                which = r.choice(_G.MOTIFS)
                p = r.randint(0, len(g.prog))
                g.splice(p, g.motif(which, p))
                g.plan["motifs"].append({"which": which, "at": p})
        if g.faults_on:
            p = g.rf.randint(0, len(g.prog))
            info, sn = g.fault_snippet(p)
            g.splice(p, sn)
            g.plan["faults"].append(info)
        if r.random() < g.exit_rate:
            g.prog += [["ADDI", 17, 0, r.choice(EXIT_CODES)], ["ECALL"]]
    regs, mem = g.init()
    prog = g.prog[: (120 if long else 40)]
    cfg = g.config()
    if long:
        cfg["cap"] = 12000 if g.marathon else 2000
        # motifs are spliced more often into long programs (never into the independent family)
        for _ in range(g.r.randint(1, 4) if g.shape != "independent" else 0):
            which = g.r.choice(_G.MOTIFS)
            p = g.r.randint(0, len(prog))
            g.prog = prog
            g.splice(p, g.motif(which, p))
            prog = g.prog[:120]
            g.plan["motifs"].append({"which": which, "at": p})
    if g.shape != "independent" and g.r.random() < 0.1:
        # the program ends in a control transfer (taken to just behind the end, further out, or not taken)
        n = len(prog)
        a = next((x for x in g.pool if x != 0), 1)
        tail = g.r.choice([["BEQ", 0, 0, n + 1], ["BEQ", 0, 0, n + 2], ["BNE", 0, 0, 0], ["JAL", a, n + 1], ["BGEU", a, a, n + 3]])
        prog = prog + [tail]
        g.plan["motifs"].append({"which": "control-transfer-last", "at": n})
    return {"prog": prog, "regs": regs, "mem": mem, "cfg": cfg, "plan": g.plan}
