"""Differential demo for property C02 (five-stage pipeline with hazard detection
is equivalent to single-cycle mode).

Generates a few hundred random structured RV32IM programs (fixed seeds) with
random initial registers / data memory, runs each one in single_stage_pipeline
mode and in five_stage_pipeline mode (hazard detection on) and prints, per
program, a digest of everything the property talks about:

  final registers, data memory, console output, exit code, retired-instruction
  count, taken-branch count, call count, order of retired instructions, and -
  if an instruction faults - the reported faulting address together with
  registers / memory / output at that point.

Nothing the property leaves open (cycles, stalls, flushes, final pc, exception
text, contents of pipeline registers) goes into the digest.

Emphasis of this demo: situations in which several stages touch the
architectural state in the same cycle (a store in MEM directly in front of a
string-printing ecall, a0/a7 written back directly in front of an ecall, a
faulting load/store with printing or exiting ecalls and stores right behind it,
a taken branch / jump with stores and ecalls in its shadow), i.e. everything
that could depend on the order in which the stages are evaluated.

Usage:  PYTHONPATH=<worktree> python demo_1.py
"""
import hashlib
import random
import sys

from architecture_simulator.simulation.riscv_simulation import RiscvSimulation
from architecture_simulator.simulation.runtime_errors import (
    InstructionExecutionException,
)
import fixedint

N_PROGRAMS = 400
MASTER_SEED = 20260927
MAX_SINGLE_STEPS = 3000
DATA_BASE = 2**14

POOL = [5, 6, 7, 10, 11, 12, 17]  # small pool -> dense hazards; a0=x10, a7=x17
BASES = [8, 9]  # hold valid data addresses
LOOPREG = 15
LINKS = [1, 13]

RTYPE = ["add", "sub", "sll", "slt", "sltu", "xor", "srl", "sra", "or", "and",
         "mul", "mulh", "mulhu", "mulhsu", "div", "divu", "rem", "remu"]
ITYPE = ["addi", "slti", "sltiu", "xori", "ori", "andi"]
SHIFTI = ["slli", "srli", "srai"]
LOADS = ["lb", "lh", "lw", "lbu", "lhu"]
STORES = ["sb", "sh", "sw"]
BRANCHES = ["beq", "bne", "blt", "bge", "bltu", "bgeu"]
PRINT_CODES = [1, 11, 34, 35, 36]


class Gen:
    def __init__(self, rng):
        self.rng = rng
        self.lines = []
        self.nlabel = 0

    def label(self):
        self.nlabel += 1
        return f"L{self.nlabel}"

    def reg(self, allow_zero=True):
        r = self.rng
        if allow_zero and r.random() < 0.08:
            return 0
        return r.choice(POOL)

    def emit(self, s):
        self.lines.append(s)

    def alu(self):
        r = self.rng
        k = r.random()
        if k < 0.45:
            self.emit(f"{r.choice(RTYPE)} x{self.reg()}, x{self.reg()}, x{self.reg()}")
        elif k < 0.8:
            self.emit(f"{r.choice(ITYPE)} x{self.reg()}, x{self.reg()}, {r.randint(-2048, 2047)}")
        elif k < 0.9:
            self.emit(f"{r.choice(SHIFTI)} x{self.reg()}, x{self.reg()}, {r.randint(0, 31)}")
        elif k < 0.95:
            self.emit(f"lui x{self.reg()}, {r.randint(0, 2**20 - 1)}")
        else:
            self.emit(f"auipc x{self.reg()}, {r.randint(0, 2**20 - 1)}")

    def load(self):
        r = self.rng
        self.emit(f"{r.choice(LOADS)} x{self.reg()}, {r.randint(0, 40)}(x{r.choice(BASES)})")

    def store(self):
        r = self.rng
        self.emit(f"{r.choice(STORES)} x{self.reg()}, {r.randint(0, 40)}(x{r.choice(BASES)})")

    def print_ecall(self):
        r = self.rng
        code = r.choice(PRINT_CODES)
        # sometimes the producer of a0 / a7 is a load directly in front of the ecall
        if r.random() < 0.3:
            self.emit(f"lw x10, {4 * r.randint(0, 8)}(x{r.choice(BASES)})")
        self.emit(f"addi x17, x0, {code}")
        if r.random() < 0.3:
            self.emit(f"lbu x10, {r.randint(0, 30)}(x{r.choice(BASES)})")
        self.emit("ecall")

    def string_ecall(self):
        # prints the zero-terminated string at x8 + 32 (initial memory has a 0 at +39 at the latest)
        self.emit("addi x10, x8, 32")
        self.emit("addi x17, x0, 4")
        self.emit("ecall")

    def exit_ecall(self):
        r = self.rng
        if r.random() < 0.5:
            self.emit("addi x17, x0, 10")
        else:
            self.emit(f"addi x10, x0, {r.randint(0, 200)}")
            self.emit("addi x17, x0, 93")
        self.emit("ecall")

    def fault(self):
        r = self.rng
        k = r.random()
        if k < 0.4:
            self.emit(f"{r.choice(LOADS)} x{self.reg()}, {r.randint(0, 2047)}(x0)")
        elif k < 0.8:
            self.emit(f"{r.choice(STORES)} x{self.reg()}, {r.randint(0, 2047)}(x0)")
        else:
            self.emit(f"addi x17, x0, {r.choice([0, 3, 5, 12, 94])}")
            self.emit("ecall")

    def simple(self):
        r = self.rng
        k = r.random()
        if k < 0.6:
            self.alu()
        elif k < 0.78:
            self.load()
        elif k < 0.92:
            self.store()
        else:
            self.print_ecall()

    def fwd_branch(self, depth):
        r = self.rng
        lab = self.label()
        self.emit(f"{r.choice(BRANCHES)} x{self.reg()}, x{self.reg()}, {lab}")
        for _ in range(r.randint(0, 4)):
            self.block(depth + 1)
        self.emit(f"{lab}:")

    def loop(self, depth):
        r = self.rng
        lab = self.label()
        self.emit(f"addi x{LOOPREG}, x0, {r.randint(1, 3)}")
        self.emit(f"{lab}:")
        for _ in range(r.randint(1, 4)):
            self.simple()
        self.emit(f"addi x{LOOPREG}, x{LOOPREG}, -1")
        if r.random() < 0.5:
            self.emit(f"bne x{LOOPREG}, x0, {lab}")
        else:
            self.emit(f"blt x0, x{LOOPREG}, {lab}")

    def jal_skip(self):
        r = self.rng
        lab = self.label()
        self.emit(f"jal x{r.choice(LINKS + [0])}, {lab}")
        for _ in range(r.randint(0, 3)):
            self.simple()  # never executed
        self.emit(f"{lab}:")

    def jalr_skip(self):
        r = self.rng
        skip = r.randint(0, 3)
        t = r.choice(POOL)
        off = 8 + 4 * skip
        odd = r.choice([0, 0, 1])  # lowest bit must be cleared by jalr
        self.emit(f"auipc x{t}, 0")
        self.emit(f"jalr x{r.choice(LINKS + [0, t])}, x{t}, {off + odd}")
        for _ in range(skip):
            self.alu()  # never executed

    def block(self, depth=0):
        r = self.rng
        k = r.random()
        if depth >= 2 or k < 0.62:
            self.simple()
        elif k < 0.76:
            self.fwd_branch(depth)
        elif k < 0.84:
            self.loop(depth)
        elif k < 0.90:
            self.jal_skip()
        elif k < 0.95:
            self.jalr_skip()
        elif k < 0.97:
            self.call()
        elif k < 0.975:
            self.string_ecall()
        elif k < 0.99:
            self.store_then_print_string()
        else:
            self.hazard_chain()

    def side_effects(self):
        """1-4 instructions with externally visible effects (stores, prints, exits)."""
        r = self.rng
        for _ in range(r.randint(1, 4)):
            k = r.random()
            if k < 0.4:
                self.store()
            elif k < 0.6:
                self.emit(f"addi x17, x0, {r.choice(PRINT_CODES)}")
                self.emit("ecall")
            elif k < 0.7:
                self.emit("ecall")  # with whatever is in a7 right now
            elif k < 0.8:
                self.store_then_print_string()
            elif k < 0.9:
                self.exit_ecall()
            else:
                self.alu()

    def store_then_print_string(self):
        """the string printed by the ecall is modified by the store directly in front of it."""
        r = self.rng
        self.emit("addi x10, x8, 32")
        self.emit("addi x17, x0, 4")
        self.emit(f"{r.choice(STORES)} x{r.choice(POOL)}, {32 + r.randint(0, 3)}(x8)")
        self.emit("ecall")

    def hazard_chain(self):
        """producer, 0-3 independent fillers, consumer on rs1 only / rs2 only / both."""
        r = self.rng
        p = r.choice(POOL)
        others = [x for x in POOL if x != p]
        if r.random() < 0.5:
            self.emit(f"lw x{p}, {4 * r.randint(0, 8)}(x{r.choice(BASES)})")
        else:
            self.emit(f"addi x{p}, x{r.choice(others)}, {r.randint(-5, 5)}")
        for _ in range(r.randint(0, 3)):
            a, b, c = (r.choice(others) for _ in range(3))
            self.emit(f"xor x{a}, x{b}, x{c}")
        d, o = r.choice(others), r.choice(others)
        k = r.randint(0, 4)
        if k == 0:
            self.emit(f"sub x{d}, x{p}, x{o}")
        elif k == 1:
            self.emit(f"sub x{d}, x{o}, x{p}")
        elif k == 2:
            self.emit(f"sw x{p}, 12(x{r.choice(BASES)})")
        elif k == 3:
            lab = self.label()
            self.emit(f"beq x{o}, x{p}, {lab}")
            self.alu()
            self.emit(f"{lab}:")
        else:
            self.emit(f"add x{d}, x{p}, x{p}")

    def call(self):
        self.emit(f"jal x1, F{self.rng.randint(0, 1)}")
        self.calls = True

    def program(self):
        r = self.rng
        n = r.randint(4, 28)
        fault_at = r.randint(0, n) if r.random() < 0.45 else None
        exit_at = r.randint(0, n) if r.random() < 0.35 else None
        for i in range(n):
            if i == fault_at:
                if r.random() < 0.5:
                    self.side_effects()  # older than the fault: must all be visible
                self.fault()
                self.side_effects()  # younger than the fault: must not be visible
            if i == exit_at:
                self.exit_ecall()
                self.side_effects()  # younger than the exiting ecall
            self.block()
        if r.random() < 0.7:
            self.exit_ecall()
        else:
            self.emit("jal x0, END")
        # two leaf functions
        for f in range(2):
            self.emit(f"F{f}:")
            for _ in range(r.randint(0, 3)):
                self.simple()
            self.emit("jalr x0, x1, 0")
        self.emit("END:")
        return "\n".join(self.lines) + "\n"


def make_case(seed):
    rng = random.Random(seed)
    prog = Gen(rng).program()
    regs = {}
    for x in POOL:
        regs[x] = rng.choice([0, 1, 2, 0xFFFFFFFF, 0x80000000, rng.getrandbits(32), rng.randint(0, 9)])
    regs[8] = DATA_BASE + rng.randint(0, 64)
    regs[9] = DATA_BASE + 4 * rng.randint(0, 16)
    mem = {}
    for a in range(DATA_BASE, DATA_BASE + 160):
        if rng.random() < 0.7:
            mem[a] = rng.randint(0, 255)
    for a in range(regs[8] + 39, regs[8] + 41):
        mem[a] = 0
    return prog, regs, mem


def run(mode, prog, regs, mem, max_steps):
    sim = RiscvSimulation(mode=mode, detect_data_hazards=True)
    sim.load_program(prog)
    st = sim.state
    for x, v in regs.items():
        st.register_file.registers[x] = fixedint.UInt32(v)
    for a, v in mem.items():
        st.memory.write_byte(a, fixedint.UInt8(v))
    retired = []
    fault = None
    steps = 0
    five = mode == "five_stage_pipeline"
    while not sim.is_done():
        if steps >= max_steps:
            return None, steps
        before = st.performance_metrics.instruction_count
        try:
            sim.step()
        except InstructionExecutionException as e:
            if five and st.performance_metrics.instruction_count > before:
                # the write-back stage retired an (older) instruction in the faulting cycle
                retired.append(st.pipeline.pipeline_registers[3].address_of_instruction)
            fault = e.address
            break
        steps += 1
        if five:
            if st.performance_metrics.instruction_count > before:
                retired.append(st.pipeline.pipeline_registers[-1].address_of_instruction)
        else:
            if st.performance_metrics.instruction_count > before:
                retired.append(st.previous_program_counter)
    pm = st.performance_metrics
    memory = sorted((a, int(v)) for a, v in st.memory.memory_file.items() if int(v) != 0)
    result = {
        "regs": [int(x) for x in st.register_file.registers],
        "mem": memory,
        "out": st.output,
        "exit": st.exit_code,
        "fault": fault,
        "retired": retired,
        # single-cycle mode counts a faulting instruction before executing it, the
        # pipeline never retires it; the property only pins the count for runs that end
        "n_retired": pm.instruction_count if fault is None else len(retired),
        "branches": pm.branch_count,
        "calls": pm.procedure_count,
    }
    return result, steps


def digest(obj):
    return hashlib.sha256(repr(obj).encode()).hexdigest()[:16]


def main():
    master = random.Random(MASTER_SEED)
    seeds = [master.getrandbits(32) for _ in range(N_PROGRAMS)]
    total = hashlib.sha256()
    agree = disagree = skipped = faults = exits = 0
    retired_total = 0
    for i, seed in enumerate(seeds):
        prog, regs, mem = make_case(seed)
        single, steps = run("single_stage_pipeline", prog, regs, mem, MAX_SINGLE_STEPS)
        if single is None:
            skipped += 1
            print(f"{i:03d} seed={seed:08x} skipped (single-cycle does not terminate in {MAX_SINGLE_STEPS} steps)")
            continue
        five, _ = run("five_stage_pipeline", prog, regs, mem, 6 * steps + 50)
        if five is None:
            same = False
            dfive = "NOT-TERMINATED"
        else:
            same = single == five
            dfive = digest(five)
        agree += same
        disagree += not same
        faults += single["fault"] is not None
        exits += single["exit"] is not None
        retired_total += len(single["retired"])
        line = (
            f"{i:03d} seed={seed:08x} single={digest(single)} five={dfive} "
            f"{'same' if same else 'DIFFERENT'} retired={len(single['retired'])} "
            f"br={single['branches']} calls={single['calls']} exit={single['exit']} "
            f"fault={single['fault']} outlen={len(single['out'])}"
        )
        if not same and five is not None:
            line += " differing=" + ",".join(k for k in single if single[k] != five[k])
        print(line)
        total.update(line.encode())
    print(
        f"SUMMARY programs={N_PROGRAMS} same={agree} different={disagree} skipped={skipped} "
        f"faulting={faults} exiting={exits} retired_total={retired_total} digest={total.hexdigest()[:32]}"
    )
    return 0


if __name__ == "__main__":
    sys.exit(main())
