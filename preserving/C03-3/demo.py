#!/usr/bin/env python
"""Differential check for property C03 (data cache transparency).

Prints only things the property pins down (values returned by reads through the
cached memory, accepted/rejected status of accesses, the full memory view after a
rejected access, registers/output/exit code of programs with and without a data
cache), plus - for histories WITHOUT rejected accesses - the hit/access counters
as additional evidence that the replacement behaviour is untouched.

Run:  cd /tmp/wtR_C03 && PYTHONPATH=/tmp/wtR_C03 /venv/bin/python demo_3.py
Output must be byte-identical on the unchanged and on the changed tree.
"""
import hashlib
import random
import sys
import warnings

warnings.filterwarnings("ignore")

from fixedint import UInt8, UInt16, UInt32

from architecture_simulator.uarch.memory.memory import Memory, AddressingType
from architecture_simulator.uarch.memory.write_back_memory_system import (
    WriteBackMemorySystem,
)
from architecture_simulator.uarch.memory.write_through_memory_system import (
    WriteThroughMemorySystem,
)
from architecture_simulator.uarch.memory.cache import CacheOptions
from architecture_simulator.uarch.memory.decoded_address import DecodedAddress
from architecture_simulator.uarch.riscv.riscv_performance_metrics import (
    RiscvPerformanceMetrics,
)
from architecture_simulator.simulation.riscv_simulation import RiscvSimulation

# Also digest the GUI representation of the cache (tags, valid bits, block contents,
# replacement status - NOT the dirty bits, which the property does not talk about)
# at the end of every within-word history, and the contents of LOWER memory:
# every block that is not in the cache must already be up to date below the cache
# (no write-back may ever get lost), and the byte-wise view of lower memory is digested.
INCLUDE_CACHE_REPR = True

WIDTH = {"b": 1, "h": 2, "w": 4}
CLS = {"b": UInt8, "h": UInt16, "w": UInt32}


def make_system(rng):
    idx = rng.randrange(0, 4)
    blk = rng.randrange(0, 3)
    strat = rng.choice(["lru", "plru"])
    assoc = rng.choice([1, 2, 4, 8]) if strat == "plru" else rng.choice([1, 2, 3, 4, 5])
    policy = rng.choice(["wb", "wt"])
    penalty = rng.choice([0, 1, 7, 50])
    lower = Memory(AddressingType.BYTE, 32, True)
    flat = Memory(AddressingType.BYTE, 32, True)
    cls = WriteBackMemorySystem if policy == "wb" else WriteThroughMemorySystem
    system = cls(
        memory=lower,
        num_index_bits=idx,
        num_block_bits=blk,
        associativity=assoc,
        performance_metrics=RiscvPerformanceMetrics(),
        miss_penality=penalty,
        replacement_strategy=strat,
    )
    # address universe: enough words to overflow the cache ~2.5 times
    capacity_words = (2**idx) * (2**blk) * assoc
    n_words = max(8, int(capacity_words * 2.5))
    base = rng.choice([0, 1 << 14, 0x7FFF0000, 0xFFFFF000]) & ~((4 << blk) - 1)
    return system, lower, flat, base, n_words, (idx, blk, assoc, policy, strat, penalty)


def read(mem, kind, addr, counted=None):
    f = {"b": mem.read_byte, "h": mem.read_halfword, "w": mem.read_word}[kind]
    if counted is None:
        return int(f(addr))
    return int(f(addr, counted))


def write(mem, kind, addr, val, direct=None):
    f = {"b": mem.write_byte, "h": mem.write_halfword, "w": mem.write_word}[kind]
    v = CLS[kind](val)
    if direct is None:
        f(addr, v)
    else:
        f(addr, v, direct)


def sweep_mismatches(system, flat, base, n_words):
    """Full view of the memory through the cache (uncounted reads) vs flat."""
    bad = 0
    for a in range(base, base + 4 * n_words):
        if read(system, "b", a, False) != read(flat, "b", a):
            bad += 1
    return bad


def history(seed, allow_crossing):
    rng = random.Random(seed)
    system, lower, flat, base, n_words, cfg = make_system(rng)
    trace = [cfg, base, n_words]
    # data preloaded below the cache
    for _ in range(rng.randrange(0, n_words)):
        a = base + 4 * rng.randrange(n_words)
        v = rng.getrandbits(32)
        if rng.random() < 0.5:
            lower.write_word(a, UInt32(v))
        else:
            write(system, "w", a, v, True)
        flat.write_word(a, UInt32(v))
    n_reads = n_err = n_mismatch = 0
    for _ in range(rng.randrange(60, 160)):
        kind = rng.choice("bhw")
        word = base + 4 * rng.randrange(n_words)
        max_off = 4 - WIDTH[kind]
        if allow_crossing and kind != "b" and rng.random() < 0.15:
            off = rng.randrange(max_off + 1, 4)
        else:
            off = rng.randrange(0, max_off + 1)
        addr = word + off
        crossing = off > max_off
        is_read = rng.random() < 0.5
        val = rng.getrandbits(8 * WIDTH[kind])
        counted = rng.choice([None, True, False])
        try:
            if is_read:
                got = read(system, kind, addr, counted)
                want = read(flat, kind, addr)
                n_reads += 1
                if got != want:
                    n_mismatch += 1
                trace.append(("r", kind, addr, got))
            else:
                write(system, kind, addr, val)
                write(flat, kind, addr, val)
                trace.append(("w", kind, addr, val))
            if crossing:
                trace.append("CROSSING ACCESS WAS NOT REJECTED")
                n_mismatch += 1
        except Exception:
            if not crossing:
                raise
            n_err += 1
            # a rejected access leaves every stored value unchanged
            bad = sweep_mismatches(system, flat, base, n_words)
            n_mismatch += bad
            trace.append(("rejected", "r" if is_read else "w", kind, addr, bad))
    bad = sweep_mismatches(system, flat, base, n_words)
    n_mismatch += bad
    trace.append(("final", bad))
    stats = None
    lost = 0
    idx, blk = cfg[0], cfg[1]
    lower_view = []
    for a in range(base, base + 4 * n_words):
        below = read(lower, "b", a)
        lower_view.append(below)
        if not system.cache.contains(DecodedAddress(idx, blk, a)):
            if below != read(flat, "b", a):
                lost += 1
    n_mismatch += lost
    trace.append(("lost_write_backs", lost))
    if not allow_crossing:
        trace.append(hashlib.sha256(bytes(lower_view)).hexdigest())
        stats = (system.hits, system.accesses, system.get_cache_stats()["last_hit"])
        trace.append(stats)
        if INCLUDE_CACHE_REPR:
            trace.append(
                [
                    (
                        s.index,
                        [int(x) for x in s.replacement_status],
                        [
                            (b.valid_bit, b.tag, b.address_value_list)
                            for b in s.blocks
                        ],
                    )
                    for s in system.cache_repr().sets
                ]
            )
    return trace, n_reads, n_err, n_mismatch, stats


def part_a():
    for name, seeds, crossing in (
        ("within-word histories", range(1000, 1250), False),
        ("histories with word-crossing accesses", range(5000, 5250), True),
    ):
        h = hashlib.sha256()
        reads = errs = mism = hits = acc = 0
        for seed in seeds:
            trace, r, e, m, stats = history(seed, crossing)
            h.update(repr(trace).encode())
            reads += r
            errs += e
            mism += m
            if stats:
                hits += stats[0]
                acc += stats[1]
        line = f"A: {name}: n={len(seeds)} reads={reads} rejected={errs} mismatches_vs_flat={mism}"
        if not crossing:
            line += f" hits={hits} accesses={acc}"
        print(line)
        print(f"   digest={h.hexdigest()}")


# ---------------------------------------------------------------- programs


def gen_program(rng):
    n_words = 32
    data = ", ".join(str(rng.getrandbits(32)) for _ in range(n_words))
    lines = [".data", f"buf: .word {data}", 'msg: .string "ok!"', ".text", "la x5, buf"]
    regs = [6, 7, 8, 9, 11, 12, 13, 14]
    for r in regs:
        lines.append(f"lui x{r}, {rng.randrange(0, 1 << 20)}")
        lines.append(f"addi x{r}, x{r}, {rng.randrange(-2048, 2048)}")
    for _ in range(rng.randrange(30, 70)):
        c = rng.random()
        if c < 0.35:
            k = rng.choice(["sb", "sh", "sw"])
            al = {"sb": 1, "sh": 2, "sw": 4}[k]
            off = rng.randrange(0, 4 * n_words // al) * al
            lines.append(f"{k} x{rng.choice(regs)}, {off}(x5)")
        elif c < 0.8:
            k = rng.choice(["lb", "lbu", "lh", "lhu", "lw"])
            al = {"lb": 1, "lbu": 1, "lh": 2, "lhu": 2, "lw": 4}[k]
            off = rng.randrange(0, 4 * n_words // al) * al
            lines.append(f"{k} x{rng.choice(regs)}, {off}(x5)")
        else:
            op = rng.choice(["add", "sub", "xor", "or", "and", "mul"])
            lines.append(
                f"{op} x{rng.choice(regs)}, x{rng.choice(regs)}, x{rng.choice(regs)}"
            )
    # print a register, print the string (read through the data memory), exit
    lines += [
        "addi x17, x0, 1",
        f"add x10, x0, x{rng.choice(regs)}",
        "ecall",
        "addi x17, x0, 4",
        "la x10, msg",
        "ecall",
        "addi x17, x0, 93",
        f"addi x10, x0, {rng.randrange(0, 200)}",
        "ecall",
    ]
    return "\n".join(lines)


def run_program(prog, mode, cache):
    sim = RiscvSimulation(mode=mode, data_cache=cache)
    sim.load_program(prog)
    steps = 0
    while not sim.is_done():
        sim.step()
        steps += 1
        if steps > 5000:
            raise RuntimeError("program did not terminate")
    return (
        tuple(int(r) for r in sim.state.register_file.registers),
        sim.get_output(),
        sim.get_exit_code(),
    )


def part_b():
    rng = random.Random(77)
    h = hashlib.sha256()
    runs = diffs = 0
    off = CacheOptions(False, 0, 0, 1, "wb", "lru", 0)
    for _ in range(40):
        prog = gen_program(rng)
        for mode in ("single_stage_pipeline", "five_stage_pipeline"):
            ref = run_program(prog, mode, off)
            h.update(repr((mode, ref)).encode())
            for _ in range(3):
                strat = rng.choice(["lru", "plru"])
                cache = CacheOptions(
                    True,
                    rng.randrange(0, 3),
                    rng.randrange(0, 3),
                    rng.choice([1, 2, 4]) if strat == "plru" else rng.choice([1, 2, 3]),
                    rng.choice(["wb", "wt"]),
                    strat,
                    rng.choice([0, 3, 20]),
                )
                got = run_program(prog, mode, cache)
                runs += 1
                if got != ref:
                    diffs += 1
                h.update(repr(got).encode())
    print(f"B: programs: cached_runs={runs} differing_from_uncached={diffs}")
    print(f"   digest={h.hexdigest()}")


if __name__ == "__main__":
    part_a()
    part_b()
    sys.exit(0)
