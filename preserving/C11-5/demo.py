"""Differential check for property C11 (instruction cache transparency and
fetch accounting), with the emphasis on sequences of program loads: several
programs per simulation object, reloads after aborted runs, and repeated
resets of a bare InstructionMemoryCacheSystem.  Self-contained; prints a digest of everything the property
talks about.  The output must be identical on the unchanged and on the changed
source tree.

Run:  cd /tmp/wtR2_C11 && PYTHONPATH=/tmp/wtR2_C11 /venv/bin/python /tmp/outR2_C11/demo_2.py
"""
import hashlib
import random
import sys

from architecture_simulator.simulation.riscv_simulation import RiscvSimulation
from architecture_simulator.uarch.memory.cache import CacheOptions
from architecture_simulator.uarch.memory.instruction_memory import InstructionMemory
from architecture_simulator.uarch.memory.instruction_memory_cache_system import (
    InstructionMemoryCacheSystem,
)
from architecture_simulator.uarch.riscv.riscv_performance_metrics import (
    RiscvPerformanceMetrics,
)
from architecture_simulator.isa.riscv.rv32i_instructions import ADDI

MODES = ["single_stage_pipeline", "five_stage_pipeline"]
GP = [5, 6, 7, 8, 9, 10, 11, 12, 13, 14, 15]
COUNTERS = [28, 29, 30]
MAX_STEPS = 6000


# --------------------------------------------------------------------------
# reference cache model (independent of the code under test)
# --------------------------------------------------------------------------
class RefCache:
    def __init__(self, index_bits, block_bits, assoc, policy):
        self.ib, self.bb, self.assoc, self.policy = index_bits, block_bits, assoc, policy
        self.tags = [[None] * assoc for _ in range(2**index_bits)]
        self.lru = [list(range(assoc)) for _ in range(2**index_bits)]
        self.tree = [[False] * max(assoc - 1, 0) for _ in range(2**index_bits)]
        self.depth = assoc.bit_length() - 1
        self.hits = 0
        self.accesses = 0

    def _touch(self, s, way):
        if self.policy == "lru":
            self.lru[s].remove(way)
            self.lru[s].append(way)
        else:
            i = way + self.assoc - 1
            for _ in range(self.depth):
                right = i % 2 == 1
                i = (i - 1) // 2
                self.tree[s][i] = right

    def _victim(self, s):
        if self.policy == "lru":
            return self.lru[s][0]
        i = 0
        for _ in range(self.depth):
            i = 2 * i + 2 if self.tree[s][i] else 2 * i + 1
        return i + 1 - self.assoc

    def access(self, address):
        self.accesses += 1
        s = (address >> (self.bb + 2)) & (2**self.ib - 1)
        tag = address >> (self.ib + self.bb + 2)
        if tag in self.tags[s]:
            self.hits += 1
            self._touch(s, self.tags[s].index(tag))
            return True
        way = self._victim(s)
        self.tags[s][way] = tag
        self._touch(s, way)
        return False


# --------------------------------------------------------------------------
# random program generator (terminating programs: counted loops, forward
# branches, forward jumps into the middle of blocks, calls, loads/stores)
# --------------------------------------------------------------------------
class Gen:
    def __init__(self, rng):
        self.rng = rng
        self.lines = []
        self.label = 0

    def new_label(self):
        self.label += 1
        return f"L{self.label}"

    def alu(self):
        r = self.rng
        k = r.randrange(7)
        rd, ra, rb = r.choice(GP), r.choice(GP), r.choice(GP)
        if k == 0:
            self.lines.append(f"addi x{rd}, x{ra}, {r.randrange(-2048, 2048)}")
        elif k == 1:
            op = r.choice(["add", "sub", "xor", "or", "and", "sll", "srl", "sra", "slt", "sltu"])
            self.lines.append(f"{op} x{rd}, x{ra}, x{rb}")
        elif k == 2:
            op = r.choice(["mul", "mulh", "mulhu", "div", "divu", "rem", "remu"])
            self.lines.append(f"{op} x{rd}, x{ra}, x{rb}")
        elif k == 3:
            op = r.choice(["xori", "ori", "andi", "slti"])
            self.lines.append(f"{op} x{rd}, x{ra}, {r.randrange(-2048, 2048)}")
        elif k == 4:
            self.lines.append(f"sw x{ra}, {4 * r.randrange(64)}(x31)")
        elif k == 5:
            self.lines.append(f"lw x{rd}, {4 * r.randrange(64)}(x31)")
        else:
            self.lines.append(f"lui x{rd}, {r.randrange(0, 2**20)}")

    def block(self, budget, depth):
        r = self.rng
        while budget > 0:
            k = r.randrange(10)
            if k < 5 or budget < 4:
                self.alu()
                budget -= 1
            elif k < 7 and depth < len(COUNTERS):
                # counted loop, body smaller or larger than the cache
                cnt = COUNTERS[depth]
                body = r.randrange(1, max(2, min(budget - 2, 40)))
                lab = self.new_label()
                self.lines.append(f"addi x{cnt}, x0, {r.randrange(1, 5)}")
                self.lines.append(f"{lab}:")
                self.block(body, depth + 1)
                self.lines.append(f"addi x{cnt}, x{cnt}, -1")
                self.lines.append(f"bne x{cnt}, x0, {lab}")
                budget -= body + 3
            elif k < 9:
                # forward conditional branch over 1..6 instructions
                lab = self.new_label()
                op = r.choice(["beq", "bne", "blt", "bge", "bltu", "bgeu"])
                self.lines.append(f"{op} x{r.choice(GP)}, x{r.choice(GP)}, {lab}")
                n = r.randrange(1, 7)
                for _ in range(n):
                    self.alu()
                self.lines.append(f"{lab}:")
                budget -= n + 1
            else:
                # unconditional forward jump (lands in the middle of some block)
                lab = self.new_label()
                self.lines.append(f"jal x0, {lab}")
                n = r.randrange(1, 5)
                for _ in range(n):
                    self.alu()
                self.lines.append(f"{lab}:")
                budget -= n + 1

    def program(self, size):
        r = self.rng
        self.lines = ["lui x31, 4"]
        for reg in r.sample(GP, 4):
            self.lines.append(f"addi x{reg}, x0, {r.randrange(-50, 50)}")
        nfun = r.randrange(0, 3)
        funs = [f"F{i}" for i in range(nfun)]
        main = size
        while main > 0:
            chunk = min(main, r.randrange(3, 25))
            self.block(chunk, 0)
            main -= chunk
            if funs and r.random() < 0.6:
                self.lines.append(f"jal x1, {r.choice(funs)}")
        self.lines.append("jal x0, End")
        for f in funs:
            self.lines.append(f"{f}:")
            for _ in range(r.randrange(1, 9)):
                self.alu()
            self.lines.append("jalr x0, x1, 0")
        self.lines.append("End:")
        self.lines.append("addi x0, x0, 0")
        return "\n".join(self.lines)


# --------------------------------------------------------------------------
# helpers
# --------------------------------------------------------------------------
def repr_cache(cache_repr):
    if cache_repr is None:
        return None
    return [
        (
            s.index,
            [
                (b.valid_bit, b.dirty_bit, b.tag, tuple(b.address_value_list))
                for b in s.blocks
            ],
            repr(s.replacement_status),
        )
        for s in cache_repr.sets
    ]


def random_options(rng):
    policy = rng.choice(["lru", "plru"])
    assoc = rng.choice([1, 2, 4, 8]) if policy == "plru" else rng.choice([1, 2, 3, 4, 5, 8])
    return CacheOptions(
        enable=True,
        num_index_bits=rng.randrange(0, 5),
        num_block_bits=rng.randrange(0, 4),
        associativity=assoc,
        cache_type="wb",
        replacement_strategy=policy,
        miss_penalty=rng.choice([0, 0, 1, 2, 3, 7, 10, 25]),
    )


def run_program(sim, ref=None, penalty=0, max_steps=None):
    """Steps the simulation to the end (or max_steps, an aborted run)."""
    trace = []
    problems = 0
    steps = 0
    pm = sim.state.performance_metrics
    max_steps = MAX_STEPS if max_steps is None else max_steps
    while not sim.is_done() and steps < max_steps:
        before_cycles = pm.cycles
        stats0 = sim.state.instruction_memory.get_cache_stats()
        pc_fetch = sim.state.program_counter
        will_fetch = sim.state.instruction_at_pc() and (
            sim.mode == "single_stage_pipeline" or sim.state.pipeline.stalled is None
        )
        sim.step()
        steps += 1
        stats = sim.state.instruction_memory.get_cache_stats()
        if stats is not None:
            acc = int(stats["accesses"]) - int(stats0["accesses"])
            hit = int(stats["hits"]) - int(stats0["hits"])
            trace.append((acc, hit, pm.cycles - before_cycles))
            if ref is not None:
                if acc == 1:
                    ref_hit = ref.access(pc_fetch)
                    if ref_hit != (hit == 1):
                        problems += 1
                    if pm.cycles - before_cycles != 1 + (0 if ref_hit else penalty):
                        problems += 1
                elif acc != 0:
                    problems += 1
                if acc != int(will_fetch):
                    problems += 1
        else:
            trace.append(pm.cycles - before_cycles)
    return trace, problems, steps


def final_state(sim):
    return (
        sim.get_register_entries(),
        sorted(sim.state.memory.wordwise_repr().items()),
        sim.state.output,
        sim.state.exit_code,
        sim.state.program_counter,
        sim.state.performance_metrics.instruction_count,
    )


# --------------------------------------------------------------------------
# part 1: whole programs, both modes, sequences of program loads
# --------------------------------------------------------------------------
def part_programs(h, n_cases, seed):
    rng = random.Random(seed)
    tot = dict(cases=0, steps=0, hits=0, accesses=0, cycles=0, problems=0, loads=0)
    for case in range(n_cases):
        opts = random_options(rng)
        n_loads = rng.choice([2, 3, 4, 5])
        abort_after = [rng.choice([None, None, 1, 7, 30, 100]) for _ in range(n_loads)]
        programs = [
            Gen(random.Random(rng.randrange(2**32))).program(rng.choice([6, 15, 40, 90, 160]))
            for _ in range(n_loads)
        ]
        for mode in MODES:
            cached = RiscvSimulation(mode=mode, instruction_cache=opts)
            plain = RiscvSimulation(mode=mode)
            for program, abort in zip(programs, abort_after):
                cached.load_program(program)
                plain.load_program(program)
                tot["loads"] += 1
                # nothing of the previous program may remain
                stats = cached.state.instruction_memory.get_cache_stats()
                after_load = (
                    stats["hits"],
                    stats["accesses"],
                    repr_cache(cached.get_instruction_cache_entries()),
                )
                if stats["hits"] != "0" or stats["accesses"] != "0":
                    tot["problems"] += 1
                if any(b[0] != "0" for s in after_load[2] for b in s[1]):
                    tot["problems"] += 1
                # load_program() keeps registers and program counter; the finished
                # pipeline is empty, so only the program counter has to be rewound
                ref = RefCache(
                    opts.num_index_bits,
                    opts.num_block_bits,
                    opts.associativity,
                    opts.replacement_strategy,
                )
                cached.state.program_counter = 0
                plain.state.program_counter = 0
                trace, problems, steps = run_program(
                    cached, ref, opts.miss_penalty, abort
                )
                ptrace, _, psteps = run_program(plain, max_steps=abort)
                stats = cached.state.instruction_memory.get_cache_stats()
                if (int(stats["hits"]), int(stats["accesses"])) != (ref.hits, ref.accesses):
                    problems += 1
                if final_state(cached) != final_state(plain) or steps != psteps:
                    problems += 1
                if mode == "single_stage_pipeline" and int(stats["accesses"]) != steps:
                    problems += 1
                record = (
                    case,
                    mode,
                    after_load,
                    trace,
                    final_state(cached),
                    stats["hits"],
                    stats["accesses"],
                    stats["last_hit"],
                    cached.get_instruction_cache_stats()["address"],
                    cached.state.performance_metrics.cycles,
                    plain.state.performance_metrics.cycles,
                    repr_cache(cached.get_instruction_cache_entries()),
                )
                h.update(repr(record).encode())
                tot["steps"] += steps
                tot["hits"] += int(stats["hits"])
                tot["accesses"] += int(stats["accesses"])
                tot["cycles"] += cached.state.performance_metrics.cycles
                tot["problems"] += problems
        tot["cases"] += 1
    return tot


# --------------------------------------------------------------------------
# part 2: the memory system on its own: random fetch sequences, resets, reloads
# --------------------------------------------------------------------------
def part_direct(h, n_cases, seed):
    rng = random.Random(seed)
    tot = dict(cases=0, fetches=0, hits=0, problems=0)
    for case in range(n_cases):
        opts = random_options(rng)
        pm = RiscvPerformanceMetrics()
        lower = InstructionMemory()
        sys_ = InstructionMemoryCacheSystem(
            lower,
            opts.num_index_bits,
            opts.num_block_bits,
            opts.associativity,
            pm,
            opts.miss_penalty,
            opts.replacement_strategy,
        )
        for load in range(rng.choice([2, 3, 4, 6])):
            for _ in range(rng.choice([1, 1, 2, 3])):
                sys_.reset()
            if rng.random() < 0.2:
                rec0 = repr_cache(sys_.cache_repr())
                h.update(repr(rec0).encode())
                if any(b[0] != "0" for s in rec0 for b in s[1]):
                    tot["problems"] += 1
            n = rng.randrange(1, 200)
            sys_.write_instructions([ADDI(rng.randrange(32), 0, (load * 1000 + i) % 2048) for i in range(n)])
            ref = RefCache(opts.num_index_bits, opts.num_block_bits, opts.associativity, opts.replacement_strategy)
            if sys_.hits != 0 or sys_.accesses != 0:
                tot["problems"] += 1
            pc = 0
            rec = []
            for _ in range(rng.randrange(1, 400)):
                k = rng.random()
                if k < 0.7:
                    pc = (pc + 4) % (4 * n)
                elif k < 0.85:
                    pc = 4 * rng.randrange(n)
                else:
                    pc = max(0, pc - 4 * rng.randrange(1, 12))
                c0 = pm.cycles
                instr = sys_.read_instruction(pc)
                ref_hit = ref.access(pc)
                if instr is not lower.read_instruction(pc):
                    tot["problems"] += 1
                if pm.cycles - c0 != (0 if ref_hit else opts.miss_penalty):
                    tot["problems"] += 1
                if (sys_.hits, sys_.accesses) != (ref.hits, ref.accesses):
                    tot["problems"] += 1
                rec.append((pc, str(instr), sys_.hits, sys_.accesses, sys_.last_was_hit, pm.cycles))
                if rng.random() < 0.02:
                    rec.append(repr_cache(sys_.cache_repr()))
                tot["fetches"] += 1
            tot["hits"] += sys_.hits
            rec.append(repr_cache(sys_.cache_repr()))
            rec.append(sorted(sys_.get_cache_stats().items()))
            h.update(repr((case, load, rec)).encode())
        tot["cases"] += 1
    return tot


def main():
    h = hashlib.sha256()
    t1 = part_programs(h, 70, 4242)
    print("programs :", t1)
    t2 = part_direct(h, 200, 99)
    print("direct   :", t2)
    print("digest   :", h.hexdigest())
    if t1["problems"] or t2["problems"]:
        print("PROPERTY VIOLATIONS SEEN (see 'problems')")
    return 0


if __name__ == "__main__":
    sys.exit(main())
