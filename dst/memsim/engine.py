"""memsim executor: drives the real Memory / WriteBack / WriteThrough systems with a
recorded history and checks the invariants of C03, C09, C10, C12 (cached) and
C18 (flat) after every operation.  The caller (normally the MEM stage) is the
simulator; nothing below it is stubbed.
"""
from ..core import findings
from ..core.batch import Batch
from ..core.result import Result
from ..core.rng import Hasher
from ..core.shrink import Budget, ddmin_list
from . import gen as G
from .models import ByteStore, RefCache, RefPolicy, MASK32, DATA_MIN

_W = {1: "byte", 2: "halfword", 4: "word", 8: "doubleword"}


def _imports():
    from fixedint import UInt8, UInt16, UInt32, UInt64
    from architecture_simulator.uarch.memory.memory import (
        Memory,
        AddressingType,
        MemoryAddressError,
    )
    from architecture_simulator.uarch.memory.write_back_memory_system import (
        WriteBackMemorySystem,
    )
    from architecture_simulator.uarch.memory.write_through_memory_system import (
        WriteThroughMemorySystem,
    )
    from architecture_simulator.uarch.riscv.riscv_performance_metrics import (
        RiscvPerformanceMetrics,
    )
    from architecture_simulator.util.integer_manipulation import ByteOffsetError
    from architecture_simulator.util.integer_representations import get_n_bit_representations

    return locals()


def make_sut(cfg):
    m = _imports()
    if cfg["kind"] == "toy":
        # the TOY memory exactly as the TOY architectural state builds it
        from architecture_simulator.uarch.toy.toy_architectural_state import ToyArchitecturalState

        return ToyArchitecturalState().memory, None
    if cfg["kind"] == "flat":
        # the uncached RISC-V data memory exactly as the RISC-V architectural state builds it
        from architecture_simulator.uarch.riscv.riscv_architectural_state import RiscvArchitecturalState
        from architecture_simulator.uarch.memory.cache import CacheOptions

        off = CacheOptions(False, 0, 0, 1, "wb", "lru", 0)
        return RiscvArchitecturalState(data_cache_options=off, instruction_cache_options=off).memory, None
    if cfg["kind"] == "flat-full":
        # the same store without a lower bound (first data address 0): every cell of a multi-cell access
        # wraps modulo 2^32 on its own
        return m["Memory"](m["AddressingType"].BYTE, 32, True), None
    mem = m["Memory"](m["AddressingType"].BYTE, 32, True, range(DATA_MIN, 2**32))
    if cfg["kind"] == "flat":
        return mem, None
    pm = m["RiscvPerformanceMetrics"]()
    cls = m["WriteBackMemorySystem"] if cfg["kind"] == "wb" else m["WriteThroughMemorySystem"]
    return cls(mem, cfg["ib"], cfg["bb"], cfg["ways"], pm, cfg["pen"], cfg["strat"]), pm


# ---- white-box reads (no side effects) ---------------------------------------


def impl_sets(sut, idxs):
    """{set index: ([(valid, tag) per way], strategy repr)} for the given sets (an operation can
    only affect the set its address maps to, so the sets a history addresses are enough)."""
    sets = sut.cache.sets
    return {
        k: (
            [(bool(b.valid_bit), b.decoded_address.tag) for b in sets[k].blocks],
            list(sets[k].replacement_strategy.get_repr()),
        )
        for k in idxs
    }


def impl_state_sig(sut, idxs):
    sets = sut.cache.sets
    return hash(
        tuple(
            (
                tuple((bool(b.valid_bit), bool(b.dirty_bit), b.decoded_address.tag) for b in sets[k].blocks),
                tuple(sets[k].replacement_strategy.get_repr()),
            )
            for k in idxs
        )
    )


def resident_words(sut, set_index=None):
    """word address -> value for every valid block (of one set or of all)."""
    out = {}
    if isinstance(set_index, (list, tuple, set)):
        sets = [sut.cache.sets[k] for k in set_index]
    else:
        sets = sut.cache.sets if set_index is None else [sut.cache.sets[set_index]]
    for st in sets:
        for b in st.blocks:
            if b.valid_bit:
                base = b.decoded_address.block_alinged_address
                for i, wd in enumerate(b.values):
                    out[base + 4 * i] = int(wd)
    return out


def backing_word(sut, wa):
    mf = sut.memory.memory_file
    return sum(int(mf.get((wa + j) & MASK32, 0)) << (8 * j) for j in range(4))


def logical_word(sut, wa, res=None):
    res = resident_words(sut) if res is None else res
    return res[wa] if wa in res else backing_word(sut, wa)


def counters(sut, pm):
    return (sut.hits, sut.accesses, bool(sut.last_was_hit), pm.cycles)


# ---- one operation -------------------------------------------------------------


def do_op(sut, op, m):
    """Perform one operation on the system under test. Every call into the SUT is
    wrapped: the outcome is data for the oracles, never a harness exception."""
    kind = op[0]
    try:
        if kind == "R":
            w, addr, counted = op[1], op[2], op[3]
            fn = getattr(sut, "read_" + _W[w])
            v = fn(addr, update_statistics=bool(counted))
            return ("ok", int(v))
        if kind == "W" or kind == "PRE":
            w, addr, val = op[1], op[2], op[3]
            cls = {1: m["UInt8"], 2: m["UInt16"], 4: m["UInt32"], 8: m["UInt64"]}[w]
            fn = getattr(sut, "write_" + _W[w])
            if kind == "PRE":
                fn(addr, cls(val), directly_write_to_lower_memory=True)
            else:
                fn(addr, cls(val))
            return ("ok", None)
        if kind == "RESET":
            sut.reset()
            return ("ok", None)
        if kind == "INSPECT":
            rep = sut.wordwise_repr() if hasattr(sut, "wordwise_repr") else None
            cr = sut.cache_repr()
            st = sut.get_cache_stats()
            return ("ok", (rep, cr is not None, st))
    except m["ByteOffsetError"]:
        return ("offset", None)
    except m["MemoryAddressError"]:
        return ("addr", None)
    except Exception as e:  # noqa: BLE001 - any other error is still "rejected", but recorded
        return ("exc:" + type(e).__name__, None)
    raise ValueError(f"unknown op {op!r}")


class _SetSpy:
    """Records the block accesses a memory system issues to its cache (instance-level wrappers around
    Cache.read_block / Cache.write_block; nothing in /repo is changed)."""

    def __init__(self):
        self.log = []

    def attach(self, sut):
        cache = sut.cache
        if getattr(cache, "_dst_spy", None) is self:
            return
        rb, wb = cache.read_block, cache.write_block
        log = self.log

        def way_of(st, values, tag):
            # which way did the set use?  by identity of the block's word list, else by tag
            for j, b in enumerate(st.blocks):
                if values is not None and b.values is values:
                    return j
            for j, b in enumerate(st.blocks):
                if b.valid_bit and b.decoded_address.tag == tag:
                    return j
            return None

        def read_block(da, _rb=rb):
            out = _rb(da)
            k = da.cache_set_index
            log.append(("RB", k, da.tag, out is not None, way_of(cache.sets[k], out, da.tag) if out is not None else None))
            return out

        def write_block(da, values, _wb=wb):
            out = _wb(da, values)
            k = da.cache_set_index
            hit = bool(out[0]) if isinstance(out, tuple) else None
            log.append(("WB", k, da.tag, hit, way_of(cache.sets[k], values, da.tag)))
            return out

        cache.read_block = read_block
        cache.write_block = write_block
        cache._dst_spy = self


class _LazyRefSets(dict):
    def __init__(self, ways, strat):
        super().__init__()
        self.ways, self.strat = ways, strat

    def __missing__(self, k):
        from .models import RefSet

        v = self[k] = RefSet(self.ways, self.strat)
        return v


def classify(cfg, op):
    """What the *statement* says about this access: ('ok'|'crossing'|'range', a)."""
    w, addr = op[1], op[2]
    a = addr & MASK32
    if (a & 3) + w > 4:
        return "crossing", a
    if a < DATA_MIN:
        return "range", a
    return "ok", a


def exec_cache(trace, prop) -> Result:
    m = _imports()
    cfg = trace["config"]
    res = Result()
    sut, pm = make_sut(cfg)
    # a decoy: a second memory system with the other write policy, other replacement policy and another
    # geometry, created after the one under observation and exercised alternately with it (state shared
    # between cache / memory objects only shows when objects with different settings coexist)
    decoy = None
    if trace.get("decoy"):
        dcfg = dict(cfg, kind="wt" if cfg["kind"] == "wb" else "wb", strat="plru" if cfg["strat"] == "lru" else "lru",
                    ways=2 if cfg["ways"] != 2 else 4, ib=(cfg["ib"] + 1) % 3, bb=(cfg["bb"] + 1) % 3, pen=cfg["pen"] + 1)
        try:
            decoy, _dpm = make_sut(dcfg)
        except Exception:  # noqa: BLE001
            decoy = None
    model = ByteStore()
    ref = RefCache(cfg["kind"], cfg["ib"], cfg["bb"], cfg["ways"], cfg["strat"])
    # the sets this history can address (incl. the neighbour word of a crossing access)
    idxs = set()
    for op in trace["ops"]:
        if op[0] in ("R", "W", "PRE"):
            idxs.add(ref.split(op[2] & MASK32)[0])
            idxs.add(ref.split((op[2] + op[1] - 1) & MASK32)[0])
    idxs = sorted(idxs)
    spy = _SetSpy()
    c10_sets = _LazyRefSets(cfg["ways"], cfg["strat"])
    if prop == "C10":
        spy.attach(sut)
    touched = set()  # word addresses
    hs = Hasher()
    accepted = 0
    prev_sig = impl_state_sig(sut, idxs)
    res.states.add(prev_sig)
    prev_op = None
    set_of = lambda a: ref.split(a)[0]  # noqa: E731
    block_bytes = 4 << cfg["bb"]

    def words_in_set(idx):
        return [wa for wa in touched if set_of(wa) == idx]

    def c12_check(i, idxs, around=None):
        """`around`: address of the access just made.  Histories over hundreds of different words (wide marathons) are
        swept completely every 40 operations and at the end; in between only the block just accessed is looked at (a lost
        or stale value stays lost until it is overwritten, so it is found a few operations later)."""
        rw = {}
        for idx in idxs:
            rw.update(resident_words(sut, idx))
        partial = around is not None and len(touched) > 300 and i % 40 != 0
        for idx in idxs:
            if partial:
                lo = (around & MASK32) - ((around & MASK32) % block_bytes)
                words = [wa for wa in range(lo, lo + block_bytes, 4) if wa in touched]
            else:
                words = words_in_set(idx)
            for wa in words:
                back = backing_word(sut, wa)
                want = model.read(wa, 4)
                if cfg["kind"] == "wt":
                    if back != want:
                        res.violate("C12", "wt-backing-stale", at=i, expected=want, got=back, word=wa)
                        return False
                    if wa in rw and rw[wa] != back:
                        res.violate("C12", "wt-resident-differs", at=i, expected=back, got=rw[wa], word=wa)
                        return False
                else:
                    if wa in rw:
                        if rw[wa] != want:
                            res.violate("C12", "wb-resident-wrong", at=i, expected=want, got=rw[wa], word=wa)
                            return False
                    elif back != want:
                        res.violate("C12", "wb-lost-value", at=i, expected=want, got=back, word=wa)
                        return False
        return True

    ops = trace["ops"]
    for i, op in enumerate(ops):
        kind = op[0]
        pre_ctr = counters(sut, pm)
        pre_sets = impl_sets(sut, idxs) if prop == "C09" or kind in ("R", "W") else None
        pre_logical = None
        cls = a = None
        if kind in ("R", "W"):
            cls, a = classify(cfg, op)
            if cls != "ok" and prop == "C03":
                rw = resident_words(sut, idxs)
                pre_logical = {wa: logical_word(sut, wa, rw) for wa in touched}
        if decoy is not None and kind in ("R", "W", "PRE"):
            dop = list(op)
            if kind != "R":
                dop[3] = (op[3] ^ 0x5A5A5A5A) & ((1 << (8 * op[1])) - 1)
            do_op(decoy, dop, m)
        out = do_op(sut, op, m)
        status, value = out
        post_ctr = counters(sut, pm)
        hs.add(i, kind, status, value if kind == "R" else None, post_ctr)
        rejected = status != "ok"

        # ---------------- bookkeeping common to all properties
        if kind in ("R", "W"):
            w = op[1]
            if not rejected:
                accepted += 1
                if kind == "W":
                    model.write(a, w, op[3])
                for j in range(w):
                    ba = (a + j) & MASK32
                    if ba >= DATA_MIN:
                        touched.add(ba & ~3)
            else:
                if cls == "ok":
                    res.probes["valid access rejected"] += 1
                if status.startswith("exc:"):
                    res.probes["rejected with unusual exception " + status] += 1
            if cls != "ok":
                res.faults["F-access:" + cls] += 1
            # probes
            idx, tag = ref.split(a)
            pre_blocks = pre_sets[idx][0]
            was_res = any(v and t == tag for v, t in pre_blocks)
            if cls == "crossing":
                res.probes[f"crossing {'read' if kind == 'R' else 'write'} on {'hit' if was_res else 'miss'} ({cfg['kind']})"] += 1
            if a in (DATA_MIN, 0xFFFFFFFC, 0xFFFFFFFF):
                res.probes["access at 0x%X" % a] += 1
            if not rejected and kind == "R" and not op[3] and not was_res:
                res.probes["uncounted read that misses"] += 1
            if not rejected and kind == "W" and w < 4:
                res.probes[f"sub-word write lane {a & 3} width {w}"] += 1
            if all(v for v, _ in pre_blocks):
                res.probes["access to a set with all ways valid"] += 1
        elif kind == "PRE":
            if not rejected:
                model.write(op[2] & MASK32, op[1], op[3])
                for j in range(op[1]):
                    touched.add(((op[2] + j) & MASK32) & ~3)
            res.probes["preload"] += 1
        elif kind == "RESET":
            model.clear()
            touched.clear()
            res.probes["reset"] += 1

        # eviction probes / state coverage
        sig = impl_state_sig(sut, idxs)
        res.states.add(sig)
        res.trans.add(hash((prev_sig, kind, op[1] if len(op) > 1 else 0, sig)))
        prev_sig = sig
        if kind in ("R", "W") and not rejected:
            post_sets = impl_sets(sut, [ref.split(a)[0]])
            idx, tag = ref.split(a)
            for (pv, pt), (nv, nt) in zip(pre_sets[idx][0], post_sets[idx][0]):
                if pv and nv and pt != nt:
                    res.probes["eviction (" + cfg["kind"] + ")"] += 1

        # ---------------- C03: transparency and rejection
        if prop == "C03" and kind in ("R", "W"):
            if cls == "ok":
                if rejected:
                    res.violate("C03", "valid-access-rejected", at=i, expected="accepted", got=status, op=op)
                    break
                if kind == "R":
                    want = model.read(a, op[1])
                    if value != want:
                        res.violate("C03", "wrong-read-value", at=i, expected=want, got=value, op=op)
                        break
            else:
                if not rejected:
                    res.violate(
                        "C03",
                        "crossing-access-accepted" if cls == "crossing" else "out-of-range-access-accepted",
                        at=i, expected="rejected", got=value, op=op, policy=cfg["kind"],
                    )
                    break
                rw = resident_words(sut, idxs)
                for wa, old in pre_logical.items():
                    new = logical_word(sut, wa, rw)
                    if new != old:
                        res.violate("C03", "rejected-access-changed-value", at=i, expected=old, got=new, word=wa, op=op)
                        break
                if res.violations:
                    break
                res.probes["rejected access followed by logical-content comparison"] += 1

        # ---------------- C09: accounting
        if prop == "C09":
            if kind in ("R", "W") and not rejected and (kind == "W" or op[3]):
                hit, victim, idx = ref.access(a, kind == "W")
                want = (ref.hits, ref.acc, ref.last)
                if post_ctr[:3] != want:
                    res.violate("C09", "counter-mismatch", at=i, expected=list(want), got=list(post_ctr[:3]), op=op)
                    break
                dc = post_ctr[3] - pre_ctr[3]
                wantc = 0 if hit else cfg["pen"]
                if dc != wantc:
                    res.violate("C09", "penalty-mismatch", at=i, expected=wantc, got=dc, op=op, hit=hit)
                    break
                # residency must agree as well (it decides every later hit/miss)
                got_tags = [t if v else None for v, t in impl_sets(sut, [idx])[idx][0]]
                if got_tags != ref.sets[idx].tags:
                    res.violate("C09", "residency-mismatch", at=i, expected=ref.sets[idx].tags, got=got_tags, op=op)
                    break
                if kind == "W" and cfg["kind"] == "wt" and not hit:
                    res.probes["write miss under no-write-allocate"] += 1
                if kind == "R" and not hit and victim is not None:
                    res.probes["read-allocate"] += 1
            else:
                if kind in ("PRE", "INSPECT") or (kind == "R" and not rejected):
                    # uncounted reads, preloads, inspections: counters and cycles untouched
                    if post_ctr != pre_ctr:
                        res.violate("C09", "uncounted-operation-changed-counters", at=i, expected=list(pre_ctr), got=list(post_ctr), op=op)
                        break
                if kind in ("R", "W"):
                    # rejected accesses and uncounted reads are outside the accounting claim: resynchronise
                    # the reference's residency (counted in evidence).  Preloads and inspections are NOT
                    # accesses: whatever they do to the cache shows in the hit counts of later accesses.
                    ref.resync(impl_sets(sut, idxs))
                    ref.hits, ref.acc, ref.last = post_ctr[:3]
                    res.relaxations["C09 reference resynchronised after " + ("rejected access" if rejected else "uncounted read")] += 1
                if kind == "RESET":
                    ref.clear()
                    ref.hits, ref.acc, ref.last = post_ctr[:3]  # reset() is not claimed to clear the counters

        # ---------------- C10: replacement policy against the block accesses the set really received
        # (recorded by a spy on Cache.read_block / Cache.write_block of this instance, so that what the
        # memory system chooses to send to the set - C03/C09's business - cannot surface as a C10 alarm)
        if prop == "C10":
            if kind == "RESET":
                c10_sets.clear()
                spy.attach(sut)
                spy.log.clear()
            for (what, k, tag, hit, way) in spy.log:
                # the set's own answer (hit / miss, which way) is taken as observed - whether the lookup is right
                # is C03's / C09's business; the policy must (a) have chosen the way of every fill and (b) be
                # informed of every hit and fill
                ms = c10_sets[k]
                if hit and way is not None:
                    ms.policy.touch(way)
                    ms.tags[way] = tag
                    res.probes["policy touch on " + ("read hit" if what == "RB" else "write hit")] += 1
                elif what == "WB" and way is not None:
                    v = ms.policy.victim()
                    if way != v:
                        res.violate("C10", "wrong-victim", at=i, expected=v, got=way, op=op, set=k, policy_state=ms.policy.repr(),
                                    note="the way a fill went into is not the way the policy designates")
                        break
                    res.probes["fill" + (" displacing a valid block" if ms.tags[v] is not None else " into an invalid way")] += 1
                    ms.tags[v] = tag
                    ms.policy.touch(v)
            if res.violations:
                break
            n_acc = len(spy.log)
            spy.log.clear()
            post = impl_sets(sut, idxs)
            for k, (blocks, rep) in post.items():
                ms = c10_sets[k]
                if [bool(x) if cfg["strat"] == "plru" else int(x) for x in rep] != ms.policy.repr():
                    res.violate("C10", "policy-state" if n_acc else "policy-state-changed-without-a-block-access", at=i,
                                expected=ms.policy.repr(), got=list(rep), op=op, set=k)
                    break
            if res.violations:
                break
            if prev_op == op and kind in ("R", "W") and not rejected:
                res.probes["same access twice in a row (idempotence)"] += 1
            if cfg["strat"] == "plru" and cfg["ways"] >= 4 and n_acc:
                res.probes["plru tree of depth >= 2 exercised"] += 1

        # ---------------- C12: backing store vs logical contents
        if prop == "C12":
            if kind in ("R", "W"):
                if kind == "W" and not rejected and cls == "crossing":
                    # the implementation accepted a crossing write: the logical content is
                    # what was written (C03 reports the acceptance; C12 tracks the values)
                    model.write(a, op[1], op[3])
                    for j in range(op[1]):
                        touched.add(((a + j) & MASK32) & ~3)
                aff = {set_of(a), set_of((a + op[1] - 1) & MASK32)}
                if not c12_check(i, aff, around=a):
                    break
            elif kind == "INSPECT" and status == "ok":
                rep = value[0]
                # the table row must show the backing word - rendered with the repository's own formatter,
                # so that a formatter defect (C17) cannot surface under C12's name
                fmt = m["get_n_bit_representations"]
                rw_all = resident_words(sut, idxs)
                for wa in sorted(touched):
                    if wa in rep:
                        # "always current under write-through, may lag under write-back only for resident blocks": the row
                        # shows the logical value, or - for a resident word under write-back - the lagging backing value
                        allowed = [list(fmt(model.read(wa, 4), 32))]
                        if cfg["kind"] == "wb" and wa in rw_all:
                            allowed.append(list(fmt(backing_word(sut, wa), 32)))
                        if list(rep[wa]) not in allowed:
                            res.violate("C12", "memory-table-not-current", at=i, expected=allowed, got=list(rep[wa]), word=wa)
                            break
                if res.violations:
                    break
                if not c12_check(i, set(idxs)):
                    break
            elif kind in ("PRE", "RESET"):
                if not c12_check(i, set(idxs)):
                    break
        prev_op = op

    else:
        # ---------------- end of history: final sweeps
        if prop == "C03":
            for wa in sorted(touched):
                out = do_op(sut, ["R", 4, wa, 1], m)
                hs.add("sweep", wa, out)
                want = model.read(wa, 4)
                if out != ("ok", want):
                    res.violate("C03", "wrong-read-value", at=len(ops), expected=want, got=out[1], op=["R", 4, wa, 1], sweep=True)
                    break
        if prop == "C12":
            c12_check(len(ops), set(idxs))

    res.violations = [v for v in res.violations if v["property"] == prop]
    res.sim["operations"] += len(ops)
    if pm is not None:
        res.sim["penalty_ticks"] += pm.cycles
    res.nontrivial = accepted >= 3 and (
        any(k.startswith("eviction") for k in res.probes) or bool(res.faults)
    )
    res.digest = hs.hexdigest()
    return res


# ---------------------------------------------------------------------------
# flat memory (C18)


def exec_flat(trace, prop) -> Result:
    m = _imports()
    cfg = trace["config"]
    toy = cfg["kind"] == "toy"
    res = Result()
    sut, _ = make_sut(cfg)
    if toy:
        model = ByteStore(0, 4096, None, 16)
        cw = 2
    elif cfg["kind"] == "flat-full":
        model = ByteStore(0, 2**32, 2**32, 8)
        cw = 1
    else:
        model = ByteStore(DATA_MIN, 2**32, 2**32, 8)
        cw = 1
    pinned_torn = {}
    hs = Hasher()
    accepted = 0
    for i, op in enumerate(trace["ops"]):
        kind = op[0]
        if kind == "RESET":
            do_op(sut, op, m)
            model.clear()
            hs.add(i, "RESET")
            continue
        if kind == "INSPECT":
            try:
                rep = sut.half_wordwise_repr() if toy else sut.wordwise_repr()
                keys = sorted(rep)
            except Exception as e:  # noqa: BLE001
                keys = type(e).__name__
                rep = None
            hs.add(i, "INSPECT", keys)
            if rep is not None:
                # the table is a read-out of the store (it is produced with the read functions): every row shows the
                # composition of the most recently written cells - rendered with the repository's own formatter - and
                # nothing is listed after a reset
                fmt = m["get_n_bit_representations"]
                bits, ncell = (16, 1) if toy else (32, 4)
                bad = None
                for a_ in keys:
                    if not all(model.in_range(c) for c in model.cell_addrs(a_, ncell)):
                        continue
                    want = list(fmt(model.read(a_, ncell), bits))
                    if list(rep[a_]) != want:
                        bad = (a_, want, list(rep[a_]))
                        break
                if bad:
                    res.violate("C18", "memory-table-differs-from-content", at=i, address=bad[0], expected=bad[1], got=bad[2])
                    break
                res.probes["memory table compared with the cell map" + (" (empty)" if not keys else "")] += 1
            continue
        w, addr = op[1], op[2]
        n = w // cw
        cells = model.cell_addrs(addr, n)
        inr = [model.in_range(c) for c in cells]
        before = dict(sut.memory_file)
        out = do_op(sut, op, m)
        status, value = out
        hs.add(i, kind, w, addr, status, value)
        if status.startswith("exc:"):
            res.violate("C18", "unexpected-exception-type", at=i, expected="MemoryAddressError or success", got=status, op=op)
            break
        ok = status == "ok"
        if ok != all(inr):
            res.violate(
                "C18",
                "address-check-mismatch",
                at=i,
                expected="accepted" if all(inr) else "MemoryAddressError",
                got=status,
                op=op,
                cells_in_range=inr,
            )
            break
        if not ok:
            res.faults["F-access:" + ("entirely-outside" if not any(inr) else "partially-outside")] += 1
            if not any(inr) or kind == "R":
                if dict(sut.memory_file) != before:
                    res.violate("C18", "rejected-access-changed-memory", at=i, op=op)
                    break
            else:
                # partially outside write: C18 claims nothing about the in-range part ("an access lying
                # entirely outside the valid range changes nothing"): old-or-new, then pinned
                for c, r_ in zip(cells, inr):
                    if r_:
                        cur = int(sut.memory_file.get(c, 0))
                        mask = (1 << model.cell_bits) - 1
                        newv = (op[3] >> (model.cell_bits * cells.index(c))) & mask
                        if cur not in (model.cells.get(c, 0), newv):
                            res.violate("C18", "torn-write-produced-garbage", at=i, op=op, cell=c, got=cur)
                            break
                        model.cells[c] = cur
                        res.relaxations["C18 partially-outside write: in-range cell accepted as old-or-new"] += 1
                if res.violations:
                    break
            continue
        accepted += 1
        if kind == "W":
            model.write(addr, n, op[3])
            if addr < 0 or addr >= 2**32:
                res.probes["accepted access through modulo-2^32 addressing"] += 1
        else:
            want = model.read(addr, n)
            if value != want:
                res.violate("C18", "wrong-read-value", at=i, expected=want, got=value, op=op)
                break
            if w == 8:
                res.probes["doubleword read"] += 1
        if addr % max(1, w // cw) != 0:
            res.probes["unaligned access"] += 1
        if any(not model.in_range(k) for k in sut.memory_file):
            res.violate("C18", "out-of-range-cell-stored", at=i, op=op)
            break
    res.violations = [v for v in res.violations if v["property"] == prop]
    res.sim["operations"] += len(trace["ops"])
    res.states.add(hash(tuple(sorted((k, int(v)) for k, v in sut.memory_file.items()))) if len(sut.memory_file) < 64 else 0)
    res.nontrivial = accepted >= 3
    res.digest = hs.hexdigest()
    return res


# ---------------------------------------------------------------------------
# policy-level random walk (C10): drives LRU(n)/PLRU(n) objects directly


def gen_policy_trace(seed):
    from ..core import rng as R

    r = R.stream(seed, "policy")
    strat = r.choice(["lru", "plru"])
    n = r.choice([1, 2, 4, 8, 16]) if strat == "plru" else r.randint(1, 16)
    length = r.choice([r.randint(1, 10), r.randint(10, 60), r.randint(40, 200)]) * R.deep(r)
    length = R.marathon(seed) or length
    seq = []
    hot = r.sample(range(n), max(1, n // 2))
    for _ in range(length):
        k = r.random()
        if k < 0.55:
            seq.append(["A", r.randrange(n)])
        elif k < 0.7:
            seq.append(["A", r.choice(hot)])
        elif k < 0.8 and seq and seq[-1][0] == "A":
            seq.append(list(seq[-1]))  # same block twice in a row
        elif k < 0.9:
            seq.append(["V"])  # ask for the victim and then access it (a fill)
        else:
            seq.append(["Q"])  # query victim / repr only
    return {"config": {"kind": "policy", "strat": strat, "ways": n}, "ops": seq}


def exec_policy(trace, prop) -> Result:
    from architecture_simulator.uarch.memory.replacement_strategies import LRU, PLRU

    cfg = trace["config"]
    res = Result()
    n = cfg["ways"]
    try:
        sut = (LRU if cfg["strat"] == "lru" else PLRU)(n)
    except Exception as e:  # noqa: BLE001
        res.violate("C10", "policy-constructor-raised", got=type(e).__name__, config=cfg)
        res.digest = "ctor"
        return res
    ref = RefPolicy(n, cfg["strat"])
    hs = Hasher()
    norm = (lambda rep: [bool(x) for x in rep]) if cfg["strat"] == "plru" else (lambda rep: [int(x) for x in rep])
    last_accessed = None
    for i, op in enumerate(trace["ops"]):
        try:
            if op[0] == "A":
                before = norm(sut.get_repr())
                sut.access(op[1])
                ref.touch(op[1])
                if last_accessed == op[1] and norm(sut.get_repr()) != before:
                    res.violate("C10", "second-access-changed-state", at=i, expected=before, got=norm(sut.get_repr()), way=op[1])
                    break
                last_accessed = op[1]
            elif op[0] == "V":
                v = sut.get_next_to_replace()
                want = ref.victim()
                if v != want:
                    res.violate("C10", "wrong-victim", at=i, expected=want, got=v, policy_state=ref.repr())
                    break
                sut.access(v)
                ref.touch(v)
                last_accessed = v
            else:
                v = sut.get_next_to_replace()
                v2 = sut.get_next_to_replace()
                if v != ref.victim() or v2 != v:
                    res.violate("C10", "wrong-victim", at=i, expected=ref.victim(), got=[v, v2], policy_state=ref.repr())
                    break
            rep = norm(sut.get_repr())
        except Exception as e:  # noqa: BLE001
            res.violate("C10", "policy-raised", at=i, got=type(e).__name__, op=op)
            break
        hs.add(i, op, rep)
        if rep != ref.repr():
            res.violate("C10", "policy-state", at=i, expected=ref.repr(), got=rep, op=op)
            break
        if cfg["strat"] == "lru":
            # ages consistent with the order: rank 0 is the victim, ranks are a permutation
            if sorted(rep) != list(range(n)) or rep[ref.victim()] != 0:
                res.violate("C10", "lru-ages-inconsistent", at=i, got=rep)
                break
        res.states.add(hash((cfg["strat"], n, tuple(rep))))
    res.violations = [v for v in res.violations if v["property"] == prop]
    res.sim["operations"] += len(trace["ops"])
    res.probes[f"policy walk {cfg['strat']} ways={n}"] += 1
    res.nontrivial = len(trace["ops"]) >= 3 and n >= 2
    res.digest = hs.hexdigest()
    return res


# ---------------------------------------------------------------------------
# set-level walk (C10): drives Cache / CacheSet directly - "the cache set informs the policy on every
# read hit, write hit and fill" (cache.py:135-179), also for callers that write a block without
# reading it first (which the two memory systems never do)


def gen_setwalk_trace(seed):
    from ..core import rng as R

    r = R.stream(seed, "setwalk")
    strat = r.choice(["lru", "plru"])
    ways = r.choice([1, 2, 4, 8]) if strat == "plru" else r.choice([1, 2, 3, 4, 5, 7])
    ib = r.choice([0, 0, 1, 2])
    bb = r.choice([0, 0, 1])
    ntags = ways + r.randint(1, 3)
    ops = []
    for _ in range(R.marathon(seed) or r.choice([r.randint(1, 8), r.randint(6, 30), r.randint(20, 60)]) * R.deep(r)):
        tag = r.randrange(ntags)
        idx = r.randrange(1 << ib)
        addr = ((tag << ib | idx) << (bb + 2)) + 4 * r.randrange(1 << bb)
        k = r.random()
        if k < 0.45:
            ops.append(["RB", addr])  # Cache.read_block
        elif k < 0.9:
            ops.append(["WB", addr])  # Cache.write_block (hit or fill), no read before it
        else:
            ops.append(list(ops[-1]) if ops else ["RB", addr])  # the same block twice in a row
    return {"config": {"kind": "setwalk", "strat": strat, "ways": ways, "ib": ib, "bb": bb}, "ops": ops}


def exec_setwalk(trace, prop) -> Result:
    from architecture_simulator.uarch.memory.cache import Cache
    from architecture_simulator.uarch.memory.decoded_address import DecodedAddress
    from architecture_simulator.uarch.memory.replacement_strategies import LRU, PLRU

    cfg = trace["config"]
    res = Result()
    hs = Hasher()
    ways, ib, bb = cfg["ways"], cfg["ib"], cfg["bb"]
    try:
        cache = Cache(ib, bb, ways, LRU if cfg["strat"] == "lru" else PLRU)
    except Exception as e:  # noqa: BLE001
        res.violate("C10", "cache-constructor-raised", got=type(e).__name__, config=cfg)
        res.digest = "ctor"
        return res
    pols = [RefPolicy(ways, cfg["strat"]) for _ in range(1 << ib)]
    norm = (lambda rep: [bool(x) for x in rep]) if cfg["strat"] == "plru" else (lambda rep: [int(x) for x in rep])
    counter = 0
    for i, op in enumerate(trace["ops"]):
        da = DecodedAddress(ib, bb, op[1])
        k = da.cache_set_index
        st = cache.sets[k]
        pre = [(bool(b.valid_bit), b.decoded_address.tag) for b in st.blocks]
        way_hit = next((j for j, (v, t) in enumerate(pre) if v and t == da.tag), None)
        try:
            if op[0] == "RB":
                out = cache.read_block(da)
                got_hit = out is not None
            else:
                counter += 1
                hit, _disp = cache.write_block(da, [counter] * (1 << bb))
                got_hit = bool(hit)
        except Exception as e:  # noqa: BLE001
            res.violate("C10", "cache-raised", at=i, got=type(e).__name__, op=op)
            break
        post = [(bool(b.valid_bit), b.decoded_address.tag) for b in st.blocks]
        hs.add(i, op, got_hit, post)
        if way_hit is not None:
            pols[k].touch(way_hit)
            res.probes["set walk: " + ("read hit" if op[0] == "RB" else "write hit without a preceding read")] += 1
        elif op[0] == "WB":
            way_new = next((j for j, (v, t) in enumerate(post) if v and t == da.tag), None)
            want = pols[k].victim()
            if way_new != want:
                res.violate("C10", "wrong-victim", at=i, expected=want, got=way_new, op=op, set=k, policy_state=pols[k].repr())
                break
            pols[k].touch(want)
            res.probes["set walk: fill"] += 1
        for kk, s2 in enumerate(cache.sets):
            rep = norm(s2.replacement_strategy.get_repr())
            if rep != pols[kk].repr():
                res.violate("C10", "policy-state", at=i, expected=pols[kk].repr(), got=rep, op=op, set=kk,
                            note="set-level walk: Cache.read_block / Cache.write_block driven directly")
                break
        if res.violations:
            break
        res.states.add(hash((cfg["strat"], ways, tuple(tuple(norm(s2.replacement_strategy.get_repr())) for s2 in cache.sets))))
    res.violations = [v for v in res.violations if v["property"] == prop]
    res.sim["operations"] += len(trace["ops"])
    res.nontrivial = len(trace["ops"]) >= 3 and ways >= 2
    res.digest = hs.hexdigest()
    return res


# ---------------------------------------------------------------------------
# instruction-cache walk (C11): drives InstructionMemoryCacheSystem directly, as memsim does for the data side


def gen_icwalk_trace(seed):
    from ..core import rng as R

    r = R.stream(seed, "icwalk")
    strat = r.choice(["lru", "plru"])
    ways = r.choice([1, 2, 4, 8]) if strat == "plru" else r.choice([1, 2, 3, 4, 5, 8])
    cfg = {"kind": "icwalk", "strat": strat, "ways": ways, "ib": r.randint(0, 3), "bb": r.choice([0, 1, 1, 2, 2, 3]),
           "pen": r.choice([0, 1, 3, 7]), "prepopulated": r.random() < 0.3}
    rs = R.stream(seed, "icwalk-state")
    if rs.random() < 0.35:
        # the cache system as the architectural state builds it from the front end's options, next to a data cache
        # with the *other* policy and another penalty (a slip in the wiring of the two option objects shows)
        cfg["prepopulated"] = False
        cfg["via_state"] = {"enable": rs.random() < 0.7, "ib": rs.randint(0, 2), "bb": rs.randint(0, 2), "ways": rs.choice([1, 2, 4]),
                            "kind": rs.choice(["wb", "wt"]), "strat": "plru" if strat == "lru" else "lru", "pen": cfg["pen"] + rs.choice([1, 2, 5])}
    nprog = r.choice([r.randint(1, 6), r.randint(4, 40), r.randint(30, 120)])
    ops = [["LOAD", nprog]]
    pc = 0
    marathon = R.marathon(seed)
    if marathon >= 1000 and R.stream(seed, "marathon-shape").random() < 0.6:
        cfg["ib"] = 0  # narrow marathon: every fetch goes to the one set of a fully associative cache
    for _ in range(marathon or r.choice([r.randint(1, 10), r.randint(8, 60), r.randint(40, 150)]) * R.deep(r)):
        k = r.random()
        if marathon and 0.9 <= k < 0.93 and r.random() < 0.995:
            k = 0.1  # marathons: a reset only every thousand fetches or so, counts and ages grow in between
        if k < 0.55:
            pc = pc + 4  # sequential fetch
        elif k < 0.8:
            pc = 4 * r.randrange(nprog)  # jump
        elif k < 0.9:
            pc = max(0, pc - 4 * r.randint(1, 6))  # short backward jump (loop)
        elif k < 0.93:
            ops.append(["RESET"])
            nprog = r.choice([r.randint(1, 6), r.randint(4, 40)])
            ops.append(["LOAD", nprog])
            pc = 0
            continue
        elif k < 0.96:
            ops.append(["INSPECT"])
            continue
        if pc >= 4 * nprog:
            pc = 4 * r.randrange(nprog)
        ops.append(["F", pc])
    return {"config": cfg, "ops": ops}


def exec_icwalk(trace, prop) -> Result:
    from architecture_simulator.isa.riscv.rv32i_instructions import ADDI
    from architecture_simulator.uarch.memory.instruction_memory import InstructionMemory
    from architecture_simulator.uarch.memory.instruction_memory_cache_system import InstructionMemoryCacheSystem
    from architecture_simulator.uarch.riscv.riscv_performance_metrics import RiscvPerformanceMetrics

    cfg = trace["config"]
    res = Result()
    hs = Hasher()
    pm = RiscvPerformanceMetrics()
    backing = InstructionMemory()
    generation = [0]

    current = []  # the program as the caller wrote it (independent of what the memories report)

    def program(n):
        generation[0] += 1
        current[:] = [ADDI(rd=(i % 31) + 1, rs1=0, imm=(generation[0] * 131 + i) % 2048) for i in range(n)]
        return list(current)

    ops = list(trace["ops"])
    try:
        if cfg["prepopulated"] and ops and ops[0][0] == "LOAD":
            # the lower memory is populated first and the cache system is put in front of it afterwards
            backing.write_instructions(program(ops[0][1]))
            ops = ops[1:]
            res.probes["cache system constructed around a populated instruction memory"] += 1
        if cfg.get("via_state"):
            from architecture_simulator.uarch.memory.cache import CacheOptions
            from architecture_simulator.uarch.riscv.riscv_architectural_state import RiscvArchitecturalState

            d = cfg["via_state"]
            state = RiscvArchitecturalState(
                data_cache_options=CacheOptions(d["enable"], d["ib"], d["bb"], d["ways"], d["kind"], d["strat"], d["pen"]),
                instruction_cache_options=CacheOptions(True, cfg["ib"], cfg["bb"], cfg["ways"], "wt", cfg["strat"], cfg["pen"]),
            )
            sut, pm = state.instruction_memory, state.performance_metrics
            res.probes["instruction cache built by the architectural state from options (data cache with the other policy)"] += 1
        else:
            sut = InstructionMemoryCacheSystem(backing, cfg["ib"], cfg["bb"], cfg["ways"], pm, cfg["pen"], cfg["strat"])
    except Exception as e:  # noqa: BLE001
        res.violate(prop if prop in ("C10", "C11") else "C11", "simulation-could-not-be-constructed", got=f"{type(e).__name__}: {e}"[:200], config=cfg)
        res.digest = "ctor"
        return res
    ref = RefCache("ro", cfg["ib"], cfg["bb"], cfg["ways"], cfg["strat"])
    fetches = 0
    # C10: the replacement policy of every set against the block accesses the set really receives (same spy and same
    # model as in the data-cache histories), also across reset() - a fresh policy state is expected afterwards
    spy = _SetSpy()
    c10_sets = _LazyRefSets(cfg["ways"], cfg["strat"])
    if prop == "C10":
        spy.attach(sut)

    def follow_policy(i, op):
        for (what, k, tag, hit, way) in spy.log:
            ms = c10_sets[k]
            if hit and way is not None:
                ms.policy.touch(way)
                ms.tags[way] = tag
            elif what == "WB" and way is not None:
                v = ms.policy.victim()
                if way != v:
                    res.violate("C10", "wrong-victim", at=i, expected=v, got=way, op=op, set=k, policy_state=ms.policy.repr(),
                                note="instruction cache: the way a fill went into is not the way the configured policy designates")
                    return False
                ms.tags[v] = tag
                ms.policy.touch(v)
        n_acc = len(spy.log)
        spy.log.clear()
        for k, st_ in enumerate(sut.cache.sets):
            rep = list(st_.replacement_strategy.get_repr())
            want = c10_sets[k].policy.repr()
            if [bool(x) if cfg["strat"] == "plru" else int(x) for x in rep] != want:
                res.violate("C10", "policy-state" if n_acc else "policy-state-changed-without-a-block-access", at=i, expected=want,
                            got=rep, op=op, set=k, note="instruction cache, configured policy " + cfg["strat"])
                return False
        return True

    for i, op in enumerate(ops):
        kind = op[0]
        try:
            if kind == "LOAD":
                sut.write_instructions(program(op[1]))
                hs.add(i, "LOAD", op[1])
            elif kind == "RESET":
                sut.reset()
                current[:] = []
                ref = RefCache("ro", cfg["ib"], cfg["bb"], cfg["ways"], cfg["strat"])
                st = sut.get_cache_stats()
                rep = sut.cache_repr()
                valid = [b for s_ in rep.sets for b in s_.blocks if b.valid_bit != "0"]
                if st.get("hits") != "0" or st.get("accesses") != "0" or valid or sut.has_instructions():
                    res.violate("C11", "state-survives-reset", at=i, expected="counters 0/0, no valid block, no instruction",
                                got={"stats": st, "valid_blocks": len(valid), "has_instructions": sut.has_instructions()})
                    break
                res.probes["instruction-cache reset"] += 1
                hs.add(i, "RESET")
                if prop == "C10":
                    c10_sets.clear()
                    spy.attach(sut)
                    spy.log.clear()
                    if not follow_policy(i, op):
                        break
                    res.probes["policy state fresh after an instruction-cache reset"] += 1
            elif kind == "INSPECT":
                c0 = (sut.hits, sut.accesses, sut.last_was_hit, pm.cycles)
                sut.cache_repr()
                sut.get_cache_stats()
                sut.get_representation()
                sut.has_instructions()
                if (sut.hits, sut.accesses, sut.last_was_hit, pm.cycles) != c0:
                    res.violate("C11", "inspection-changed-counters", at=i)
                    break
            else:
                a = op[1]
                written = a % 4 == 0 and 0 <= a // 4 < len(current)
                if not sut.instruction_at_address(a):
                    if written:
                        res.violate("C11", "instruction-invisible-through-the-cache", at=i, address=a,
                                    note="an instruction that was written is not there when looked up through the cache system")
                        break
                    continue
                if not written:
                    res.violate("C11", "instruction-present-that-was-never-written", at=i, address=a)
                    break
                c0 = pm.cycles
                got = sut.read_instruction(a)
                fetches += 1
                hit, _v, _k = ref.access(a, False)
                want = current[a // 4]
                hs.add(i, a, repr(got), sut.hits, sut.accesses)
                if got is not want:
                    res.violate("C11", "fetched-wrong-instruction", at=i, address=a, expected=repr(want), got=repr(got))
                    break
                if (sut.accesses, sut.hits, bool(sut.last_was_hit)) != (ref.acc, ref.hits, bool(ref.last)):
                    res.violate("C11", "hit-count", at=i, expected=[ref.acc, ref.hits, ref.last],
                                got=[sut.accesses, sut.hits, sut.last_was_hit], address=a)
                    break
                if pm.cycles - c0 != (0 if hit else cfg["pen"]):
                    res.violate("C11", "penalty-cycles", at=i, expected=0 if hit else cfg["pen"], got=pm.cycles - c0, address=a)
                    break
                if prop == "C10":
                    if not follow_policy(i, op):
                        break
                    res.probes["instruction-cache fetch followed by the policy model"] += 1
        except Exception as e:  # noqa: BLE001
            res.violate("C11", "instruction-cache-raised", at=i, got=f"{type(e).__name__}: {e}"[:200], op=op)
            break
    else:
        got_res = {k: frozenset(b.decoded_address.tag for b in st_.blocks if b.valid_bit) for k, st_ in enumerate(sut.cache.sets)}
        want_res = {k: frozenset(t for t in ref.sets[k].tags if t is not None) for k in range(1 << cfg["ib"])}
        if got_res != want_res:
            res.violate("C11", "resident-blocks-differ-from-reference-cache", expected={k: sorted(v) for k, v in want_res.items()},
                        got={k: sorted(v) for k, v in got_res.items()})
    res.violations = [v for v in res.violations if v["property"] == prop]
    res.sim["operations"] += len(ops)
    res.sim["fetches"] += fetches
    res.nontrivial = fetches >= 3 and ref.acc > ref.hits
    res.digest = hs.hexdigest()
    return res


# ---------------------------------------------------------------------------
# batches


def _describe(trace):
    def fmt(op):
        if op[0] in ("R",):
            return f"R{op[1]}@0x{op[2] & MASK32:X}" + ("" if op[3] else " (uncounted)") + ("" if 0 <= op[2] < 2**32 else f" [raw {op[2]}]")
        if op[0] in ("W", "PRE"):
            return f"{op[0]}{op[1]}@0x{op[2] & MASK32:X}=0x{op[3]:X}" + ("" if 0 <= op[2] < 2**32 else f" [raw {op[2]}]")
        if op[0] == "A":
            return f"access({op[1]})"
        if op[0] == "F":
            return f"fetch(0x{op[1]:X})"
        if op[0] == "LOAD":
            return f"write_instructions({op[1]} instructions)"
        if op[0] in ("RB", "WB"):
            return f"{'read_block' if op[0] == 'RB' else 'write_block'}(0x{op[1]:X})"
        return op[0]

    return {"config": trace["config"], "ops": [fmt(o) for o in trace["ops"]]}


class _MemBatch(Batch):
    engine = "memsim"
    per_run_timeout_s = 20.0

    def describe(self, trace):
        return _describe(trace)

    def shrink(self, trace, prop, still_fails, budget: Budget):
        cfg = trace["config"]

        def legal(ops):
            """A preload is only legal while the hierarchy is untouched since creation /
            the last reset (its only caller is the parser); drop preloads that a
            deletion has moved behind an access."""
            out, fresh = [], True
            for o in ops:
                if o[0] == "RESET":
                    fresh = True
                elif o[0] in ("R", "W"):
                    fresh = False
                elif o[0] == "PRE" and not fresh:
                    continue
                out.append(o)
            return out

        mk = lambda ops, c=cfg: {**trace, "config": c, "ops": legal(ops)}  # noqa: E731
        ops = ddmin_list(trace["ops"], still_fails, budget, rebuild=mk)
        # simplify arguments: width -> byte, value -> small, counted
        for k in range(len(ops)):
            if budget.spent():
                break
            op = ops[k]
            if op[0] in ("W", "PRE") and op[3] not in (0, 1):
                for v in (1, 0x42):
                    cand = ops[:k] + [[op[0], op[1], op[2], v & ((1 << (8 * op[1])) - 1)]] + ops[k + 1 :]
                    budget.tick()
                    if still_fails(mk(cand)):
                        ops = cand
                        break
        # shrink geometry towards the smallest that still fails
        best = dict(cfg)
        for key, small in (("pen", 0), ("ib", 0), ("bb", 0), ("ways", 1), ("ways", 2), ("strat", "lru")):
            if budget.spent() or key not in best or best[key] == small:
                continue
            cand = dict(best)
            cand[key] = small
            if cand.get("strat") == "plru" and cand["ways"] & (cand["ways"] - 1):
                continue
            budget.tick()
            if still_fails(mk(ops, cand)):
                best = cand
        ops = ddmin_list(ops, still_fails, budget, rebuild=lambda o: mk(o, best))
        out = mk(ops, best)
        if out.get("decoy") and not budget.spent():
            cand = {**out, "decoy": False}
            budget.tick()
            if still_fails(cand):
                out = cand
        return out


class CacheHistories(_MemBatch):
    def __init__(self, name, faults, runs_quick, runs_thorough, kinds=("wb", "wt")):
        self.name = name
        self.faults = faults
        self.runs_quick = runs_quick
        self.runs_thorough = runs_thorough
        self.kinds = kinds

    def generate(self, seed):
        return G.gen_cache_trace(seed, self.faults, self.kinds)

    def execute(self, trace, prop):
        return exec_cache(trace, prop)


class FlatHistories(_MemBatch):
    def __init__(self, name, faults, runs_quick, runs_thorough):
        self.name = name
        self.faults = faults
        self.runs_quick = runs_quick
        self.runs_thorough = runs_thorough

    def generate(self, seed):
        return G.gen_flat_trace(seed, self.faults)

    def execute(self, trace, prop):
        return exec_flat(trace, prop)


class PolicyWalks(_MemBatch):
    def __init__(self, name, runs_quick, runs_thorough):
        self.name = name
        self.runs_quick = runs_quick
        self.runs_thorough = runs_thorough

    def generate(self, seed):
        return gen_policy_trace(seed)

    def execute(self, trace, prop):
        return exec_policy(trace, prop)

    def shrink(self, trace, prop, still_fails, budget):
        mk = lambda ops: {**trace, "ops": ops}  # noqa: E731
        return mk(ddmin_list(trace["ops"], still_fails, budget, rebuild=mk))


class SetWalks(_MemBatch):
    def __init__(self, name, runs_quick, runs_thorough):
        self.name = name
        self.runs_quick = runs_quick
        self.runs_thorough = runs_thorough

    def generate(self, seed):
        return gen_setwalk_trace(seed)

    def execute(self, trace, prop):
        return exec_setwalk(trace, prop)

    def shrink(self, trace, prop, still_fails, budget):
        mk = lambda ops: {**trace, "ops": ops}  # noqa: E731
        return mk(ddmin_list(trace["ops"], still_fails, budget, rebuild=mk))



class InstructionCacheWalks(_MemBatch):
    def __init__(self, name, runs_quick, runs_thorough):
        self.name = name
        self.runs_quick = runs_quick
        self.runs_thorough = runs_thorough

    def generate(self, seed):
        return gen_icwalk_trace(seed)

    def execute(self, trace, prop):
        return exec_icwalk(trace, prop)

    def shrink(self, trace, prop, still_fails, budget):
        mk = lambda ops: {**trace, "ops": ops}  # noqa: E731
        return mk(ddmin_list(trace["ops"], still_fails, budget, rebuild=mk))


# ---------------------------------------------------------------------------
# known-finding predicates


@findings.predicate("wt_crossing_write_accepted_on_miss")
def _p_wt_crossing(trace, violation):
    """D2: write-through accepts a word-crossing write whose block is not resident."""
    if trace.get("config", {}).get("kind") != "wt":
        return False
    if violation.get("kind") == "crossing-access-accepted":
        op = violation.get("detail", {}).get("op")
        return bool(op) and op[0] == "W" and ((op[2] & 3) + op[1] > 4)
    # C12: the stale resident block is a consequence of an accepted crossing write in the trace
    if violation.get("kind") in ("wt-resident-differs", "wt-backing-stale"):
        return any(o[0] == "W" and ((o[2] & 3) + o[1] > 4) for o in trace.get("ops", []))
    return False
