"""Seeded generator of storage-hierarchy histories (DESIGN §5.2).

Trace:
  {"config": {"kind": "wb"|"wt"|"flat"|"toy", "ib", "bb", "ways", "strat", "pen"},
   "faults": bool,                       # fault-free and fault-injecting sub-batches are separate
   "ops": [[op, ...], ...]}
Ops:
  ["R", width, addr, counted]   width in bytes (1, 2, 4; flat also 8); counted 0/1
  ["W", width, addr, value]
  ["PRE", width, addr, value]   parser-style preload straight into the backing store
  ["RESET"]
  ["INSPECT"]
Fault operations (F-access) are ordinary R/W whose address crosses a word
boundary, lies below 0x4000, wraps past 2^32, is negative or >= 2^32.
"""
from ..core import rng as R

DATA_MIN = 2**14


def gen_config(r, kinds=("wb", "wt")):
    kind = r.choice(kinds)
    strat = r.choice(["lru", "plru"])
    big = r.random() < 0.06
    huge = r.random() < 0.02  # index so wide that the lowest data addresses have tag 0
    ib = r.randint(0, 3) if not big else r.randint(3, 6)
    bb = r.randint(0, 3) if not big else r.randint(2, 4)
    if strat == "plru":
        ways = r.choice([1, 2, 4, 8]) if not big else r.choice([1, 2, 16])
    else:
        ways = r.choice([1, 1, 2, 2, 3, 4, 5, 6, 7, 8])
    if huge:
        ib, bb = r.choice([(13, 0), (12, 1), (12, 0), (11, 2)])
        ways = r.choice([1, 2])
    pen = r.choice([0, 0, 1, 2, 3, 5, 7, r.randint(0, 50)])
    return {"kind": kind, "ib": ib, "bb": bb, "ways": ways, "strat": strat, "pen": pen}


class _Ctx:
    def __init__(self, r, cfg, faults):
        self.r = r
        self.cfg = cfg
        self.faults = faults
        self.counter = 0
        block = 4 << cfg["bb"]
        nsets = 1 << cfg["ib"]
        self.block = block
        self.set_stride = block * nsets  # addresses this far apart map to the same set
        # a window of blocks that all map to one or two sets -> evictions every few operations
        self.base = r.choice(
            [DATA_MIN, DATA_MIN, DATA_MIN + self.set_stride * r.randint(0, 7), 0x10000, 2**31,
             (2**32 - self.set_stride * (cfg["ways"] + 3)) & ~(self.set_stride - 1)]
        )
        if self.base < DATA_MIN:
            self.base = DATA_MIN
        self.nblocks = cfg["ways"] + r.randint(1, 3)
        self.sets_used = r.choice([1, 1, 2, min(nsets, 4)])
        # value personality: a third of the runs also write small and repeated values (0, 1, 7, 255, the value
        # written last, ...), where a stored byte can equal the whole word it goes into or the value already there;
        # the reference is a byte store, so uniqueness only serves attribution, not soundness
        self.small = r.random() < 0.33
        self.last_values = [0]

    def value(self, width):
        """Every written value is unique within the run (runs have <= 250 writes) and
        every byte lane is non-zero, so a wrong read is attributable to one write and
        one lane."""
        self.counter += 1
        c = self.counter
        if self.small and self.r.random() < 0.6:
            v = self.r.choice([0, 1, 2, 7, 7, 255, 256, 0x0101, 0x00070007, 0x80, 0x8000] + self.last_values[-3:])
            v &= (1 << (8 * width)) - 1
            self.last_values.append(v)
            return v
        v = 0
        for i, mul in zip(range(width), (1, 7, 13, 29)):
            v |= ((c * mul) % 251 + 1) << (8 * i)
        self.last_values.append(v)
        return v

    def block_addr(self):
        b = self.r.randrange(self.nblocks)
        s = self.r.randrange(self.sets_used)
        return (self.base + b * self.set_stride + s * self.block) & 0xFFFFFFFF

    def aligned_addr(self, width):
        a = self.block_addr() + self.r.randrange(self.block)
        return a - (a % width)

    def fault_addr(self, width):
        r = self.r
        k = r.random()
        if k < 0.45 and width > 1:  # word-crossing, on a block that is likely resident or whose neighbour is
            a = self.block_addr() + self.r.randrange(self.block)
            a -= a % 4
            off = r.choice([3] if width == 2 else [1, 2, 3])
            return a + off
        if k < 0.65:  # below the first data address
            return r.choice([DATA_MIN - width, DATA_MIN - 1, DATA_MIN - 4, 0, 4, DATA_MIN - 4 * r.randint(1, 64)])
        if k < 0.80:  # bytes wrapping from 0xFFFFFFFF to 0
            return r.choice([2**32 - 1, 2**32 - 2, 2**32 - 3]) if width > 1 else 2**32 + r.randint(0, 3)
        if k < 0.90:  # negative
            return -r.randint(1, 9)
        return r.choice([1, 1, 2, 3, -1, -2]) * 2**32 + r.choice([0, 4, DATA_MIN, DATA_MIN + 4 * r.randint(0, 8)]) + r.choice([0, 0, 1, 3])


def _rw(ctx, p_write=0.5, p_fault=0.1, p_uncounted=0.15):
    r = ctx.r
    width = r.choice([1, 2, 4, 4])
    if ctx.faults and r.random() < p_fault:
        addr = ctx.fault_addr(width)
    else:
        addr = ctx.aligned_addr(width)
        if width == 2 and r.random() < 0.15:
            addr = (addr & ~3) + 1  # half-word inside one word at the odd offset (legal, never word-crossing)
        if r.random() < 0.03:
            addr = r.choice([DATA_MIN, 0xFFFFFFFC, 0xFFFFFFFF - (width - 1)])
            addr -= addr % width
    if r.random() < p_write:
        return ["W", width, addr, ctx.value(width)]
    return ["R", width, addr, 0 if r.random() < p_uncounted else 1]


def _motif(ctx):
    """Hand-described situations spliced into otherwise random histories."""
    r = ctx.r
    cfg = ctx.cfg
    ops = []
    m = r.choice([0, 1, 2, 3, 4, 5, 8, 9, 10, 11, 12] + ([6, 7] if ctx.faults else []))
    s = r.randrange(ctx.sets_used) * ctx.block
    blk = lambda i: (ctx.base + i * ctx.set_stride + s) & 0xFFFFFFFF  # noqa: E731
    if m == 0:  # fill every way of a set, touch the ways in a chosen order, force one eviction
        n = cfg["ways"]
        for i in range(n):
            ops.append(["R", 4, blk(i), 1])
        order = list(range(n))
        r.shuffle(order)
        for i in order[: r.randint(0, n)]:
            if r.random() < 0.5:
                ops.append(["R", 4, blk(i), 1])
            else:
                ops.append(["W", 4, blk(i), ctx.value(4)])
        ops.append(["R", 4, blk(n), 1])
        ops.append(["R", 4, blk(order[0]), 1])
    elif m == 1:  # write miss followed by a read of the same word (write-through: no allocate)
        a = blk(r.randrange(ctx.nblocks)) + 4 * r.randrange(1 << cfg["bb"])
        ops += [["W", 4, a, ctx.value(4)], ["R", 4, a, 1], ["R", 4, a, 1]]
    elif m == 2:  # dirty block evicted and read back
        a = blk(0)
        ops.append(["W", r.choice([1, 2, 4]), a, 0])
        ops[-1][3] = ctx.value(ops[-1][1])
        for i in range(1, cfg["ways"] + 1):
            ops.append(["R", 4, blk(i), 1])
        ops.append(["R", 4, a, 1])
    elif m == 3:  # the same address with all three widths and all byte offsets
        a = blk(r.randrange(ctx.nblocks))
        for off in range(4):
            ops.append(["W", 1, a + off, ctx.value(1)])
        ops.append(["R", 4, a, 1])
        for off in (0, 2):
            ops.append(["W", 2, a + off, ctx.value(2)])
            ops.append(["R", 4, a, 1])
        for off in range(4):
            ops.append(["R", 1, a + off, 1])
        for off in (0, 1, 2):
            ops.append(["R", 2, a + off, 1])
    elif m == 4:  # the same operation twice in a row
        op = _rw(ctx, p_fault=0)
        ops += [op, list(op)]
        if op[0] == "W":
            ops.append(["R", op[1], op[2], 1])
    elif m == 5:  # uncounted read that misses, then the counted one
        a = blk(r.randrange(ctx.nblocks))
        ops += [["R", 4, a, 0], ["R", 4, a, 1]]
    elif m == 8:  # sub-word write miss into a set whose ways are all dirty, then everything read back
        n = cfg["ways"]
        for i in range(n):
            ops.append(["W", 4, blk(i) + 4 * r.randrange(1 << cfg["bb"]), ctx.value(4)])
        w = r.choice([1, 2])
        a = blk(n) + 4 * r.randrange(1 << cfg["bb"])
        ops.append(["W", w, a + r.choice([0, 2] if w == 2 else [0, 1, 2, 3]), ctx.value(w)])
        ops.append(["R", 4, a, 1])
        for i in range(n):
            for k in range(1 << cfg["bb"]):
                ops.append(["R", 4, blk(i) + 4 * k, r.choice([0, 1, 1])])
    elif m == 9:  # every word of one block written with mixed widths, evicted by reads, read back word by word
        a = blk(0)
        for k in range(1 << cfg["bb"]):
            w = r.choice([1, 2, 4])
            ops.append(["W", w, a + 4 * k + (r.choice([0, 2]) if w == 2 else r.randrange(4) if w == 1 else 0), ctx.value(w)])
        for i in range(1, cfg["ways"] + 1):
            ops.append(["R", r.choice([1, 2, 4]), blk(i), 1])
        for k in range(1 << cfg["bb"]):
            ops.append(["R", 4, a + 4 * k, 1])
    elif m == 10:  # the tables are looked at between filling a set and choosing a victim in it
        n = cfg["ways"]
        for i in range(n):
            ops.append([r.choice(["R", "W"]), 4, blk(i), 1])
            if ops[-1][0] == "W":
                ops[-1][3] = ctx.value(4)
        order = list(range(n))
        r.shuffle(order)
        for i in order[: r.randint(1, n)]:
            ops.append(["R", 4, blk(i), 1])
        ops.append(["INSPECT"])
        ops.append([r.choice(["R", "W"]), 4, blk(n), 1])
        if ops[-1][0] == "W":
            ops[-1][3] = ctx.value(4)
        ops.append(["INSPECT"])
        for i in range(n + 1):
            ops.append(["R", 4, blk(i), 1])
    elif m == 11:  # dirty block evicted by *uncounted* reads, then read back
        a = blk(0) + 4 * r.randrange(1 << cfg["bb"])
        ops.append(["W", r.choice([1, 2, 4]), a - a % 4, 0])
        ops[-1][3] = ctx.value(ops[-1][1])
        ops.append(["INSPECT"])
        for i in range(1, cfg["ways"] + 1):
            ops.append(["R", 4, blk(i), 0])
        ops += [["INSPECT"], ["R", 4, a - a % 4, 1], ["R", 4, blk(1), 1]]
    elif m == 12:  # dirty blocks, reset, the same addresses again
        n = r.randint(1, cfg["ways"])
        for i in range(n):
            ops.append(["W", 4, blk(i), ctx.value(4)])
        ops.append(["RESET"])
        for i in range(n):
            ops.append(["R", 4, blk(i), 1])
        ops.append(["W", 2, blk(0), ctx.value(2)])
        ops.append(["R", 4, blk(0), 1])
    elif m == 6:  # word-crossing access once on a resident block ...
        a = blk(0)
        ops.append(["R", 4, a, 1])
        w = r.choice([2, 4])
        off = 3 if w == 2 else r.choice([1, 2, 3])
        ops.append([r.choice(["R", "W"]), w, a + off, 1])
        if ops[-1][0] == "W":
            ops[-1][3] = ctx.value(w)
        ops += [["R", 4, a, 1], ["R", 4, a + 4, 1]]
    else:  # ... and once on a non-resident block whose *neighbour* word/block is resident
        a = blk(0) + ctx.block - 4  # last word of block 0
        nb = a + 4  # first word of the neighbouring block (other set or other tag)
        ops.append(["W", 1, nb, ctx.value(1)])
        ops.append(["R", 4, nb, 1])  # neighbour resident
        w = r.choice([2, 4])
        off = 3 if w == 2 else r.choice([1, 2, 3])
        ops.append(["W", w, a + off, ctx.value(w)])  # crosses from a (not resident) into nb (resident)
        ops += [["R", 4, nb, 1], ["R", 4, a, 1], ["R", 4, nb, 1]]
    return ops


def gen_cache_trace(seed, faults, kinds=("wb", "wt")):
    r = R.stream(seed, "config")
    cfg = gen_config(r, kinds)
    r = R.stream(seed, "ops")
    ctx = _Ctx(r, cfg, faults)
    dm = R.deep(r)
    n = r.choice([r.randint(1, 12), r.randint(5, 40), r.randint(20, 80)]) * dm
    marathon = R.marathon(seed)
    if marathon:
        n = marathon
        rm = R.stream(seed, "marathon-shape")
        if rm.random() < 0.5:
            # wide marathon: hundreds of different blocks, so that the backing memory, the tables and any index a
            # memory system keeps grow past a few hundred / a thousand entries
            ctx.nblocks = rm.choice([40, 130, 300])
            ctx.sets_used = min(1 << cfg["ib"], 4)
        else:
            ctx.sets_used = 1  # narrow marathon: one set takes every access
    p_write = r.choice([0.2, 0.5, 0.5, 0.8])
    p_fault = r.choice([0.05, 0.1, 0.2]) if faults else 0.0
    p_unc = r.choice([0.0, 0.1, 0.3])
    ops = []
    # optional preload right after creation (what the parser does)
    if r.random() < 0.4:
        for _ in range(r.randint(1, 6)):
            w = r.choice([1, 2, 4])
            ops.append(["PRE", w, ctx.aligned_addr(w), ctx.value(w)])
    while len(ops) < n:
        k = r.random()
        if k < 0.12:
            ops += _motif(ctx)
        elif k < 0.15:
            ops.append(["INSPECT"])
        elif k < (0.165 if not marathon else 0.151):
            ops.append(["RESET"])
            if r.random() < 0.5:
                for _ in range(r.randint(1, 4)):
                    w = r.choice([1, 2, 4])
                    ops.append(["PRE", w, ctx.aligned_addr(w), ctx.value(w)])
        else:
            ops.append(_rw(ctx, p_write, p_fault, p_unc))
    if marathon:
        # marathons keep about one reset in twenty-five (motifs bring one every 150 operations or so), so that counts and
        # ages grow into the thousands; a parser-style preload only ever follows a reset, so it goes with it
        rk = R.stream(seed, "marathon-resets")
        kept, dropping = [], False
        wide = ctx.nblocks >= 40
        for op in ops:
            if op[0] == "INSPECT" and wide and marathon > 1000 and rk.random() < 0.9:
                continue  # the repository's table read-out costs 0.1 s once thousands of words exist
            if op[0] == "RESET":
                dropping = rk.random() >= 0.04
                if dropping:
                    continue
            elif op[0] == "PRE" and dropping and kept:
                continue
            else:
                dropping = False
            kept.append(op)
        ops = kept
    return {"config": cfg, "faults": bool(faults), "decoy": r.random() < 0.25, "ops": ops[: max(100 * dm, marathon + 20)]}


# ---------------------------------------------------------------------------
# flat memory (C18): RISC-V and TOY configuration


def gen_flat_trace(seed, faults):
    r = R.stream(seed, "config")
    toy = r.random() < 0.3
    full = (not toy) and r.random() < 0.25
    cfg = {"kind": "toy" if toy else "flat-full" if full else "flat"}
    r = R.stream(seed, "ops")
    if toy:
        lo, hi, cw, widths = 0, 4096, 2, [2, 4, 8]  # widths in bytes; cell = 2 bytes
    elif full:
        lo, hi, cw, widths = 0, 2**32, 1, [1, 2, 4, 8]
    else:
        lo, hi, cw, widths = DATA_MIN, 2**32, 1, [1, 2, 4, 8]
    counter = [0]

    small = r.random() < 0.3  # value personality: zeros, small and repeated values (overwriting with 0, equal stores)
    last = [0]

    def value(w):
        counter[0] += 1
        c = counter[0]
        if small and r.random() < 0.5:
            v = r.choice([0, 0, 1, 255, 256, 0x80, 0xFFFF, last[-1]]) & ((1 << (8 * w)) - 1)
            last.append(v)
            return v
        v = 0
        for i in range(w):
            v |= ((c * 29 + i * 53 + 7) & 0xFF) << (8 * i)
        last.append(v)
        return v

    window = r.choice([lo, lo, lo + r.randrange(0, 64), hi - 40, (lo + hi) // 2])
    ops = []
    n = r.choice([r.randint(1, 10), r.randint(5, 40), r.randint(20, 80)])
    marathon = R.marathon(seed)
    n = marathon or n
    # wide marathon: thousands of different cells (the cell map and the tables grow past 256 / 1024 / 4096 entries)
    span = R.stream(seed, "marathon-shape").choice([24, 700, 3000]) if marathon else 24
    p_inspect = 0.03 if not marathon else R.stream(seed, "marathon-inspect").choice([0.03, 0.004])  # long stretches without a look
    for _ in range(n):
        w = r.choice(widths)
        k = r.random()
        if not faults or k < 0.7:
            a = window + r.randrange(0, span)
            if a < lo:
                a = lo
            if a + w // cw > hi:
                a = hi - w // cw
        elif k < 0.80:
            a = lo - r.randint(1, 9)
        elif k < 0.90:
            a = hi - r.randint(1, 9)
        elif k < 0.95:
            a = hi + r.randint(0, 9)
        elif k < 0.97:
            a = -r.randint(1, 9)
        else:
            a = (2**32 + lo + r.randrange(0, 8)) if not toy else hi + 5
        if not toy and r.random() < 0.06:
            # the same cell through an alias several periods of 2^32 away (addresses are taken modulo 2^32)
            a = (a % 2**32) + r.choice([-3, -2, -1, 1, 2, 3, 5, 1 << 8]) * 2**32
        if toy and faults and r.random() < 0.06:
            # TOY: no wrap-around of any period - addresses far outside must be rejected, not folded
            a = (a % 4096) + r.choice([1, 2, 16, -1, -16, 1 << 16, 1 << 20]) * r.choice([4096, 65536, 2**32])
        if r.random() < 0.5:
            ops.append(["W", w, a, value(w)])
        else:
            ops.append(["R", w, a, 0])
        if r.random() < p_inspect:
            ops.append(["INSPECT"])
        if r.random() < (0.01 if not marathon else 0.002):
            ops.append(["RESET"])
    return {"config": cfg, "faults": bool(faults), "ops": ops}
