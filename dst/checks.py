"""Registry: property id -> CheckDef (which batches of which engine decide it)."""
from .core.batch import CheckDef

MEM_REAL = [
    "uarch/memory/memory.py (Memory)",
    "uarch/memory/write_back_memory_system.py",
    "uarch/memory/write_through_memory_system.py",
    "uarch/memory/base_cache_memory_system.py",
    "uarch/memory/cache.py (Cache, CacheSet, CacheBlock)",
    "uarch/memory/replacement_strategies.py (LRU, PLRU)",
    "uarch/memory/decoded_address.py",
    "util/integer_manipulation.py",
    "uarch/riscv/riscv_performance_metrics.py (cycle counter)",
]
MEM_STUB = ["the caller of the memory system (normally the MEM stage / the parser) is the simulator"]

_REG = None


def registry():
    global _REG
    if _REG is not None:
        return _REG
    from .memsim import engine as M

    reg = {}

    def add(cd):
        reg[cd.prop] = cd

    mem_state = (
        "distinct abstractions (per set: (valid, dirty, tag) of every way + replacement state) of the "
        "implementation's cache reached after any operation; transitions = distinct (state, op kind, width, state')"
    )
    add(
        CheckDef(
            prop="C03",
            title="data cache is transparent",
            batches=[
                M.CacheHistories("mem-faultfree", False, 60000, 900000),
                M.CacheHistories("mem-faults", True, 60000, 900000),
            ],
            design_ref="DESIGN.md §5, §7 C03",
            rule=(
                "memsim: seeded access histories (<=100 ops: R/W of 1/2/4 bytes, counted/uncounted, preload, reset, "
                "inspect; F-access faults: word-crossing, below 0x4000, wrapping past 2^32, negative, >=2^32) against "
                "WriteBack/WriteThrough systems of random tiny geometries; every read compared with a byte map, every "
                "must-reject access must raise and leave the logical content unchanged, final sweep reads every touched "
                "word. pipesim: programs in {single,five} x {cache off,on}. A run is non-trivial iff >=3 accesses were "
                "accepted and an eviction or a rejected access happened (memsim) / >=3 instructions retired with a load "
                "or store (pipesim); distinct = distinct event-log digest."
            ),
            components_real=MEM_REAL,
            components_stub=MEM_STUB,
            assumptions=[
                "white-box reads of cache.sets[i].blocks[j] and memory.memory_file are side-effect free",
                "preloads happen only on an untouched hierarchy (their only caller is the parser)",
            ],
            state_measure=mem_state,
            time_unit="operations issued; penalty_ticks = miss penalties added to the simulated cycle counter",
            required_probes=[
                "eviction (wb)",
                "eviction (wt)",
                "crossing write on miss (wt)",
                "crossing write on hit (wt)",
                "crossing read on miss (wb)",
                "uncounted read that misses",
            ],
        )
    )
    add(
        CheckDef(
            prop="C09",
            title="data-cache hit/miss accounting and penalties",
            batches=[
                M.CacheHistories("mem-faultfree", False, 60000, 900000),
                M.CacheHistories("mem-faults", True, 40000, 600000),
            ],
            design_ref="DESIGN.md §5, §7 C09",
            rule=(
                "memsim: same histories as C03; (hits, accesses, last_hit) and residency compared with an independent "
                "reference cache after every accepted counted access, cycle-counter delta == penalty iff miss; uncounted "
                "reads, preloads and inspections must leave counters and cycles untouched. Non-trivial iff >=3 accepted "
                "accesses and an eviction or rejected access; distinct = distinct event-log digest."
            ),
            components_real=MEM_REAL,
            components_stub=MEM_STUB,
            assumptions=[
                "after a rejected access or an uncounted read the reference's residency/replacement state is "
                "re-synchronised from the implementation (C09 places those outside the accounting claim); the number of "
                "re-synchronisations is reported under oracle_relaxations_applied",
            ],
            state_measure=mem_state,
            time_unit="operations issued; penalty_ticks = miss penalties added to the simulated cycle counter",
            required_probes=["write miss under no-write-allocate", "read-allocate", "eviction (wb)"],
        )
    )
    add(
        CheckDef(
            prop="C10",
            title="replacement policies",
            batches=[
                M.CacheHistories("mem-faultfree", False, 40000, 600000),
                M.CacheHistories("mem-faults", True, 20000, 300000),
                M.PolicyWalks("policy-walk", 60000, 900000),
            ],
            design_ref="DESIGN.md §5, §7 C10",
            rule=(
                "memsim: on every accepted access the way touched / the way displaced by an observed fill must be the "
                "one an independent LRU (timestamps) / PLRU (explicit recursive tree) predicts, and get_repr() of every "
                "set must equal the reference ranks / tree bits; plus a policy-level walk driving LRU(n)/PLRU(n) "
                "directly for n<=16 (access, access-same-twice, victim-then-fill, query). Non-trivial iff the walk has "
                ">=3 steps and n>=2 / the history has an eviction; distinct = distinct event-log digest."
            ),
            components_real=MEM_REAL,
            components_stub=MEM_STUB,
            assumptions=["sampling of policy states, not the exhaustive exploration the property text suggests"],
            state_measure=mem_state + "; policy walk: distinct (policy, ways, get_repr()) values",
            time_unit="operations issued",
            required_probes=["fill displacing a valid block", "policy touch on hit", "plru tree of depth >= 2 exercised"],
        )
    )
    add(
        CheckDef(
            prop="C12",
            title="write-through current, write-back never loses",
            batches=[
                M.CacheHistories("mem-faultfree", False, 50000, 800000),
                M.CacheHistories("mem-faults", True, 50000, 800000),
            ],
            design_ref="DESIGN.md §5, §7 C12",
            rule=(
                "memsim: same histories as C03; after every operation, for every touched word of the affected set(s): "
                "write-through: backing == logical and resident == backing; write-back: resident == logical, non-resident "
                "=> backing == logical; the memory table values equal the backing store; full sweep at the end. "
                "Non-trivial iff >=3 accepted accesses and an eviction or rejected access; distinct = event-log digest."
            ),
            components_real=MEM_REAL,
            components_stub=MEM_STUB,
            assumptions=["white-box reads of resident blocks and memory_file are side-effect free"],
            state_measure=mem_state,
            time_unit="operations issued",
            required_probes=["eviction (wb)", "eviction (wt)"],
        )
    )
    add(
        CheckDef(
            prop="C18",
            title="flat memory is a little-endian byte store",
            batches=[
                M.FlatHistories("flat-faultfree", False, 60000, 900000),
                M.FlatHistories("flat-faults", True, 60000, 900000),
            ],
            design_ref="DESIGN.md §5, §7 C18",
            rule=(
                "memsim: histories of reads/writes of all widths (incl. double word) on the flat Memory in the RISC-V "
                "configuration (byte cells, modulo 2^32, range [2^14,2^32)) and the TOY configuration (16-bit cells, 4096 "
                "addresses, no wrap) against a byte/cell map; MemoryAddressError iff a touched cell is out of range; an "
                "entirely-outside access changes nothing. Non-trivial iff >=3 accesses accepted; distinct = digest."
            ),
            components_real=["uarch/memory/memory.py (Memory)"],
            components_stub=MEM_STUB,
            assumptions=[
                "a write that is only partially outside the range may tear: the in-range cells are accepted as old-or-new "
                "(the statement only claims 'entirely outside changes nothing'); counted under oracle_relaxations_applied",
            ],
            state_measure="distinct small memory images (<64 cells) at the end of a run",
            time_unit="operations issued",
            required_probes=["unaligned access", "doubleword read", "accepted access through modulo-2^32 addressing"],
        )
    )
    _REG = reg
    return reg
