"""Differential check for property C11 (instruction cache transparency and
fetch accounting).

Self-contained: generates random RV32IM programs (loops larger and smaller
than the cache, branches into the middle of a block, calls), random cache
geometries / replacement policies / miss penalties, runs every case in both
pipeline modes with and without an instruction cache, records the fetch
addresses, feeds them to an independent reference cache model and prints a
digest of every observable the property talks about.  A second part drives
InstructionMemoryCacheSystem directly with random fetch sequences and
reset+reload sequences.

The output must be byte-identical on the unchanged and on the changed code.
"""
import hashlib
import random
import sys

import architecture_simulator
from architecture_simulator.simulation.riscv_simulation import RiscvSimulation
from architecture_simulator.uarch.memory.cache import CacheOptions
from architecture_simulator.uarch.memory.instruction_memory import InstructionMemory
from architecture_simulator.uarch.memory.instruction_memory_cache_system import (
    InstructionMemoryCacheSystem,
)
from architecture_simulator.uarch.riscv.pipeline_registers import PipelineRegister
from architecture_simulator.uarch.riscv.riscv_performance_metrics import (
    RiscvPerformanceMetrics,
)
from architecture_simulator.isa.riscv.rv32i_instructions import ADDI

MODES = ["single_stage_pipeline", "five_stage_pipeline"]
MAX_STEPS = 60000


# --------------------------------------------------------------------------
# independent reference cache (tags only)
# --------------------------------------------------------------------------
class RefSet:
    def __init__(self, assoc, policy):
        self.assoc = assoc
        self.policy = policy
        self.tags = [None] * assoc
        if policy == "lru":
            self.order = list(range(assoc))  # front = next victim
        else:
            self.tree = [0] * (assoc - 1)

    def _touch(self, way):
        if self.policy == "lru":
            self.order.remove(way)
            self.order.append(way)
        else:
            node = way + self.assoc - 1
            while node > 0:
                parent = (node - 1) // 2
                self.tree[parent] = 1 if node % 2 == 1 else 0
                node = parent

    def _victim(self):
        if self.policy == "lru":
            return self.order[0]
        node = 0
        while node < self.assoc - 1:
            node = 2 * node + 2 if self.tree[node] else 2 * node + 1
        return node - (self.assoc - 1)

    def access(self, tag):
        for way, t in enumerate(self.tags):
            if t is not None and t == tag:
                self._touch(way)
                return True
        way = self._victim()
        self.tags[way] = tag
        self._touch(way)
        return False


class RefCache:
    def __init__(self, index_bits, block_bits, assoc, policy):
        self.index_bits = index_bits
        self.block_bits = block_bits
        self.sets = [RefSet(assoc, policy) for _ in range(2**index_bits)]
        self.hits = 0
        self.accesses = 0

    def fetch(self, address):
        block_no = address >> (2 + self.block_bits)
        index = block_no & (2**self.index_bits - 1)
        tag = block_no >> self.index_bits
        hit = self.sets[index].access(tag)
        self.accesses += 1
        self.hits += int(hit)
        return hit


# --------------------------------------------------------------------------
# random program generator (always terminating)
# --------------------------------------------------------------------------
REGS = list(range(5, 16))
R_OPS = ["add", "sub", "xor", "or", "and", "sll", "srl", "sra", "slt", "sltu", "mul"]
I_OPS = ["addi", "xori", "ori", "andi", "slti"]
SH_OPS = ["slli", "srli", "srai"]
BR_OPS = ["beq", "bne", "blt", "bge", "bltu", "bgeu"]


class Gen:
    def __init__(self, rng):
        self.rng = rng
        self.lines = []
        self.label_no = 0
        self.funcs = []

    def label(self):
        self.label_no += 1
        return f"L{self.label_no}"

    def alu(self):
        r = self.rng
        k = r.random()
        if k < 0.45:
            self.lines.append(
                f"{r.choice(R_OPS)} x{r.choice(REGS)}, x{r.choice(REGS)}, x{r.choice(REGS)}"
            )
        elif k < 0.8:
            self.lines.append(
                f"{r.choice(I_OPS)} x{r.choice(REGS)}, x{r.choice(REGS)}, {r.randint(-2048, 2047)}"
            )
        elif k < 0.9:
            self.lines.append(
                f"{r.choice(SH_OPS)} x{r.choice(REGS)}, x{r.choice(REGS)}, {r.randint(0, 31)}"
            )
        elif k < 0.95:
            self.lines.append(f"sw x{r.choice(REGS)}, {4 * r.randint(0, 31)}(x4)")
        else:
            self.lines.append(f"lw x{r.choice(REGS)}, {4 * r.randint(0, 31)}(x4)")

    def straight(self, n):
        for _ in range(n):
            self.alu()

    def skip(self):
        """forward conditional branch over a few instructions -> lands in the
        middle of a cache block most of the time"""
        r = self.rng
        lab = self.label()
        self.lines.append(
            f"{r.choice(BR_OPS)} x{r.choice(REGS)}, x{r.choice(REGS)}, {lab}"
        )
        self.straight(r.randint(1, 9))
        self.lines.append(f"{lab}:")

    def jump(self):
        lab = self.label()
        self.lines.append(f"jal x0, {lab}")
        self.straight(self.rng.randint(1, 6))
        self.lines.append(f"{lab}:")

    def call(self):
        name = self.label()
        self.lines.append(f"jal x1, {name}")
        self.funcs.append((name, self.rng.randint(1, 12)))

    def loop(self, counter, depth):
        r = self.rng
        lab = self.label()
        self.lines.append(f"addi x{counter}, x0, {r.randint(1, 5)}")
        self.lines.append(f"{lab}:")
        size = r.choice([1, 2, 3, 5, 8, 13, 21, 34, 55])
        done = 0
        while done < size:
            k = r.random()
            if k < 0.12:
                self.skip()
                done += 3
            elif k < 0.17:
                self.jump()
                done += 3
            elif k < 0.22:
                self.call()
                done += 1
            elif k < 0.3 and depth == 0 and size > 5:
                self.loop(29, 1)
                done += 5
            else:
                self.alu()
                done += 1
        self.lines.append(f"addi x{counter}, x{counter}, -1")
        self.lines.append(f"bne x{counter}, x0, {lab}")

    def program(self):
        r = self.rng
        self.lines.append("lui x4, 4")
        for reg in REGS:
            self.lines.append(f"addi x{reg}, x0, {r.randint(-2048, 2047)}")
        for _ in range(r.randint(1, 4)):
            k = r.random()
            if k < 0.55:
                self.loop(28, 0)
            elif k < 0.7:
                self.skip()
            elif k < 0.8:
                self.call()
            else:
                self.straight(r.randint(1, 20))
        self.lines.append("jal x0, END")
        for name, n in self.funcs:
            self.lines.append(f"{name}:")
            self.straight(n)
            self.lines.append("jalr x0, x1, 0")
        self.lines.append("END:")
        self.straight(r.randint(1, 3))
        return "\n".join(self.lines) + "\n"


def gen_program(rng):
    return Gen(rng).program()


# --------------------------------------------------------------------------
# helpers
# --------------------------------------------------------------------------
def sha(obj):
    return hashlib.sha256(repr(obj).encode()).hexdigest()[:16]


def arch_snapshot(sim):
    regs = [int(sim.state.register_file.registers[i]) for i in range(32)]
    mem = sorted(sim.state.memory.wordwise_repr().items())
    return (regs, sha(mem), sim.state.program_counter, sim.state.exit_code)


def cache_repr_snapshot(imem):
    rep = imem.cache_repr()
    out = []
    for s in rep.sets:
        blocks = [
            (b.valid_bit, b.tag, tuple(b.address_value_list)) for b in s.blocks
        ]
        out.append((s.index, blocks, [int(v) for v in s.replacement_status]))
    return out


def run_guarded(sim):
    steps = 0
    while not sim.is_done():
        sim.step()
        steps += 1
        if steps > MAX_STEPS:
            raise RuntimeError("step limit")
    return steps


def soft_restart(sim):
    """what a user does before re-running after loading another program on the
    same simulation object: PC back to the start, pipeline drained"""
    st = sim.state
    st.program_counter = st.instruction_memory.get_address_range().start
    st.previous_program_counter = st.program_counter
    st.exit_code = None
    st.pipeline.pipeline_registers = [PipelineRegister()] * st.pipeline.num_stages
    st.pipeline.stalled = None
    st.pipeline.stalled_pipeline_regs = None


def instrument(sim, trace):
    """records (address, returned instruction is the one of the lower memory)"""
    imem = sim.state.instruction_memory
    original = imem.read_instruction
    lower = imem.instruction_memory

    def wrapper(address):
        instr = original(address)
        trace.append((address, instr is lower.instructions[address]))
        return instr

    imem.read_instruction = wrapper


def random_geometry(rng):
    policy = rng.choice(["lru", "plru"])
    assoc = rng.choice([1, 2, 4, 8] if policy == "plru" else [1, 2, 3, 4, 8])
    index_bits = rng.choice([0, 0, 1, 2, 3, 4])
    block_bits = rng.choice([0, 1, 2, 3, 4])
    penalty = rng.choice([0, 1, 2, 3, 7, 10, 25, 100])
    return index_bits, block_bits, assoc, policy, penalty


# --------------------------------------------------------------------------
# part A: whole simulations, with reload of a second program
# --------------------------------------------------------------------------
def simulation_case(case_no, rng, violations):
    index_bits, block_bits, assoc, policy, penalty = random_geometry(rng)
    programs = [gen_program(rng) for _ in range(rng.choice([1, 2, 2, 3]))]
    partial_first = rng.random() < 0.3
    rows = []
    for mode in MODES:
        cached = RiscvSimulation(
            mode=mode,
            instruction_cache=CacheOptions(
                True, index_bits, block_bits, assoc, "wb", policy, penalty
            ),
        )
        plain = RiscvSimulation(mode=mode)
        trace = []
        instrument(cached, trace)
        imem = cached.state.instruction_memory
        for load_no, program in enumerate(programs):
            del trace[:]
            cached.load_program(program)
            plain.load_program(program)
            after_load = (imem.hits, imem.accesses, cache_repr_snapshot(imem))
            if any(b[0] != "0" for s in after_load[2] for b in s[1]):
                violations.append((case_no, mode, load_no, "stale block after reload"))
            if after_load[0] != 0 or after_load[1] != 0:
                violations.append((case_no, mode, load_no, "stale counters"))
            soft_restart(cached)
            soft_restart(plain)
            cycles0_c = cached.state.performance_metrics.cycles
            cycles0_p = plain.state.performance_metrics.cycles
            instr0 = cached.state.performance_metrics.instruction_count
            if partial_first and load_no == 0 and len(programs) > 1:
                budget = rng.randint(1, 60)
                for _ in range(budget):
                    cached.step()
                    plain.step()
            else:
                run_guarded(cached)
                run_guarded(plain)
            ref = RefCache(index_bits, block_bits, assoc, policy)
            ref_hits = [ref.fetch(a) for a, _ in trace]
            d_cycles_c = cached.state.performance_metrics.cycles - cycles0_c
            d_cycles_p = plain.state.performance_metrics.cycles - cycles0_p
            d_instr = cached.state.performance_metrics.instruction_count - instr0
            misses = ref.accesses - ref.hits
            stats = imem.get_cache_stats()
            # the property itself
            if arch_snapshot(cached) != arch_snapshot(plain):
                violations.append((case_no, mode, load_no, "results differ"))
            if not all(same for _, same in trace):
                violations.append((case_no, mode, load_no, "wrong instruction"))
            if imem.accesses != len(trace) or stats["accesses"] != str(len(trace)):
                violations.append((case_no, mode, load_no, "access counter"))
            if mode == "single_stage_pipeline" and imem.accesses != d_instr:
                violations.append((case_no, mode, load_no, "one fetch per instr"))
            if imem.hits != ref.hits or stats["hits"] != str(ref.hits):
                violations.append((case_no, mode, load_no, "hit counter"))
            if trace and stats["last_hit"] != ref_hits[-1]:
                violations.append((case_no, mode, load_no, "last_hit"))
            if d_cycles_c != d_cycles_p + misses * penalty:
                violations.append((case_no, mode, load_no, "penalty cycles"))
            rows.append(
                (
                    mode,
                    load_no,
                    sha(arch_snapshot(cached)),
                    len(trace),
                    sha([a for a, _ in trace]),
                    imem.accesses,
                    imem.hits,
                    stats["hits"],
                    stats["accesses"],
                    stats["last_hit"],
                    d_cycles_c,
                    d_cycles_p,
                    d_instr,
                    cached.state.performance_metrics.flushes,
                    cached.state.performance_metrics.stalls,
                    sha(cache_repr_snapshot(imem)),
                    sha(cached.get_instruction_cache_stats()),
                )
            )
    return (index_bits, block_bits, assoc, policy, penalty), rows


# --------------------------------------------------------------------------
# part B: the cache system driven directly
# --------------------------------------------------------------------------
def direct_case(case_no, rng, violations):
    index_bits, block_bits, assoc, policy, penalty = random_geometry(rng)
    metrics = RiscvPerformanceMetrics()
    lower = InstructionMemory()
    imem = InstructionMemoryCacheSystem(
        lower, index_bits, block_bits, assoc, metrics, penalty, policy
    )
    rows = []
    for load_no in range(rng.randint(1, 4)):
        n = rng.choice([1, 2, 3, 5, 7, 8, 9, 15, 16, 17, 31, 33, 64, 100, 257])
        if load_no:
            imem.reset()
        instrs = [ADDI(rng.randint(0, 31), rng.randint(0, 31), i) for i in range(n)]
        imem.write_instructions(instrs)
        if imem.hits or imem.accesses:
            violations.append((case_no, load_no, "stale counters"))
        if any(b[0] != "0" for s in cache_repr_snapshot(imem) for b in s[1]):
            violations.append((case_no, load_no, "stale block"))
        ref = RefCache(index_bits, block_bits, assoc, policy)
        cycles0 = metrics.cycles
        pc = 0
        ok = True
        last = None
        addresses = []
        for _ in range(rng.randint(1, 400)):
            k = rng.random()
            if k < 0.7:
                pc = (pc + 4) % (4 * n)
            elif k < 0.85:
                pc = 4 * rng.randrange(n)
            else:
                pc = max(0, pc - 4 * rng.randint(1, 12))
            instr = imem.read_instruction(pc)
            last = ref.fetch(pc)
            addresses.append(pc)
            ok = ok and instr is instrs[pc // 4] and imem.last_was_hit == last
            if rng.random() < 0.02:
                # visualisation is allowed to look at any time
                cache_repr_snapshot(imem)
                imem.get_cache_stats()
        if not ok:
            violations.append((case_no, load_no, "wrong instruction / last hit"))
        if imem.accesses != ref.accesses or imem.hits != ref.hits:
            violations.append((case_no, load_no, "counters"))
        if metrics.cycles - cycles0 != (ref.accesses - ref.hits) * penalty:
            violations.append((case_no, load_no, "penalty"))
        rows.append(
            (
                load_no,
                n,
                sha(addresses),
                imem.accesses,
                imem.hits,
                imem.last_was_hit,
                tuple(sorted(imem.get_cache_stats().items())),
                metrics.cycles - cycles0,
                sha(cache_repr_snapshot(imem)),
                imem.has_instructions(),
                sha(imem.get_representation()),
            )
        )
    return (index_bits, block_bits, assoc, policy, penalty), rows


def main():
    n_sim = int(sys.argv[1]) if len(sys.argv) > 1 else 100
    n_direct = int(sys.argv[2]) if len(sys.argv) > 2 else 300
    violations = []
    total = hashlib.sha256()
    fetches = 0
    for case_no in range(n_sim):
        rng = random.Random(110000 + case_no)
        geom, rows = simulation_case(case_no, rng, violations)
        fetches += sum(r[3] for r in rows)
        line = f"S{case_no:03d} {geom} {sha(rows)} runs={len(rows)} fetches={sum(r[3] for r in rows)} hits={sum(r[6] for r in rows)}"
        print(line)
        total.update(line.encode())
    for case_no in range(n_direct):
        rng = random.Random(220000 + case_no)
        geom, rows = direct_case(case_no, rng, violations)
        fetches += sum(r[3] for r in rows)
        line = f"D{case_no:03d} {geom} {sha(rows)} loads={len(rows)} acc={sum(r[3] for r in rows)} hits={sum(r[4] for r in rows)}"
        print(line)
        total.update(line.encode())
    print("cases:", n_sim, "simulation +", n_direct, "direct; fetches checked:", fetches)
    print("property violations:", len(violations))
    for v in violations[:20]:
        print("  VIOLATION", v)
    print("digest:", total.hexdigest())


if __name__ == "__main__":
    main()
