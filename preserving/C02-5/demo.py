"""Differential check for C02 (five-stage pipeline with hazard detection == single-cycle).

Self-contained.  Generates programs over the C01 instruction alphabet (fixed seeds),
runs them in single-cycle mode and in five-stage mode with hazard detection and prints
digests of exactly the observables named by the property:

  final registers, data memory, console output, exit code, retired-instruction count,
  taken-branch count, call count, order of retired instructions (clean terminations);
  faulting instruction address + registers, memory, output at that point (faults).

Nothing else is printed (no cycle/stall/flush counters, no exception text, no
counters at a fault, no program counter), so the output is expected to be identical
before and after a behaviour-preserving change.

This variant (demo_2) uses only instructions inside the quantifier of C02 (no CSR / FENCE /
EBREAK) and only the two documented pipeline modes, builds half of the simulations through an
explicitly constructed RiscvArchitecturalState and adds a few assembler-text programs, because
change 2 adds rejection of unsupported instructions / configurations.
"""
import hashlib
import itertools
import random
import sys

from fixedint import UInt32

import architecture_simulator
from architecture_simulator.simulation.riscv_simulation import RiscvSimulation
from architecture_simulator.simulation.runtime_errors import (
    InstructionExecutionException,
)
from architecture_simulator.isa.riscv import rv32i_instructions as I
from architecture_simulator.uarch.riscv.riscv_architectural_state import (
    RiscvArchitecturalState,
)

FIVE = "five_stage_pipeline"
SINGLE = "single_stage_pipeline"
REGS = [0, 1, 2, 3, 5, 10, 17]
DATA = 0x4000  # first legal data address
MAX_STEPS = 300  # single-cycle step bound; programs that need more are skipped

FAULT_WEIGHT = 1


# --------------------------------------------------------------------------------------
# program generation
# --------------------------------------------------------------------------------------
def gen_program(rng: random.Random, n: int):
    prog = []
    R = lambda: rng.choice(REGS)
    while len(prog) < n:
        k = rng.random()
        if k < 0.22:
            cls = rng.choice(
                [I.ADD, I.SUB, I.XOR, I.OR, I.AND, I.SLT, I.SLTU, I.SLL, I.SRL, I.SRA,
                 I.MUL, I.MULH, I.DIV, I.DIVU, I.REM, I.REMU]
            )
            prog.append(cls(rd=R(), rs1=R(), rs2=R()))
        elif k < 0.40:
            cls = rng.choice([I.ADDI, I.XORI, I.ORI, I.ANDI, I.SLTI, I.SLTIU])
            prog.append(cls(rd=R(), rs1=R(), imm=rng.randint(-2048, 2047)))
        elif k < 0.44:
            cls = rng.choice([I.SLLI, I.SRLI, I.SRAI])
            prog.append(cls(rd=R(), rs1=R(), imm=rng.randint(0, 31)))
        elif k < 0.48:
            cls = rng.choice([I.LUI, I.AUIPC])
            prog.append(cls(rd=R(), imm=rng.randint(0, 2**20 - 1)))
        elif k < 0.60:
            cls = rng.choice([I.LW, I.LH, I.LB, I.LBU, I.LHU])
            base = 3 if rng.random() < 0.8 else R()
            prog.append(cls(rd=R(), rs1=base, imm=rng.randint(-12, 24)))
        elif k < 0.72:
            cls = rng.choice([I.SW, I.SH, I.SB])
            base = 3 if rng.random() < 0.8 else R()
            prog.append(cls(rs1=base, rs2=R(), imm=rng.randint(-12, 24)))
        elif k < 0.82:
            cls = rng.choice([I.BEQ, I.BNE, I.BLT, I.BGE, I.BLTU, I.BGEU])
            off = 4 * rng.choice([-3, -2, -1, 1, 2, 2, 3, 3, 4, 5])
            prog.append(cls(rs1=R(), rs2=R(), imm=off))
        elif k < 0.87:
            off = 4 * rng.choice([-2, -1, 1, 2, 3, 4])
            prog.append(I.JAL(rd=rng.choice([0, 1, 5]), imm=off, abs_addr=0))
        elif k < 0.92:
            if rng.random() < 0.7:
                tgt = 4 * rng.randint(0, n + 1)
                prog.append(I.ADDI(rd=1, rs1=0, imm=tgt))
                prog.append(I.JALR(rd=rng.choice([0, 1, 5]), rs1=1, imm=rng.choice([0, 0, 1, 4, -4])))
            else:
                prog.append(I.JALR(rd=R(), rs1=R(), imm=4 * rng.randint(-2, 6)))
        else:
            codes = [1, 2, 4, 11, 34, 35, 36, 10, 93] + [0, 7, 12] * FAULT_WEIGHT
            if rng.random() < 0.8:
                prog.append(I.ADDI(rd=17, rs1=0, imm=rng.choice(codes)))
            if rng.random() < 0.3:
                prog.append(I.ADDI(rd=10, rs1=3, imm=rng.randint(-4, 8)))
            prog.append(I.ECALL())
    return prog


def gen_init(rng: random.Random):
    regs = {}
    regs[1] = 4 * rng.randint(0, 12)
    regs[2] = rng.choice([rng.getrandbits(32), rng.randint(0, 5), 0xFFFFFFFF, 0x80000000])
    bad = [0, 0x3FFE, 0x3FFF, 0xFFFFFFFC, 0xFFFFFFFF, 12] * FAULT_WEIGHT
    regs[3] = rng.choice([DATA + 4 * rng.randint(0, 16)] * 14 + [DATA, DATA + 2, DATA + 13] + bad)
    regs[5] = rng.choice([rng.randint(-3, 3) & 0xFFFFFFFF, rng.getrandbits(32)])
    regs[10] = rng.choice([DATA + rng.randint(0, 40), rng.getrandbits(32), 65, 0])
    regs[17] = rng.choice([1, 4, 10, 11, 34, 35, 36, 93, 93, 0, 5, rng.getrandbits(8)])
    mem = {DATA + i: rng.choice([0, 0, rng.randint(1, 255), rng.randint(32, 126)]) for i in range(0, 72)}
    return regs, mem


# --------------------------------------------------------------------------------------
# running
# --------------------------------------------------------------------------------------
def snapshot(sim):
    st = sim.state
    regs = tuple(int(r) for r in st.register_file.registers)
    mem = tuple(sorted((a, v[1]) for a, v in st.memory.wordwise_repr().items()))
    return regs, mem, st.output


_toggle = [0]


def run(mode, prog, init, max_steps):
    regs, mem = init
    _toggle[0] += 1
    if _toggle[0] % 4 < 2:
        sim = RiscvSimulation(mode=mode, detect_data_hazards=True)
    else:
        state = RiscvArchitecturalState(pipeline_mode=mode, detect_data_hazards=True)
        sim = RiscvSimulation(state=state, mode=mode)
    if isinstance(prog, str):
        sim.load_program(prog)
    else:
        sim.state.instruction_memory.write_instructions(list(prog))
    for r, v in regs.items():
        sim.state.register_file.registers[r] = UInt32(v)
    for a, v in mem.items():
        sim.state.memory.write_byte(a, I.fixedint.UInt8(v))
    pm = sim.state.performance_metrics
    retired = []
    steps = 0
    while not sim.is_done():
        if steps >= max_steps:
            return ("nonterm",)
        steps += 1
        before = pm.instruction_count
        if mode == FIVE:
            about_to_retire = sim.state.pipeline.pipeline_registers[3].address_of_instruction
        else:
            about_to_retire = sim.state.program_counter
        try:
            sim.step()
        except InstructionExecutionException as e:
            if mode == FIVE and pm.instruction_count > before:
                retired.append(about_to_retire)
            return ("fault", e.address, tuple(retired)) + snapshot(sim)
        if mode == FIVE:
            if pm.instruction_count > before:
                retired.append(about_to_retire)
        else:
            retired.append(about_to_retire)
    return (
        "done",
        sim.state.exit_code,
        pm.instruction_count,
        pm.branch_count,
        pm.procedure_count,
        tuple(retired),
    ) + snapshot(sim)


class Batch:
    def __init__(self, name):
        self.name = name
        self.h1 = hashlib.sha256()
        self.h5 = hashlib.sha256()
        self.n = self.done = self.fault = self.exits = self.nonterm = self.mismatch = 0
        self.first_mismatch = None

    def add(self, prog, init, max_steps=MAX_STEPS):
        self.n += 1
        a = run(SINGLE, prog, init, max_steps)
        if a[0] == "nonterm":
            self.nonterm += 1
            return
        b = run(FIVE, prog, init, 12 * max_steps + 40)
        self.h1.update(repr(a).encode())
        self.h5.update(repr(b).encode())
        if a[0] == "done":
            self.done += 1
            self.exits += a[1] is not None
        else:
            self.fault += 1
        if a != b:
            self.mismatch += 1
            if self.first_mismatch is None:
                self.first_mismatch = self.n

    def report(self):
        print(
            f"{self.name}: cases={self.n} done={self.done} (exit-ecall={self.exits}) "
            f"fault={self.fault} skipped-nonterm={self.nonterm} mode-mismatches={self.mismatch}"
            f" first-mismatch-case={self.first_mismatch}"
        )
        print(f"  single digest {self.h1.hexdigest()[:32]}")
        print(f"  five   digest {self.h5.hexdigest()[:32]}")


def random_batch(name, seed, cases, lo, hi):
    rng = random.Random(seed)
    b = Batch(name)
    for _ in range(cases):
        prog = gen_program(rng, rng.randint(lo, hi))
        b.add(prog, gen_init(rng))
    b.report()


def exhaustive_batch(name, alphabet, max_len, init):
    b = Batch(name)
    for n in range(1, max_len + 1):
        for seq in itertools.product(alphabet, repeat=n):
            b.add([f() for f in seq], init)
    b.report()


TEXTS = [
    """
    addi a0, zero, 9
    addi s0, zero, 1
    addi sp, zero, 1024
    lui t0, 4
    add sp, sp, t0
    jal ra, Fib
    addi a7, zero, 1
    ecall
    addi a7, zero, 93
    ecall
Fib:
    bgeu s0, a0, FibReturn
    addi sp, sp, -8
    sw ra, 4(sp)
    sw a0, 0(sp)
    addi a0, a0, -1
    jal ra, Fib
    lw t1, 0(sp)
    sw a0, 0(sp)
    addi a0, t1, -2
    jal ra, Fib
    lw t1, 0(sp)
    add a0, a0, t1
    lw ra, 4(sp)
    addi sp, sp, 8
FibReturn:
    jalr zero, ra, 0
""",
    """
.data
    text: .string "sum="
    vals: .word 3, 5, 7, 11, 13
.text
    la a0, text
    li a7, 4
    ecall
    la t0, vals
    li t1, 5
    li a0, 0
loop:
    lw t2, 0(t0)
    add a0, a0, t2
    addi t0, t0, 4
    addi t1, t1, -1
    bne t1, zero, loop
    li a7, 1
    ecall
    li a7, 11
    li a0, 10
    ecall
    sw a0, 0(t0)
    lh a1, 0(t0)
    lb a2, -4(t0)
""",
    """
    li t0, 0x4000
    li t1, 0x12345678
    sw t1, 0(t0)
    lb t2, 1(t0)
    lbu t3, 3(t0)
    sh t2, 6(t0)
    lw t4, 4(t0)
    beq t4, zero, skip
    sb t3, 9(t0)
skip:
    lw t5, 8(t0)
    mul t6, t5, t4
    div a0, t6, t3
    li a7, 34
    ecall
    li a7, 10
    ecall
    sw t1, 12(t0)
""",
    """
    li a7, 36
    li a0, 3
again:
    ecall
    addi a0, a0, -1
    bge a0, zero, again
    lw a1, 0(zero)
    li a7, 10
    ecall
""",
]


def text_batch():
    b = Batch("assembler texts")
    for t in TEXTS:
        b.add(t, ({}, {}), max_steps=3000)
    b.report()


def main():
    random_batch("random short", 4101, 250, 3, 8)
    random_batch("random medium", 4202, 250, 8, 20)
    random_batch("random long", 4303, 120, 20, 45)
    text_batch()

    # small-scope exhaustive: a hazard-complete alphabet with two faulting members
    alphabet = [
        lambda: I.ADDI(rd=1, rs1=1, imm=4),
        lambda: I.ADD(rd=2, rs1=1, rs2=3),
        lambda: I.LW(rd=1, rs1=3, imm=0),
        lambda: I.SW(rs1=3, rs2=1, imm=4),
        lambda: I.LW(rd=2, rs1=1, imm=0),       # faults unless x1 became a pointer
        lambda: I.BNE(rs1=1, rs2=2, imm=8),
        lambda: I.BEQ(rs1=0, rs2=0, imm=8),
        lambda: I.JAL(rd=1, imm=8, abs_addr=0),
        lambda: I.JALR(rd=5, rs1=1, imm=0),
        lambda: I.ADDI(rd=17, rs1=17, imm=-92),  # 93 -> 1 -> -91 ...
        lambda: I.ECALL(),
    ]
    init = ({1: 8, 2: 8, 3: DATA + 8, 5: 0, 10: 77, 17: 93}, {DATA + 8: 0x10, DATA + 9: 0x40})
    exhaustive_batch("exhaustive len<=3", alphabet, 3, init)
    return 0


if __name__ == "__main__":
    sys.exit(main())
