"""demo_1.py - differential check for property C13 (lifecycle), written for
change 1 ("reloading a started simulation starts afresh").

Self-contained.  Run it with the worktree forced onto the path:
    cd /tmp/wtR2_C13 && PYTHONPATH=/tmp/wtR2_C13 /venv/bin/python /tmp/outR2_C13/demo_1.py
It generates random RV32IM and TOY programs (empty, falling off the end,
jumping outside the program, exiting via ecall with younger instructions
behind it, faulting) and random configurations (single-cycle / five-stage,
hazard detection, data and instruction caches) with fixed seeds and prints
 * a digest of every observable result the property talks about (state after
   load, number of steps, outcome, final state, exception texts), and
 * for every clause of C13 how often it held / failed.
Loads into a simulation that has ALREADY STARTED are outside the reload
clause; they are exercised too, but only violations of the remaining
clauses are counted there and nothing about the state is printed.
The output must be identical with and without the change.  Exit code 0.
"""
import dataclasses
import hashlib
import random
import sys

from architecture_simulator.simulation.riscv_simulation import RiscvSimulation
from architecture_simulator.simulation.toy_simulation import ToySimulation
from architecture_simulator.uarch.memory.cache import CacheOptions

STEP_CAP = 1500


# --------------------------------------------------------------------------
# program generators
# --------------------------------------------------------------------------
DST = [1, 3, 4, 6, 7, 8, 9, 11, 12]
SRC = [0, 1, 2, 3, 4, 5, 6, 7, 8, 9, 10, 11, 12]


def _simple(rng, has_arr):
    k = rng.randrange(12)
    rd = rng.choice(DST)
    a = rng.choice(SRC)
    b = rng.choice(SRC)
    if k == 0:
        return "addi x%d, x%d, %d" % (rd, a, rng.randint(-50, 50))
    if k == 1:
        return "%s x%d, x%d, x%d" % (
            rng.choice(["add", "sub", "and", "or", "xor", "slt", "sltu"]),
            rd,
            a,
            b,
        )
    if k == 2:
        return "%s x%d, x%d, x%d" % (
            rng.choice(["mul", "div", "rem", "divu", "mulh"]),
            rd,
            a,
            b,
        )
    if k == 3:
        return "slli x%d, x%d, %d" % (rd, a, rng.randint(0, 7))
    if k == 4:
        return "lui x%d, %d" % (rd, rng.randint(0, 20))
    if k in (5, 6):
        off = rng.choice([0, 4, 8, 12, 16, 20, 32, 36, 64, 0, 4, 8, 2, 3])
        return "%s x%d, %d(x2)" % (rng.choice(["sw", "sh", "sb"]), b, off)
    if k in (7, 8):
        off = rng.choice([0, 4, 8, 12, 16, 20, 32, 36, 64, 0, 4, 8, 2, 3])
        return "%s x%d, %d(x2)" % (
            rng.choice(["lw", "lh", "lb", "lhu", "lbu"]),
            rd,
            off,
        )
    if k == 9 and has_arr:
        return "la x%d, arr" % rd
    if k == 10:
        return "nop"
    return "addi x%d, x0, %d" % (rd, rng.randint(0, 9))


def gen_riscv(rng):
    """A terminating (or faulting) random RV32IM program in text form."""
    kind = rng.random()
    if kind < 0.05:
        return rng.choice(["", "\n\n", "# nothing here\n", ".data\nq: .word 1, 2\n.text\n"])
    lines = []
    has_arr = rng.random() < 0.45
    has_msg = False
    if has_arr:
        lines.append(".data")
        lines.append(
            "arr: .word "
            + ", ".join(str(rng.randrange(0, 1000)) for _ in range(rng.randint(1, 6)))
        )
        if rng.random() < 0.5:
            has_msg = True
            lines.append('msg: .string "hi%d"' % rng.randrange(100))
        if rng.random() < 0.3:
            lines.append("hw: .half 1, 2, 3")
        if rng.random() < 0.3:
            lines.append("by: .byte 7, 8")
        lines.append(".text")
    lines.append("lui x2, 4")  # x2 = 0x4000: first data address
    n = rng.randint(0, 22)
    label_at = {}
    chunks = []
    nlabel = 0
    for i in range(n):
        r = rng.random()
        if r < 0.12 and i + 1 <= n:
            # forward branch / jump
            j = rng.randint(i + 1, n)
            nlabel += 1
            name = "L%d" % nlabel
            label_at.setdefault(j, []).append(name)
            if rng.random() < 0.7:
                chunks.append(
                    [
                        "%s x%d, x%d, %s"
                        % (
                            rng.choice(["beq", "bne", "blt", "bge", "bltu"]),
                            rng.choice(SRC),
                            rng.choice(SRC),
                            name,
                        )
                    ]
                )
            else:
                chunks.append(["jal x%d, %s" % (rng.choice([0, 1]), name)])
        elif r < 0.20:
            # bounded loop on x5
            nlabel += 1
            name = "loop%d" % nlabel
            body = [_simple(rng, has_arr) for _ in range(rng.randint(0, 3))]
            chunks.append(
                ["addi x5, x0, %d" % rng.randint(1, 4), name + ":"]
                + body
                + ["addi x5, x5, -1", "bne x5, x0, " + name]
            )
        elif r < 0.28:
            # print ecalls
            c = rng.random()
            if c < 0.4:
                chunks.append(
                    ["addi a0, x0, %d" % rng.randint(-9, 99), "addi a7, x0, 1", "ecall"]
                )
            elif c < 0.7:
                chunks.append(
                    ["addi a0, x0, %d" % rng.randint(65, 90), "addi a7, x0, 11", "ecall"]
                )
            elif has_msg:
                chunks.append(["la a0, msg", "addi a7, x0, 4", "ecall"])
            else:
                chunks.append(
                    ["addi a0, x0, %d" % rng.randint(0, 255), "addi a7, x0, 34", "ecall"]
                )
        else:
            chunks.append([_simple(rng, has_arr)])
    for i, chunk in enumerate(chunks):
        for name in label_at.get(i, []):
            lines.append(name + ":")
        lines.extend(chunk)
    for name in label_at.get(n, []):
        lines.append(name + ":")
    if label_at.get(n):
        lines.append("nop")
    # ending
    e = rng.random()
    trailing = [_simple(rng, has_arr) for _ in range(rng.randint(0, 3))]
    if e < 0.25:
        pass  # fall off the end
    elif e < 0.45:
        lines += ["addi a7, x0, 10", "ecall"] + trailing
    elif e < 0.60:
        lines += [
            "addi a0, x0, %d" % rng.randint(0, 200),
            "addi a7, x0, 93",
            "ecall",
        ] + trailing
    elif e < 0.70:
        lines += ["lw x1, 0(x0)"] + trailing  # data memory starts at 2**14
    elif e < 0.78:
        lines += ["addi a7, x0, 77", "ecall"] + trailing  # invalid ecall code
    elif e < 0.90:
        lines += [
            "addi x6, x0, %d" % rng.choice([1000, 2000, 2044]),
            "jalr x0, x6, 0",
        ] + trailing  # jump outside of the program
    elif e < 0.95:
        lines += ["ebreak"] + trailing
    else:
        lines += ["jal x0, END", "addi x1, x1, 1", "END:"]
    return "\n".join(lines) + "\n"


BAD_RISCV = [
    "addi x1, x0\n",
    "foo x1, x2, x3\n",
    "beq x0, x0, nowhere\n",
    ".data\na: .word 1, 2, 3\nb: .byte 9\n.text\naddi x1\n",
    ".data\na: .word 1\na: .word 2\n.text\nnop\n",
    "addi x1, x0, 1\nbeq x0, x0, 3\n",
    ".data\ns: .string \"abc\"\nz: .word 5\n.text\nla x1, nothere\n",
    "addi x1, x0, 5\naddi x1, x0, 99999999999999999999999999999x\n",
    ".data\nd: .word 4, 5\n.text\nbeq x0, x0, nowhere\n",
]

TOY_ADDR = ["STO", "LDA", "BRZ", "ADD", "SUB", "OR", "AND", "XOR"]
TOY_NOADDR = ["NOT", "INC", "DEC", "ZRO", "NOP"]


def gen_toy(rng):
    kind = rng.random()
    if kind < 0.05:
        return rng.choice(["", "\n", "# nothing\n", ".data\nv: .word 3\n"])
    n = rng.randint(1, 14)
    lines = []
    has_data = rng.random() < 0.5
    for i in range(n):
        r = rng.random()
        if r < 0.45:
            lines.append(rng.choice(TOY_NOADDR))
        elif r < 0.55:
            # forward branch only (BRZ jumps if accu == 0)
            lines.append("BRZ %d" % rng.randint(i + 1, n + 2))
        elif r < 0.62 and has_data:
            lines.append("%s v" % rng.choice(["LDA", "ADD", "SUB", "STO", "XOR"]))
        elif r < 0.67:
            # possibly out of the (small) memory: a fault
            lines.append("%s %d" % (rng.choice(["LDA", "ADD", "STO"]), rng.choice([100, 300, 4095])))
        elif r < 0.72:
            lines.append("BRZ %d" % rng.randint(0, i))  # backward: may loop (step cap)
        else:
            m = rng.choice([x for x in TOY_ADDR if x != "BRZ"])
            lines.append("%s %d" % (m, rng.randint(0, 40)))
    if has_data:
        lines.append(".data")
        lines.append("v: .word %d, %d" % (rng.randrange(0, 65536), rng.randrange(0, 500)))
    return "\n".join(lines) + "\n"


BAD_TOY = [
    "ADD\n",
    "FOO 3\n",
    "LDA nolabel\n",
    "INC\n.data\nv: .word 1\nw: .word 2\nv: .word 3\n",
    "INC\nx: .word 3\n",
    "a:\nINC\na:\nDEC\n",
    ".data\nv: .word 1, 2\n.text\nLDA v\nSTO\n",
    "LDA nolabel\n.data\nv: .word 7, 8\n",
]


# --------------------------------------------------------------------------
# simulation factories and snapshots of everything observable
# --------------------------------------------------------------------------
def gen_riscv_cfg(rng):
    def cache():
        if rng.random() < 0.45:
            return CacheOptions(False, 0, 0, 1, "wb", "lru", 0)
        return CacheOptions(
            True,
            rng.randint(0, 2),
            rng.randint(0, 2),
            rng.choice([1, 2, 4]),
            rng.choice(["wb", "wt"]),
            rng.choice(["lru", "plru"]),
            rng.randint(0, 3),
        )

    return (
        rng.choice(["single_stage_pipeline", "five_stage_pipeline", "five_stage_pipeline"]),
        rng.random() < 0.85,
        cache(),
        cache(),
    )


def make_riscv(cfg):
    mode, hz, dc, ic = cfg
    return RiscvSimulation(
        mode=mode, detect_data_hazards=hz, data_cache=dc, instruction_cache=ic
    )


def gen_toy_cfg(rng):
    return rng.choice([None, None, 64, 256])


def make_toy(cfg):
    return ToySimulation(unified_memory_size=cfg)


def _cache_repr(c):
    if c is None:
        return None
    return tuple(
        (
            s.index,
            repr(s.replacement_status),
            tuple(
                (b.valid_bit, b.dirty_bit, b.tag, tuple(b.address_value_list))
                for b in s.blocks
            ),
        )
        for s in c.sets
    )


def snap_riscv(sim):
    st = sim.state
    pm = st.performance_metrics
    svg = (
        sim.get_riscv_five_stage_svg_update_values()
        if sim.mode == "five_stage_pipeline"
        else sim.get_riscv_single_stage_svg_update_values()
    )
    return (
        sim.is_done(),
        sim.has_started,
        sim.has_instructions(),
        tuple(int(r) for r in st.register_file.registers),
        tuple(sim.get_register_entries()),
        st.program_counter,
        st.previous_program_counter,
        st.exit_code,
        sim.get_exit_code(),
        st.output,
        sim.get_output(),
        tuple(sim.get_data_memory_entries()),
        tuple(sim.get_instruction_memory_entries()),
        (
            pm.instruction_count,
            pm.cycles,
            pm.branch_count,
            pm.procedure_count,
            pm.flushes,
            pm.stalls,
        ),
        repr(sim.get_data_cache_stats()),
        repr(sim.get_instruction_cache_stats()),
        _cache_repr(sim.get_data_cache_entries()),
        _cache_repr(sim.get_instruction_cache_entries()),
        tuple(repr(pr) for pr in st.pipeline.pipeline_registers),
        repr(svg),
    )


def snap_toy(sim):
    st = sim.state
    pm = st.performance_metrics
    return (
        sim.is_done(),
        sim.has_started,
        sim.has_instructions(),
        sim.next_cycle,
        int(st.accu),
        int(st.program_counter),
        None if st.loaded_instruction is None else int(st.loaded_instruction),
        st.max_pc,
        st.address_of_current_instruction,
        st.address_of_next_instruction,
        tuple(sim.get_memory_table_entries()),
        repr(sim.get_register_representations()),
        (pm.instruction_count, pm.cycles, pm.branch_count),
        repr(st.visualisation_values),
        repr(sim.get_toy_svg_update_values()),
    )


# --------------------------------------------------------------------------
# drivers
# --------------------------------------------------------------------------
def describe(exc):
    return "%s|%r" % (type(exc).__name__, exc)


def try_load(sim, program):
    try:
        sim.load_program(program)
        return "ok"
    except Exception as exc:  # parser errors
        return "loadfail:" + describe(exc)


def step_until_done(sim, budget=STEP_CAP):
    """Returns (outcome, number of steps, step-return-values consistent)."""
    n = 0
    rets_ok = True
    try:
        while not sim.is_done():
            if n >= budget:
                return "cap", n, rets_ok
            r = sim.step()
            n += 1
            if bool(r) != (not sim.is_done()):
                rets_ok = False
    except Exception as exc:
        return "fault:" + describe(exc), n, rets_ok
    return "done", n, rets_ok


def run_it(sim):
    try:
        sim.run()
    except Exception as exc:
        return "fault:" + describe(exc)
    return "done"


class Tally:
    def __init__(self):
        self.flags = {}
        self.hash = hashlib.sha256()
        self.kinds = {}

    def flag(self, name, ok):
        good, bad = self.flags.get(name, (0, 0))
        self.flags[name] = (good + int(bool(ok)), bad + int(not ok))

    def observe(self, obj):
        self.hash.update(repr(obj).encode())

    def kind(self, k):
        self.kinds[k] = self.kinds.get(k, 0) + 1


def check_case(tally, rng, make, cfg, snap, program, good_pool, bad_pool):
    """All C13 checks for one program and one configuration."""
    # ---- fresh load --------------------------------------------------------
    fresh = make(cfg)
    load_result = try_load(fresh, program)
    tally.observe(("load", load_result))
    if load_result != "ok":
        # a failing final load: only the exception is fixed; the property only
        # demands that the history does not matter
        hist = make(cfg)
        for _ in range(rng.randint(1, 3)):
            try_load(hist, rng.choice(good_pool + bad_pool))
        r2 = try_load(hist, program)
        tally.flag("failed load: same exception with a load history", r2 == load_result)
        tally.flag(
            "failed load: same state with a load history", snap(hist) == snap(fresh)
        )
        tally.kind("load fails")
        return
    loaded = snap(fresh)
    tally.observe(("loaded", loaded))
    if not fresh.has_instructions():
        tally.flag("no instructions: done immediately", fresh.is_done())
        tally.flag("no instructions: step returns False", fresh.step() is False)
        tally.flag("no instructions: step changes nothing", snap(fresh) == loaded)

    # ---- step until done ---------------------------------------------------
    outcome, nsteps, rets_ok = step_until_done(fresh)
    final = snap(fresh)
    tally.observe(("stepped", outcome, nsteps, final))
    tally.flag("step() returns False exactly when done afterwards", rets_ok)
    tally.kind(outcome.split(":")[0].split("|")[0])

    # ---- reload after a load history (simulation not started) --------------
    hist = make(cfg)
    history = []
    for _ in range(rng.randint(1, 4)):
        p = rng.choice(good_pool + bad_pool + [""])
        history.append(try_load(hist, p)[:8])
        if rng.random() < 0.3:
            hist.step() if not hist.has_instructions() else None  # a step on an empty program does not start it
    tally.flag("reload: not started before the reload", not hist.has_started)
    r = try_load(hist, program)
    tally.flag("reload == fresh load (state right after load)", r == "ok" and snap(hist) == loaded)

    if outcome == "cap":
        return  # possibly non-terminating: never call run() on it

    # ---- run() on the reloaded simulation equals stepping on the fresh one --
    run_outcome = run_it(hist)
    tally.flag("run() ends like stepping (outcome)", run_outcome == outcome)
    tally.flag("run() == step() until done (final state)", snap(hist) == final)
    tally.observe(("run", run_outcome))

    # ---- mixed step/run interleaving ---------------------------------------
    mixed = make(cfg)
    try_load(mixed, program)
    k = rng.randint(0, max(0, nsteps))
    o1, n1, ok1 = step_until_done(mixed, budget=k)
    if o1 == "cap":
        o2 = run_it(mixed)
    else:
        o2 = o1
    tally.flag("k steps then run(): same outcome", o2 == outcome)
    tally.flag("k steps then run(): same final state", snap(mixed) == final)

    # ---- done is stable ----------------------------------------------------
    if outcome == "done":
        for sim in (fresh, hist, mixed):
            calls = [rng.choice(["step", "run"]) for _ in range(rng.randint(1, 4))]
            rets = []
            for c in calls:
                if c == "step":
                    rets.append(sim.step())
                else:
                    sim.run()
            tally.flag("done: step() returns False", all(x is False for x in rets))
            tally.flag("done: stays done", sim.is_done())
            tally.flag("done: step/run change nothing", snap(sim) == final)


def campaign(title, seed, ncases, gen_prog, bad_pool, gen_cfg, make, snap, bad_ratio=0.08):
    rng = random.Random(seed)
    tally = Tally()
    good_pool = [gen_prog(rng) for _ in range(12)]
    for i in range(ncases):
        program = rng.choice(bad_pool) if rng.random() < bad_ratio else gen_prog(rng)
        cfg = gen_cfg(rng)
        check_case(tally, rng, make, cfg, snap, program, good_pool, bad_pool)
    print("== %s: %d cases, seed %d" % (title, ncases, seed))
    print("   outcomes: " + ", ".join("%s=%d" % kv for kv in sorted(tally.kinds.items())))
    print("   digest of all observed results: " + tally.hash.hexdigest())
    bad_total = 0
    for name, (good, bad) in sorted(tally.flags.items()):
        print("   %-58s holds %4d  fails %d" % (name, good, bad))
        bad_total += bad
    return bad_total


def started_reload(title, seed, ncases, gen_prog, bad_pool, gen_cfg, make, snap):
    """Reloading a simulation that HAS started is outside the reload clause of
    the property, so nothing about the resulting state is printed.  What the
    property still demands there (determinism of run versus step, the result
    of step(), stability of done) is checked and only violations are counted."""
    rng = random.Random(seed)
    violations = 0
    for i in range(ncases):
        first = gen_prog(rng)
        second = rng.choice(bad_pool) if rng.random() < 0.12 else gen_prog(rng)
        cfg = gen_cfg(rng)
        k = rng.randint(1, 12)
        odd = rng.random() < 0.4
        sims = [make(cfg), make(cfg)]
        for sim in sims:
            try_load(sim, first)
            step_until_done(sim, budget=k)
            if odd and hasattr(sim, "single_step"):
                try:
                    sim.single_step()  # TOY: stop between the two cycles
                except Exception:
                    pass  # a faulting first cycle
            try_load(sim, second)
        if snap(sims[0]) != snap(sims[1]):
            violations += 1
        outcome, n, rets_ok = step_until_done(sims[0])
        if not rets_ok:
            violations += 1
        if outcome == "cap":
            continue
        if run_it(sims[1]) != outcome or snap(sims[0]) != snap(sims[1]):
            violations += 1
        if outcome == "done":
            before = snap(sims[0])
            try:
                r = sims[0].step()
            except Exception:
                r = False  # TOY between two cycles: a sequencing error, fine
            sims[0].run()
            if r is not False or not sims[0].is_done() or snap(sims[0]) != before:
                violations += 1
    print(
        "== %s: %d reloads into a STARTED simulation (state not printed): violations %d"
        % (title, ncases, violations)
    )
    return violations


def main():
    bad = 0
    bad += campaign("RISC-V", 13011, 170, gen_riscv, BAD_RISCV, gen_riscv_cfg, make_riscv, snap_riscv)
    bad += campaign("TOY", 13012, 170, gen_toy, BAD_TOY, gen_toy_cfg, make_toy, snap_toy)
    bad += started_reload("RISC-V", 13013, 120, gen_riscv, BAD_RISCV, gen_riscv_cfg, make_riscv, snap_riscv)
    bad += started_reload("TOY", 13014, 120, gen_toy, BAD_TOY, gen_toy_cfg, make_toy, snap_toy)
    print("total violations of C13: %d" % bad)
    return 0


if __name__ == "__main__":
    sys.exit(main())
