"""Differential check for property C13 (lifecycle: done is stable, run equals
stepping, reload equals a fresh load).

Runs a few hundred seeded random RISC-V (single-cycle and five-stage, with and
without caches / hazard detection) and TOY programs through random
interleavings of load / step / run, and prints a digest of everything that is
publicly observable.  The output must be byte-identical before and after a
behaviour-preserving change.  Timer values (wall clock) are never observed.

Usage:  PYTHONPATH=<worktree> python demo_3.py
"""
import hashlib
import random
import sys

from architecture_simulator.simulation.riscv_simulation import RiscvSimulation
from architecture_simulator.simulation.toy_simulation import ToySimulation
from architecture_simulator.uarch.memory.cache import CacheOptions

FOCUS = "caches"  # which part gets the larger share of the cases
STEP_CAP = 600


# --------------------------------------------------------------------------
# observation helpers (public API + plain attribute reads only)
# --------------------------------------------------------------------------
def plain(obj, depth=0):
    """Deep-convert GUI repr objects into plain comparable data."""
    if depth > 12:
        return "<deep>"
    if obj is None or isinstance(obj, (bool, int, str, float)):
        return obj
    if isinstance(obj, (list, tuple)):
        return [plain(o, depth + 1) for o in obj]
    if isinstance(obj, dict):
        return sorted((str(k), plain(v, depth + 1)) for k, v in obj.items())
    if hasattr(obj, "__dict__"):
        return sorted(
            (k, plain(v, depth + 1))
            for k, v in vars(obj).items()
            if not k.startswith("_")
        )
    return str(obj)


def metrics_obs(m):
    return sorted(
        (k, v)
        for k, v in vars(m).items()
        if not k.startswith("_")  # _execution_time_s / _start are wall clock
    )


def obs_riscv(sim):
    st = sim.state
    o = {
        "done": sim.is_done(),
        "started": sim.has_started,
        "has_instr": sim.has_instructions(),
        "pc": st.program_counter,
        "prev_pc": st.previous_program_counter,
        "exit": sim.get_exit_code(),
        "out": sim.get_output(),
        "regs": plain(sim.get_register_entries()),
        "dmem": plain(sim.get_data_memory_entries()),
        "imem": plain(sim.get_instruction_memory_entries()),
        "metrics": metrics_obs(sim.get_performance_metrics()),
        "dcache": plain(sim.get_data_cache_entries()),
        "dstats": plain(sim.get_data_cache_stats()),
        "icache": plain(sim.get_instruction_cache_entries()),
        "istats": plain(sim.get_instruction_cache_stats()),
        "pregs": [repr(p) for p in st.pipeline.pipeline_registers],
        "empty": st.pipeline.is_empty(),
    }
    if sim.mode == "five_stage_pipeline":
        o["svg"] = plain(sim.get_riscv_five_stage_svg_update_values())
    else:
        o["svg"] = plain(sim.get_riscv_single_stage_svg_update_values())
    return o


def obs_toy(sim):
    st = sim.state
    return {
        "done": sim.is_done(),
        "started": sim.has_started,
        "has_instr": sim.has_instructions(),
        "next_cycle": sim.next_cycle,
        "pc": int(st.program_counter),
        "accu": int(st.accu),
        "cur": st.address_of_current_instruction,
        "nxt": st.address_of_next_instruction,
        "max_pc": st.max_pc,
        "loaded": None if st.loaded_instruction is None else str(st.loaded_instruction),
        "vis": repr(st.visualisation_values),
        "regs": plain(sim.get_register_representations()),
        "mem": plain(sim.get_memory_table_entries()),
        "metrics": metrics_obs(sim.get_performance_metrics()),
        "svg": plain(sim.get_toy_svg_update_values()),
    }


def digest(x):
    return hashlib.sha256(repr(x).encode()).hexdigest()[:16]


def call(f):
    """Call f, returning ('ok', result) or ('err', class name, repr)."""
    try:
        return ("ok", f())
    except Exception as e:  # noqa: BLE001 - the error is part of what we observe
        return ("err", type(e).__name__, repr(e))


# --------------------------------------------------------------------------
# program generators
# --------------------------------------------------------------------------
REGS = ["x0", "x1", "x5", "x6", "x7", "x10", "x11", "x12", "x17", "x28"]


def gen_riscv(rng):
    kind = rng.choice(
        ["empty", "blank", "fall", "fall", "exit10", "exit93", "jump_out",
         "fault_mem", "fault_ecall", "ebreak", "loop", "print", "misaligned_jump"]
    )
    if kind == "empty":
        return ""
    if kind == "blank":
        return rng.choice(["\n\n", "# nothing\n", ".text\n", ".data\nv: .word 7\n.text\n"])
    lines = []
    data = []
    if rng.random() < 0.5:
        data = [".data", "arr: .word " + ", ".join(str(rng.randrange(-50, 50)) for _ in range(rng.randrange(1, 6))),
                "msg: .string \"hi%d\"" % rng.randrange(10), "b: .byte 3, 4", ".text"]
        lines.append("la x28, arr")
    else:
        lines.append("lui x28, 16")  # 0x10000: inside data memory
    if rng.random() < 0.8:  # let x28 settle even without hazard detection
        lines += ["nop", "nop", "nop"]
    n = rng.randrange(1, 14)
    nlabels = 0
    for i in range(n):
        r = rng.random()
        rd, rs1, rs2 = rng.choice(REGS[:-1]), rng.choice(REGS), rng.choice(REGS)  # x28 (data base) is never written
        if r < 0.30:
            lines.append(f"addi {rd}, {rs1}, {rng.randrange(-20, 20)}")
        elif r < 0.45:
            lines.append(f"{rng.choice(['add', 'sub', 'xor', 'or', 'and', 'mul', 'slt', 'sll'])} {rd}, {rs1}, {rs2}")
        elif r < 0.55:
            lines.append(f"{rng.choice(['sw', 'sh', 'sb'])} {rs2}, {4 * rng.randrange(0, 24)}(x28)")
        elif r < 0.68:
            lines.append(f"{rng.choice(['lw', 'lh', 'lb', 'lbu', 'lhu'])} {rd}, {4 * rng.randrange(0, 24)}(x28)")
        elif r < 0.80:
            # forward branch over the next instruction(s)
            lab = f"L{nlabels}"
            nlabels += 1
            lines.append(f"{rng.choice(['beq', 'bne', 'blt', 'bge', 'bltu'])} {rs1}, {rs2}, {lab}")
            lines.append(f"addi {rd}, {rd}, 1")
            if rng.random() < 0.5:
                lines.append(f"add {rd}, {rs1}, {rd}")
            lines.append(f"{lab}:")
        elif r < 0.86:
            lab = f"L{nlabels}"
            nlabels += 1
            lines.append(f"jal x1, {lab}")
            lines.append(f"addi x6, x6, 5")
            lines.append(f"{lab}:")
        elif r < 0.92:
            lines.append(f"lui {rd}, {rng.randrange(0, 40)}")
        else:
            lines.append(f"auipc {rd}, {rng.randrange(0, 3)}")
    if kind == "loop":
        lines += ["addi x7, x0, %d" % rng.randrange(1, 5), "LP:", "addi x6, x6, 3", "sw x6, 0(x28)", "lw x5, 0(x28)",
                  "addi x7, x7, -1", "bne x7, x0, LP"]
    if kind == "print":
        lines += ["addi x10, x0, %d" % rng.randrange(-5, 90), "addi x17, x0, %d" % rng.choice([1, 11, 34, 35, 36]), "ecall",
                  "addi x10, x10, 1", "ecall"]
        if data:
            lines += ["la x10, msg", "addi x17, x0, 4", "ecall"]
    if kind == "exit10":
        lines += ["addi x17, x0, 10", "ecall"] + ["addi x5, x5, 1", "sw x5, 4(x28)", "addi x6, x6, 1"][: rng.randrange(0, 4)]
    elif kind == "exit93":
        lines += [rng.choice(["addi x5, x5, 1", "lw x5, 0(x28)", "sw x5, 0(x28)", "mul x5, x5, x5"])] * rng.randrange(0, 3)
        lines += ["addi x10, x0, %d" % rng.randrange(0, 200), "addi x17, x0, 93", "ecall", "addi x5, x5, 1", "addi x6, x6, 1", "ecall"]
    elif kind == "jump_out":
        lines += [rng.choice(["jalr x0, x0, 2000", "jal x0, END", "lui x5, 1\njalr x1, x5, 0"]), "addi x6, x6, 9", "addi x6, x6, 9", "END:"]
    elif kind == "misaligned_jump":
        lines += ["jalr x1, x0, 6", "addi x6, x6, 9", "addi x6, x6, 9"]
    elif kind == "fault_mem":
        lines += [rng.choice(["lw x5, 0(x0)", "sw x5, 8(x0)", "lb x5, 100(x0)"]), "addi x6, x6, 1", "addi x6, x6, 2"]
    elif kind == "fault_ecall":
        pre = ["addi x5, x5, 1", "sw x5, 0(x28)", "lw x6, 0(x28)"][: rng.randrange(0, 4)]
        lines += ["addi x17, x0, %d" % rng.choice([3, 5, 99])] + pre + ["ecall", "addi x6, x6, 1", "addi x6, x6, 2"]
    elif kind == "ebreak":
        lines += ["ebreak", "addi x6, x6, 1"]
    return "\n".join(data + lines) + "\n"


BAD_RISCV = [
    "addi x1, x2\n",
    "foo x1, x2, x3\n",
    ".data\nv: .word 1, 2, 3\nw: .byte 9\n.text\naddi x1, x0, 1\nbeq x0, x0, nowhere\n",
    ".data\nv: .word 5\nv: .word 6\n",
    ".data\nz: .word 11, 12\naddi x0, x0, 0\n.text\n",
    "addi x1, x0, 99999999999\n",
    "lw x1, novar\n",
]

TOY_OPS_ADDR = ["STO", "LDA", "ADD", "SUB", "OR", "AND", "XOR"]
TOY_OPS = ["NOT", "INC", "DEC", "ZRO", "NOP"]


def gen_toy(rng):
    kind = rng.choice(["empty", "blank", "fall", "fall", "fall", "loop", "loop", "jump_out", "jump_out", "data_only"])
    if kind == "empty":
        return ""
    if kind == "blank":
        return rng.choice(["\n", "# c\n", ".text\n"])
    if kind == "data_only":
        return ".data\n a: .word 3\n"
    data = [".data", "a: .word %d" % rng.randrange(0, 60000), "b: .word %d, %d" % (rng.randrange(1, 9), rng.randrange(0, 9)),
            "z: .word 0", ".text"]
    lines = []
    for _ in range(rng.randrange(1, 12)):
        if rng.random() < 0.5:
            lines.append(f"{rng.choice(TOY_OPS_ADDR)} {rng.choice(['a', 'b', 'z', '4000', '0x7F0'])}")
        else:
            lines.append(rng.choice(TOY_OPS))
    if kind == "loop":
        lines += ["LDA b", "STO z", "lp:", "LDA z", "DEC", "STO z", "BRZ out", "ZRO", "BRZ lp", "out:", "INC"]
    if kind == "jump_out":
        lines += ["ZRO", "BRZ %d" % rng.choice([100, 2000, 4095]), "INC", "INC"]
    return "\n".join(data + lines) + "\n"


BAD_TOY = [
    ".data \n INC\n",
    "FOO 3\n",
    ".data\n label: .word 0\n label: .word 0\n",
    ".data\n q: .word 1, 2\n.text\nLDA nolabel\n",
    "INC\nINC\n.data\n addr: .word\n",
]


# --------------------------------------------------------------------------
# configurations
# --------------------------------------------------------------------------
def cache_opts(rng, enable):
    return CacheOptions(
        enable=enable,
        num_index_bits=rng.randrange(0, 3),
        num_block_bits=rng.randrange(0, 3),
        associativity=rng.choice([1, 2, 4]),
        cache_type=rng.choice(["wb", "wt"]),
        replacement_strategy=rng.choice(["lru", "plru"]),
        miss_penalty=rng.randrange(0, 4),
    )


def gen_riscv_config(rng):
    return dict(
        mode=rng.choice(["single_stage_pipeline", "five_stage_pipeline", "five_stage_pipeline"]),
        detect_data_hazards=rng.random() < 0.7,
        data_cache=cache_opts(random.Random(rng.random()), rng.random() < 0.85),
        instruction_cache=cache_opts(random.Random(rng.random()), rng.random() < 0.85),
    )


def cfg_str(cfg):
    d, i = cfg["data_cache"], cfg["instruction_cache"]
    f = lambda c: ("%d%d%d%s%s%d" % (c.num_index_bits, c.num_block_bits, c.associativity, c.cache_type,
                                   c.replacement_strategy, c.miss_penalty)) if c.enable else "-"
    return "%s hz=%d dc=%s ic=%s" % (cfg["mode"][:4], cfg["detect_data_hazards"], f(d), f(i))


# --------------------------------------------------------------------------
# the lifecycle scenarios
# --------------------------------------------------------------------------
def lifecycle(make, obs, gen, bad, rng, label):
    """Returns (summary string, list of violated checks)."""
    prog = gen(rng)
    problems = []

    # (1) step until done, recording every step's return value and observation
    s = make()
    load_res = call(lambda: s.load_program(prog))
    trace = [digest(obs(s))]
    steps = 0
    fault = None
    immediate = s.is_done()
    while not s.is_done() and steps < STEP_CAP:
        r = call(s.step)
        steps += 1
        trace.append((r if r[0] == "err" else r[1], digest(obs(s))))
        if r[0] == "err":
            fault = r
            break
        if r[1] != (not s.is_done()):
            problems.append("step() return value disagrees with is_done()")
    finished = s.is_done()
    final_step = obs(s)
    # not pinned down by the property, but recorded anyway: what a few more
    # step() calls do after an instruction has failed
    post = []
    if fault is not None:
        c = make()
        call(lambda: c.load_program(prog))
        for _ in range(steps + 3):
            r = call(c.step)
            post = post + [(r if r[0] == "err" else r[1], digest(obs(c)))]
    if not s.has_instructions() and load_res[0] == "ok" and not immediate:
        problems.append("program without instructions is not done immediately")

    # (2) done is stable: further step / run calls change nothing
    if finished:
        for k in range(rng.randrange(2, 6)):
            if rng.random() < 0.5:
                r = call(s.step)
                if r != ("ok", False):
                    problems.append("step() on a done simulation returned %r" % (r,))
            else:
                r = call(s.run)
                if r[0] != "ok":
                    problems.append("run() on a done simulation raised")
            if obs(s) != final_step:
                problems.append("state changed after done")
                break

    # (3) run() from scratch, and k steps followed by run()
    final_run = final_mixed = None
    run_res = mixed_res = None
    if finished or fault is not None:
        a = make()
        call(lambda: a.load_program(prog))
        run_res = call(a.run)
        final_run = obs(a)
        if final_run != final_step:
            problems.append("run() final state differs from stepping")
        if fault is not None and run_res[1:] != fault[1:]:
            problems.append("run() raised something else than step()")
        b = make()
        call(lambda: b.load_program(prog))
        k = rng.randrange(0, max(1, steps))
        for _ in range(k):
            call(b.step)
        mixed_res = call(b.run)
        final_mixed = obs(b)
        if final_mixed != final_step:
            problems.append("steps followed by run() differ from stepping")

    # (4) reload equals fresh load, after a history of good and bad loads
    h = make()
    history = []
    for _ in range(rng.randrange(1, 5)):
        p = rng.choice(bad) if rng.random() < 0.5 else gen(rng)
        history.append(call(lambda: h.load_program(p))[0])
    rl = call(lambda: h.load_program(prog))
    after_reload = obs(h)
    f = make()
    fl = call(lambda: f.load_program(prog))
    after_fresh = obs(f)
    if after_reload != after_fresh or rl != fl:
        problems.append("reload differs from fresh load")
    # and the reloaded simulation behaves like the fresh one all the way
    if finished or fault is not None:
        rr = call(h.run)
        if obs(h) != final_step or rr != run_res:
            problems.append("reloaded simulation runs differently")

    summary = "%s load=%s steps=%d fin=%d imm=%d fault=%s hist=%s trace=%s post=%s step=%s run=%s mixed=%s reload=%s" % (
        label, load_res[0] if load_res[0] == "ok" else load_res[1], steps, finished, immediate,
        "-" if fault is None else fault[1] + ":" + digest(fault[2]),
        "".join(x[0] for x in history), digest(trace), "-" if not post else digest(post), digest(final_step),
        "-" if final_run is None else digest((run_res, final_run)),
        "-" if final_mixed is None else digest((mixed_res, final_mixed)),
        digest((rl, after_reload)),
    )
    return summary, problems


def replacement_sequences(rng, label):
    """Random access sequences on the replacement strategies themselves."""
    from architecture_simulator.uarch.memory.replacement_strategies import LRU, PLRU

    assoc = rng.choice([1, 2, 4, 8])
    rec = []
    for cls in (LRU, PLRU):
        strat = cls(assoc)
        rec.append((cls.__name__, list(strat.get_repr()), strat.get_next_to_replace()))
        for _ in range(rng.randrange(1, 40)):
            i = rng.randrange(assoc)
            for _ in range(rng.choice([1, 1, 2])):  # access() has to be idempotent
                strat.access(i)
            rec.append((i, list(strat.get_repr()), strat.get_next_to_replace()))
        for bad in (assoc, -1, assoc + 3):
            r = call(lambda: LRU(assoc).access(bad))
            rec.append(("bad", bad, r[0], r[1] if r[0] == "err" else None))
    return "%s assoc=%d rec=%s" % (label, assoc, digest(rec))


def memory_system_reset(rng, label):
    """Random read / write traffic on the cache memory systems, a reset, and the
    same traffic again: must look exactly like the same traffic on a new object."""
    from fixedint import UInt8, UInt16, UInt32
    from architecture_simulator.uarch.memory.memory import Memory, AddressingType
    from architecture_simulator.uarch.memory.write_through_memory_system import WriteThroughMemorySystem
    from architecture_simulator.uarch.memory.write_back_memory_system import WriteBackMemorySystem
    from architecture_simulator.uarch.memory.instruction_memory_cache_system import InstructionMemoryCacheSystem
    from architecture_simulator.uarch.memory.instruction_memory import InstructionMemory
    from architecture_simulator.uarch.riscv.riscv_performance_metrics import RiscvPerformanceMetrics
    from architecture_simulator.isa.riscv.rv32i_instructions import ADDI

    o = cache_opts(rng, True)

    def make_data():
        cls = WriteThroughMemorySystem if o.cache_type == "wt" else WriteBackMemorySystem
        return cls(memory=Memory(AddressingType.BYTE, 32, True), num_index_bits=o.num_index_bits,
                   num_block_bits=o.num_block_bits, associativity=o.associativity,
                   performance_metrics=RiscvPerformanceMetrics(), miss_penality=o.miss_penalty,
                   replacement_strategy=o.replacement_strategy)

    def make_instr():
        return InstructionMemoryCacheSystem(instruction_memory=InstructionMemory(), num_index_bits=o.num_index_bits,
                                            num_block_bits=o.num_block_bits, associativity=o.associativity,
                                            performance_metrics=RiscvPerformanceMetrics(), miss_penality=o.miss_penalty,
                                            replacement_strategy=o.replacement_strategy)

    def data_traffic(ms, r):
        out = []
        for _ in range(r.randrange(1, 40)):
            a = 4 * r.randrange(0, 64) + r.choice([0, 0, 0, 1, 2, 3])
            k = r.randrange(7)
            if k == 0:
                res = call(lambda: int(ms.read_byte(a)))
            elif k == 1:
                res = call(lambda: int(ms.read_halfword(a)))
            elif k == 2:
                res = call(lambda: int(ms.read_word(a, r.random() < 0.8)))
            elif k == 3:
                res = call(lambda: ms.write_byte(a, UInt8(r.randrange(256))))
            elif k == 4:
                res = call(lambda: ms.write_halfword(a, UInt16(r.randrange(65536))))
            elif k == 5:
                res = call(lambda: ms.write_word(a, UInt32(r.randrange(2**32))))
            else:
                res = call(lambda: ms.write_word(a, UInt32(r.randrange(2**32)), directly_write_to_lower_memory=True))
            out.append((k, a, res, digest(plain(ms.cache_repr())), plain(ms.get_cache_stats()), ms.performance_metrics.cycles))
        out.append(plain(ms.wordwise_repr()))
        return out

    def instr_traffic(ms, r):
        out = []
        n = r.randrange(1, 30)
        ms.write_instructions([ADDI(rd=1, rs1=1, imm=i) for i in range(n)])
        for _ in range(r.randrange(1, 40)):
            a = 4 * r.randrange(0, n + 2)
            res = call(lambda: repr(ms.read_instruction(a)))
            out.append((a, res, digest(plain(ms.cache_repr())), plain(ms.get_cache_stats()), ms.performance_metrics.cycles,
                        ms.instruction_at_address(a), ms.has_instructions()))
        out.append(ms.get_representation())
        return out

    seeds = [rng.random() for _ in range(3)]
    rec = []
    for make, traffic in ((make_data, data_traffic), (make_instr, instr_traffic)):
        used = make()
        first = traffic(used, random.Random(seeds[0]))
        used.reset()
        empty_after_reset = digest(plain(used.cache_repr()))
        empty_new = digest(plain(make().cache_repr()))
        # the hit / access counters of the data cache and the cycle counter are not touched by reset(),
        # so only the differences are compared with a new object
        base_stats = plain(used.get_cache_stats())
        base_cycles = used.performance_metrics.cycles
        second = traffic(used, random.Random(seeds[1]))
        fresh = traffic(make(), random.Random(seeds[1]))
        pick = (lambda x: (x[1], x[2])) if traffic is instr_traffic else (lambda x: (x[2], x[3]))  # (result, cache content)
        same_cache = [pick(x) for x in second[:-1]] == [pick(x) for x in fresh[:-1]]
        rec.append((first, empty_after_reset == empty_new, second, fresh[-1] == second[-1], same_cache, base_stats, base_cycles))
        if not (empty_after_reset == empty_new and same_cache and fresh[-1] == second[-1]):
            rec.append("PROBLEM: cache after reset() differs from a new cache")
    bad = any(isinstance(x, str) for x in rec)
    return "%s cfg=%d%d%d%s%s%d rec=%s%s" % (label, o.num_index_bits, o.num_block_bits, o.associativity, o.cache_type,
                                          o.replacement_strategy, o.miss_penalty, digest(rec), "  PROBLEM" if bad else "")


def main():
    n_riscv, n_toy = (330, 90) if FOCUS != "toy" else (150, 330)
    all_lines = []
    n_problems = 0
    for seed in range(n_riscv):
        rng = random.Random(1000 + seed)
        cfg = gen_riscv_config(rng)
        summary, problems = lifecycle(
            lambda: RiscvSimulation(**cfg), obs_riscv, gen_riscv, BAD_RISCV, rng, "R%03d %s" % (seed, cfg_str(cfg))
        )
        all_lines.append(summary)
        for p in problems:
            n_problems += 1
            all_lines.append("   PROBLEM: " + p)
    for seed in range(n_toy):
        rng = random.Random(5000 + seed)
        size = rng.choice([None, None, 4096, 64, 4000])
        summary, problems = lifecycle(
            lambda: ToySimulation(unified_memory_size=size), obs_toy, gen_toy, BAD_TOY, rng, "T%03d mem=%s" % (seed, size)
        )
        all_lines.append(summary)
        for p in problems:
            n_problems += 1
            all_lines.append("   PROBLEM: " + p)
    for seed in range(150):
        all_lines.append(replacement_sequences(random.Random(7000 + seed), "S%03d" % seed))
    for seed in range(200):
        all_lines.append(memory_system_reset(random.Random(8000 + seed), "M%03d" % seed))
    for line in all_lines:
        print(line)
    print("cases: %d  property problems: %d" % (len([l for l in all_lines if not l.startswith("   ")]), n_problems))
    print("overall digest:", hashlib.sha256("\n".join(all_lines).encode()).hexdigest())
    return 0


if __name__ == "__main__":
    sys.exit(main())
