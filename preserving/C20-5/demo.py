"""Differential check for C20 (TOY two-phase stepping), change 2.

Generates random TOY programs (fixed seeds), executes each one
  (a) as whole steps,
  (b) as explicit first-half / second-half calls,
  (c) as single-cycle steps,
  (d) as random interleavings of all four calls including illegal ones,
  (e) as whole steps / halves WITHOUT looking at the GUI getters on the way
      (only one full snapshot at the very end),
takes snapshots of everything the property talks about (state, counters,
memory-table markers, visualisation values) and prints a digest.

Emphasis of this demo: fetching and decoding.  Programs store into their own
text (self-modifying code), run into data words that are then decoded as
instructions (all 16 opcodes, also the unused ones 13..15 which decode to NOP
with opcode 12), fetch the same word many times (loops) and are observed at
different moments, so a fetch/decode implementation that keeps anything
between calls is exercised with every population order.  The decoded
instruction is recorded by value (class, mnemonic, opcode, address, machine
word, text), never by identity.

Output must be identical on the unchanged and on the changed code.
"""
import hashlib
import random
import sys

from architecture_simulator.simulation.toy_simulation import ToySimulation
from architecture_simulator.simulation.runtime_errors import StepSequenceError

SEED = 20_002
N_PROGRAMS = 300
STEP_CAP = 48

ADDR_MN = ["STO", "LDA", "BRZ", "ADD", "SUB", "OR", "AND", "XOR"]
NOADDR_MN = ["NOT", "INC", "DEC", "ZRO", "NOP"]
VIS_FIELDS = ["accu_old", "alu_out", "jump", "ram_out", "op_code_old", "pc_old"]


def gen_program(rng):
    n_instr = rng.choice([0, 1, 1, 2, 3, 4, 5, 6, 8, 10, 12, 16])
    n_vars = rng.randint(0, 3)
    mem_size = rng.choice([None, None, None, 4096, 2048, 256, 64, 32])
    top = (mem_size or 4096) - 1
    var_names = ["v%d" % i for i in range(n_vars)]
    code_labels = []
    lines = []
    if n_vars:
        lines.append(".data")
        for name in var_names:
            k = rng.randint(1, 3)
            vals = [
                rng.choice(
                    [0, 1, 0xFFFF, 0xD000 + rng.randint(0, 0xFFF), 0xE123, 0xF000, 0xC000, rng.randint(0, 0xFFFF), rng.randint(0, 0xFFFF), rng.randint(0, 20)]
                )
                for _ in range(k)
            ]
            lines.append(
                "%s: .word %s"
                % (name, ", ".join(rng.choice([str(v), hex(v)]) for v in vals))
            )
        lines.append(".text")
    # decide labels first so that forward references work
    label_at = {}
    for i in range(n_instr + 1):
        if rng.random() < 0.3:
            label_at[i] = "L%d" % i
            code_labels.append("L%d" % i)
    for i in range(n_instr):
        prefix = ""
        if i in label_at:
            if rng.random() < 0.5:
                lines.append(label_at[i] + ":")
            else:
                prefix = label_at[i] + ": "
        if rng.random() < 0.65:
            mn = rng.choice(ADDR_MN)
            kind = rng.random()
            if kind < 0.3 and var_names:
                operand = rng.choice(var_names)
            elif kind < 0.55 and code_labels:
                operand = rng.choice(code_labels)
            elif kind < 0.85:
                # inside / just behind the program: self-modifying code, fall-through data
                operand = str(rng.randint(0, n_instr + 2))
            elif kind < 0.95:
                operand = hex(rng.choice([0x10, 0x18, 0x1F, 0x20, 0x3F, 0x40, 0x400, 0x401, top, top - 1]))
            else:
                operand = str(rng.randint(0, 4095))
            if rng.random() < 0.2:
                mn = mn.lower()
            text = "%s %s" % (mn, operand)
        else:
            text = rng.choice(NOADDR_MN)
            if rng.random() < 0.2:
                text = text.lower()
        lines.append(prefix + text)
    if n_instr in label_at:
        lines.append(label_at[n_instr] + ":")
    return "\n".join(lines), mem_size


def norm(v):
    if v is None or isinstance(v, bool):
        return v
    return int(v)


def snap(sim):
    st = sim.state
    li = st.loaded_instruction
    vv = st.visualisation_values
    pm = st.performance_metrics
    return (
        sim.next_cycle,
        sim.has_started,
        sim.is_done(),
        sim.has_instructions(),
        int(st.program_counter),
        int(st.accu),
        None
        if li is None
        else (type(li).__name__, li.mnemonic, li.opcode, li.address, int(li), str(li)),
        st.address_of_current_instruction,
        st.address_of_next_instruction,
        st.max_pc,
        (pm.instruction_count, pm.cycles, pm.branch_count),
        tuple(sorted((a, int(v)) for a, v in st.memory.memory_file.items())),
        tuple(norm(getattr(vv, f)) for f in VIS_FIELDS),
        repr(sim.get_memory_table_entries()),
        repr(sim.get_toy_svg_update_values()),
        repr(sim.get_register_representations()),
    )


def make(program, mem_size):
    sim = ToySimulation(mem_size) if mem_size is not None else ToySimulation()
    sim.load_program(program)
    return sim


OPS = ["step", "first", "second", "single"]


def call(sim, op):
    if op == "step":
        return sim.step()
    if op == "first":
        return sim.first_cycle_step()
    if op == "second":
        return sim.second_cycle_step()
    return sim.single_step()


def legal(sim, op):
    """What the property says about legality of `op` in the current situation."""
    if sim.is_done():
        return True  # no-op
    if op == "single":
        return True
    if op == "second":
        return sim.next_cycle == 2
    return sim.next_cycle == 1  # step, first


def light_snap(sim):
    st = sim.state
    pm = st.performance_metrics
    return (sim.next_cycle, int(st.program_counter), int(st.accu), pm.instruction_count, pm.cycles)


def run_quiet(program, mem_size, chooser, stats):
    """Like run_mode for legal call sequences, but the GUI getters are only
    used once at the very end."""
    sim = make(program, mem_size)
    trace = []
    while not sim.is_done() and sim.state.performance_metrics.instruction_count < STEP_CAP:
        try:
            call(sim, chooser(sim))
        except StepSequenceError:
            stats["unexpected_sequence_error"] += 1
            break
        except Exception as e:
            trace.append("raised " + type(e).__name__)
            break
        trace.append(light_snap(sim))
    return trace, snap(sim)


def run_mode(program, mem_size, chooser, stats):
    """Run one simulation; `chooser(sim)` yields the next call.  Returns
    (trace, boundaries) where boundaries is the list of snapshots at
    instruction boundaries (next_cycle == 1)."""
    sim = make(program, mem_size)
    trace = [("init", snap(sim))]
    boundaries = [trace[0][1]]
    executed_calls = 0
    while not sim.is_done() and sim.state.performance_metrics.instruction_count < STEP_CAP and executed_calls < 6 * STEP_CAP:
        op = chooser(sim)
        executed_calls += 1
        before = snap(sim)
        ok = legal(sim, op)
        try:
            ret = call(sim, op)
        except StepSequenceError as e:
            after = snap(sim)
            stats["rejected"] += 1
            if ok:
                stats["unexpected_sequence_error"] += 1
            if after != before:
                stats["state_changed_by_rejected_call"] += 1
            if not isinstance(e, RuntimeError):
                stats["not_a_runtime_error"] += 1
            trace.append((op, "StepSequenceError", after == before))
            continue
        except Exception as e:  # runtime error of the program (e.g. address outside a small memory)
            stats["runtime_error:" + type(e).__name__] += 1
            trace.append((op, "raised " + type(e).__name__, snap(sim)))
            break
        if not ok:
            stats["missing_sequence_error"] += 1
        after = snap(sim)
        trace.append((op, ret if op == "step" else None, after))
        if sim.next_cycle == 1:
            boundaries.append(after)
    else:
        if sim.is_done():
            # everything is a no-op once the program is done
            stats["finished_runs"] += 1
            for op in OPS + OPS[::-1]:
                before = snap(sim)
                try:
                    ret = call(sim, op)
                except Exception as e:
                    stats["raised_when_done:" + type(e).__name__] += 1
                    ret = "raised"
                after = snap(sim)
                if after != before:
                    stats["not_a_noop_when_done"] += 1
                trace.append(("done-" + op, ret, after == before))
    return trace, boundaries, snap(sim)


class Counter(dict):
    def __missing__(self, key):
        return 0


def main():
    rng = random.Random(SEED)
    stats = Counter()
    h = hashlib.sha256()
    n_loaded = 0
    total_boundaries = 0
    for case in range(N_PROGRAMS):
        program, mem_size = gen_program(rng)
        try:
            make(program, mem_size)
        except Exception as e:
            stats["load_error:" + type(e).__name__] += 1
            h.update(repr((case, "load error", type(e).__name__)).encode())
            continue
        n_loaded += 1
        case_rng = random.Random(rng.randint(0, 2**32))

        def whole(sim):
            return "step"

        def halves(sim):
            return "first" if sim.next_cycle == 1 else "second"

        def singles(sim):
            return "single"

        def mixed_legal(sim):
            if sim.next_cycle == 1:
                return case_rng.choice(["step", "first", "single"])
            return case_rng.choice(["second", "single"])

        def mixed_any(sim):
            return case_rng.choice(OPS)

        def hostile(sim):
            # mostly illegal calls, several in a row
            if case_rng.random() < 0.7:
                return case_rng.choice(["second"] if sim.next_cycle == 1 else ["first", "step"])
            return case_rng.choice(OPS)

        results = []
        for name, chooser in [
            ("whole", whole),
            ("halves", halves),
            ("singles", singles),
            ("mixed_legal", mixed_legal),
            ("mixed_any", mixed_any),
            ("hostile", hostile),
        ]:
            trace, boundaries, final = run_mode(program, mem_size, chooser, stats)
            results.append((name, boundaries, final))
            h.update(repr((case, name, trace)).encode())
        finals = []
        for name, chooser in [("quiet_whole", whole), ("quiet_halves", halves), ("quiet_mixed", mixed_legal)]:
            trace, final = run_quiet(program, mem_size, chooser, stats)
            finals.append(final)
            h.update(repr((case, name, trace, final)).encode())
        if finals[0] != finals[1] or finals[0] != finals[2]:
            stats["MODE_MISMATCH:quiet"] += 1
        # the loud whole-step run ends in the same place (same caps, same errors)
        if results[0][2] != finals[0]:
            stats["MODE_MISMATCH:quiet_vs_observed"] += 1
        ref = results[0][1]
        total_boundaries += len(ref)
        for name, boundaries, _ in results[1:]:
            m = min(len(ref), len(boundaries))
            if boundaries[:m] != ref[:m] or abs(len(ref) - len(boundaries)) > 0 and name in ("halves", "singles", "mixed_legal"):
                stats["MODE_MISMATCH:" + name] += 1
    print("programs generated      :", N_PROGRAMS)
    print("programs loaded         :", n_loaded)
    print("instruction boundaries  :", total_boundaries)
    for key in sorted(stats):
        print("%-24s: %d" % (key, stats[key]))
    print("digest                  :", h.hexdigest())
    bad = [k for k in stats if k.startswith(("MODE_MISMATCH", "unexpected", "missing", "state_changed", "not_a", "raised_when_done"))]
    if bad:
        print("PROPERTY VIOLATED IN DEMO:", bad)
    return 0


if __name__ == "__main__":
    sys.exit(main())
