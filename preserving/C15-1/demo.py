#!/usr/bin/env python
"""Differential check for C15 (well-typed errors).

Generates a few hundred RISC-V and TOY texts (grammar-derived programs with
injected lexical/structural faults, token soups, programs that fault at run
time), loads / runs them through the public simulation API and prints one
digest line per group plus a summary.  The output must be identical before and
after a behaviour-preserving change.

DETAIL selects how much of an error is part of the digest:
  "full"     - exact exception class name, line number / address, repr()
  "property" - only what C15 pins down: the error family the web GUI
               distinguishes (ParserException / InstructionExecutionException /
               memory-size-or-address error), the nearest *pre-existing* public
               parser exception class, the line number, the address and the
               printed instruction.
"""
import hashlib
import random
import sys

from architecture_simulator.simulation.riscv_simulation import RiscvSimulation
from architecture_simulator.simulation.toy_simulation import ToySimulation
from architecture_simulator.isa import parser_exceptions as pe
from architecture_simulator.isa.parser_exceptions import (
    ParserException,
    MemorySizeException,
)
from architecture_simulator.simulation.runtime_errors import (
    InstructionExecutionException,
)
from architecture_simulator.uarch.memory.memory import MemoryAddressError
from architecture_simulator.uarch.memory.cache import CacheOptions
from architecture_simulator.gui import webgui

DETAIL = "full"

# public parser exception classes that exist in the unchanged code base
ORIGINAL_PARSER_CLASSES = [
    "ParserSyntaxException",
    "ParserLabelException",
    "ParserOddImmediateException",
    "DuplicateLabelException",
    "ParserDirectiveException",
    "ParserDataSyntaxException",
    "ParserDataDuplicateException",
    "ParserVariableException",
    "ParserException",
]

REGS = ["x0", "x1", "x5", "x10", "x31", "zero", "ra", "sp", "a0", "a7", "t0", "s1", "fp"]
R3 = ["add", "sub", "sll", "slt", "sltu", "xor", "srl", "sra", "or", "and",
      "mul", "mulh", "mulhu", "mulhsu", "div", "divu", "rem", "remu"]
I3 = ["addi", "slti", "sltiu", "xori", "ori", "andi", "slli", "srli", "srai"]
LOADS = ["lb", "lh", "lw", "lbu", "lhu"]
STORES = ["sb", "sh", "sw"]
BR = ["beq", "bne", "blt", "bge", "bltu", "bgeu"]
ODD_LITERALS = [
    "007", "-08", "00", "0x", "0b", "0b2", "0xG", "9" * 5000, "-" + "1" * 4400,
    "0x" + "F" * 40, "0b" + "1" * 70, "١٢٣", "１２", "1_000", "+5", "0X1F", "0B11",
    "1e3", "--1", "0o17", "4294967296", "-2147483649", "0x100000000",
]


def lit(rng):
    k = rng.randrange(6)
    if k == 0:
        return str(rng.randrange(0, 2048))
    if k == 1:
        return "-" + str(rng.randrange(1, 2048))
    if k == 2:
        return hex(rng.randrange(0, 2048))
    if k == 3:
        return bin(rng.randrange(0, 64))
    if k == 4:
        return "0"
    return str(rng.choice([1, 2, 4, 8, 16, 2047, 4096, 65536, 2**31 - 1]))


def riscv_program(rng):
    """A syntactically valid program (list of lines) plus names it defines."""
    lines = []
    variables = []
    labels = []
    data = []
    if rng.random() < 0.6:
        for i in range(rng.randrange(1, 4)):
            name = f"v{i}"
            variables.append(name)
            k = rng.randrange(5)
            if k < 3:
                ty = ["byte", "half", "word"][k]
                vals = ", ".join(lit(rng) for _ in range(rng.randrange(1, 4)))
                data.append(f"{name}: .{ty} {vals}")
            elif k == 3:
                data.append(f'{name}: .string "h{i} llo"')
            else:
                data.append(f"{name}: .zero {rng.randrange(1, 5)}")
    n_labels = rng.randrange(0, 3)
    labels = [f"L{i}" for i in range(n_labels)]
    text = []
    pending = list(labels)
    for _ in range(rng.randrange(1, 9)):
        r = lambda: rng.choice(REGS)
        k = rng.randrange(14)
        if k == 0:
            ins = f"{rng.choice(R3)} {r()}, {r()}, {r()}"
        elif k == 1:
            ins = f"{rng.choice(I3)} {r()}, {r()}, {rng.randrange(-16, 16)}"
        elif k == 2:
            ins = f"{rng.choice(LOADS)} {r()}, {rng.randrange(0, 16) * 4}({r()})"
        elif k == 3:
            ins = f"{rng.choice(STORES)} {r()}, {rng.randrange(0, 16) * 4}({r()})"
        elif k == 4 and labels:
            ins = f"{rng.choice(BR)} {r()}, {r()}, {rng.choice(labels)}"
        elif k == 5:
            ins = f"{rng.choice(['lui', 'auipc'])} {r()}, {rng.randrange(0, 1000)}"
        elif k == 6:
            ins = f"li {r()}, {lit(rng)}"
        elif k == 7 and variables:
            v = rng.choice(variables)
            idx = f"[{rng.randrange(0, 3)}]" if rng.random() < 0.4 else ""
            ins = rng.choice([
                f"la {r()}, {v}{idx}",
                f"lw {r()}, {v}{idx}",
                f"sw {r()}, {v}{idx}, t0",
            ])
        elif k == 8 and labels:
            ins = f"jal {r()}, {rng.choice(labels)}" + ("+0x4" if rng.random() < 0.2 else "")
        elif k == 9:
            ins = rng.choice(["nop", "ecall", f"mv {r()}, {r()}", f"fence {r()}, {r()}"])
        elif k == 10:
            ins = f"csrrw {r()}, {rng.choice(['0x300', '0xC00', '3000', '0x7C0'])}, {r()}"
        elif k == 11:
            ins = f"csrrwi {r()}, 0x300, {rng.randrange(0, 32)}"
        elif k == 12:
            ins = f"{rng.choice(BR)} {r()}, {r()}, {rng.randrange(-4, 5) * 2}"
        else:
            ins = f"jalr {r()}, {r()}, {rng.randrange(0, 8) * 4}"
        if rng.random() < 0.15:
            if rng.random() < 0.3:
                head, _, tail = ins.partition(" ")
                ins = head.upper() + _ + tail
            else:
                ins = ins + "   # comment"
        if pending and rng.random() < 0.5:
            lab = pending.pop(0)
            if rng.random() < 0.5:
                text.append(f"{lab}:")
                text.append(ins)
            else:
                text.append(f"{lab}: {ins}")
        else:
            text.append(ins)
    for lab in pending:
        text.append(f"{lab}:")
    layout = rng.randrange(4)
    if not data:
        lines = ([".text"] if rng.random() < 0.4 else []) + text
    elif layout == 0:
        lines = [".data"] + data + [".text"] + text
    elif layout == 1:
        lines = text + [".data"] + data
    elif layout == 2:
        lines = [".text"] + text + [".data"] + data
    else:
        lines = ["# header", "", ".data"] + data + ["", ".text"] + text
    return lines, variables, labels


def inject(rng, lines, toy=False):
    """Injects one to three lexical / structural faults."""
    lines = list(lines)
    for _ in range(rng.randrange(1, 4)):
        k = rng.randrange(12)
        pos = rng.randrange(len(lines)) if lines else 0
        if k == 0 and lines:  # odd literal in place of a number
            toks = lines[pos].replace(",", " , ").split(" ")
            cand = [i for i, t in enumerate(toks) if t[:1].isdigit() or (t[:1] == "-" and t[1:2].isdigit())]
            if cand:
                toks[rng.choice(cand)] = rng.choice(ODD_LITERALS)
                lines[pos] = " ".join(toks)
            else:
                lines[pos] += " " + rng.choice(ODD_LITERALS)
        elif k == 1 and lines:  # unknown label / variable
            lines[pos] = lines[pos].replace("L0", "Lx").replace("v0", "vx")
        elif k == 2:  # unknown directive
            lines.insert(pos, rng.choice([".bss", ".globl main", ".word 3", "x: .quad 1", ".Text"]))
        elif k == 3:  # duplicated segment directive
            lines.insert(pos, rng.choice([".data", ".text"]))
        elif k == 4 and lines:  # duplicate a line (duplicate label / variable)
            lines.insert(pos, lines[pos])
        elif k == 5 and lines:  # swap two lines (misplaced segments)
            q = rng.randrange(len(lines))
            lines[pos], lines[q] = lines[q], lines[pos]
        elif k == 6 and lines:  # delete a line
            del lines[pos]
        elif k == 7 and lines:  # truncate a line
            lines[pos] = lines[pos][: rng.randrange(0, len(lines[pos]) + 1)]
        elif k == 8:  # variable declaration inside text / instruction inside data
            lines.insert(pos, "q: .word 1, 2" if not toy else "q: .word 1")
        elif k == 9 and lines:  # odd branch immediate / oversized value
            lines.insert(pos, rng.choice(["beq x1, x2, 3", "jal x1, 7", "addi x1, x1, 0x" + "1" * 30,
                                          "big: .zero " + "9" * 12, "LDA " + "9" * 4400, "STO 0x" + "F" * 50]))
        elif k == 10 and lines:  # stray characters
            c = rng.choice(["@", ";", "\t\t", "é", "(", "]", ":", ".", '"', "\x0b", " "])
            p = rng.randrange(len(lines[pos]) + 1)
            lines[pos] = lines[pos][:p] + c + lines[pos][p:]
        else:  # comment / blank lines shift numbering
            lines.insert(pos, rng.choice(["", "   ", "# only a comment", "\t# c"]))
    return lines


TOY_ADDR = ["STO", "LDA", "BRZ", "ADD", "SUB", "OR", "AND", "XOR"]
TOY_NOADDR = ["NOT", "INC", "DEC", "ZRO", "NOP"]


def toy_program(rng):
    data = []
    variables = []
    if rng.random() < 0.6:
        for i in range(rng.randrange(1, 4)):
            variables.append(f"v{i}")
            vals = ", ".join(rng.choice([str(rng.randrange(0, 70000)), hex(rng.randrange(0, 70000)), "007"])
                             for _ in range(rng.randrange(1, 4)))
            data.append(f"v{i}: .word {vals}")
    labels = [f"L{i}" for i in range(rng.randrange(0, 3))]
    pending = list(labels)
    text = []
    for _ in range(rng.randrange(1, 10)):
        if rng.random() < 0.6:
            m = rng.choice(TOY_ADDR)
            if rng.random() < 0.3:
                m = m.lower()
            target = rng.choice(
                [str(rng.randrange(0, 4096)), hex(rng.randrange(0, 4096)), "0010"]
                + variables + labels
            )
            ins = f"{m} {target}"
        else:
            ins = rng.choice(TOY_NOADDR)
        if pending and rng.random() < 0.5:
            lab = pending.pop(0)
            if rng.random() < 0.5:
                text += [f"{lab}:", ins]
            else:
                text.append(f"{lab}: {ins}")
        else:
            text.append(ins)
    for lab in pending:
        text.append(f"{lab}:")
    layout = rng.randrange(3)
    if not data:
        return ([".text"] if rng.random() < 0.3 else []) + text
    if layout == 0:
        return [".data"] + data + [".text"] + text
    if layout == 1:
        return text + [".data"] + data
    return [".text"] + text + ["# c", ".data"] + data


SOUP = ["add", "addi", "lw", "sw", "x1", "x32", "a0", ",", ",", "(", ")", ":", ".data", ".text",
        ".word", ".byte", ".zero", ".string", '"s"', "L0", "L0:", "v0", "v0:", "0x", "0x1F", "007",
        "-", "-3", "12", "#", "\n", "\n", "\n", " ", "[", "]", "[1]", "+0x4", "jal", "beq", "li", "la",
        "ecall", "nop", "LDA", "STO", "BRZ", "INC", "1", "4095", "4096", "é", "٣", "\r", "\x0c"]


def soup(rng):
    return " ".join(rng.choice(SOUP) for _ in range(rng.randrange(0, 25)))


# ---------------------------------------------------------------- observation


def nearest_original(exc):
    for cls in type(exc).__mro__:
        if cls.__name__ in ORIGINAL_PARSER_CLASSES:
            return cls.__name__
    return "?"


def describe_error(exc, text):
    """What the web GUI / the property can observe of an exception."""
    n_lines = len(text.splitlines())
    sys.last_value = exc
    gui = webgui.get_last_error()
    if isinstance(exc, ParserException):
        ok_line = isinstance(exc.line_number, int) and 1 <= exc.line_number <= n_lines
        base = ("PARSER", nearest_original(exc), exc.line_number, "line-ok" if ok_line else "LINE-BAD",
                gui[0], gui[2])
        if DETAIL == "full":
            base += (type(exc).__name__, exc.line, repr(exc))
        return base
    if isinstance(exc, (MemorySizeException, MemoryAddressError)):
        base = ("MEMORY", type(exc).__name__, gui[0])
        if DETAIL == "full":
            base += (repr(exc),)
        return base
    if isinstance(exc, InstructionExecutionException):
        base = ("RUNTIME", exc.address, str(exc.instruction_repr), gui[0], gui[2])
        if DETAIL == "full":
            base += (type(exc).__name__, exc.error_message, repr(exc))
        return base
    return ("OTHER-VIOLATION", type(exc).__name__, repr(exc))


def riscv_state_digest(sim):
    return (
        tuple(sim.state.instruction_memory.get_representation()),
        tuple(sorted((a, int(v)) for a, v in _mem_file(sim.state.memory).items())),
    )


def _mem_file(memory):
    while not hasattr(memory, "memory_file"):
        memory = memory.memory
    return memory.memory_file


def load_riscv(text, **kw):
    sim = RiscvSimulation(**kw)
    try:
        sim.load_program(text)
    except Exception as exc:  # noqa
        return None, describe_error(exc, text)
    return sim, ("LOADED",) + riscv_state_digest(sim)


def load_toy(text, size=None):
    sim = ToySimulation(size) if size is not None else ToySimulation()
    try:
        sim.load_program(text)
    except Exception as exc:  # noqa
        return None, describe_error(exc, text)
    mem = tuple(sorted((a, int(v)) for a, v in sim.state.memory.memory_file.items()))
    return sim, ("LOADED", sim.state.max_pc, mem, str(sim.state.loaded_instruction))


def run_riscv(sim, text, max_steps=400):
    try:
        steps = 0
        while not sim.is_done() and steps < max_steps:
            sim.step()
            steps += 1
    except Exception as exc:  # noqa
        return describe_error(exc, text)
    regs = tuple(int(r) for r in sim.state.register_file.registers)
    pm = sim.state.performance_metrics
    return ("RAN", steps, regs, sim.state.program_counter, sim.state.exit_code, sim.state.output,
            pm.cycles, pm.stalls, pm.flushes, pm.instruction_count, pm.branch_count)


def run_toy(sim, text, max_steps=300):
    try:
        steps = 0
        while not sim.is_done() and steps < max_steps:
            sim.step()
            steps += 1
    except Exception as exc:  # noqa
        return describe_error(exc, text)
    return ("RAN", steps, int(sim.state.accu), int(sim.state.program_counter))


def cache(enable, ty="wb", idx=1, blk=1, assoc=2, pen=3):
    return CacheOptions(enable=enable, num_index_bits=idx, num_block_bits=blk, associativity=assoc,
                        cache_type=ty, replacement_strategy="lru", miss_penalty=pen)


CONFIGS = [
    dict(mode="single_stage_pipeline", detect_data_hazards=True, data_cache=cache(False), instruction_cache=cache(False)),
    dict(mode="five_stage_pipeline", detect_data_hazards=True, data_cache=cache(False), instruction_cache=cache(False)),
    dict(mode="five_stage_pipeline", detect_data_hazards=False, data_cache=cache(False), instruction_cache=cache(False)),
    dict(mode="five_stage_pipeline", detect_data_hazards=True, data_cache=cache(True, "wb"), instruction_cache=cache(True)),
    dict(mode="single_stage_pipeline", detect_data_hazards=True, data_cache=cache(True, "wt"), instruction_cache=cache(False)),
    dict(mode="five_stage_pipeline", detect_data_hazards=True, data_cache=cache(True, "wt", 2, 2, 1, 5), instruction_cache=cache(True, "wb", 2, 1, 1, 2)),
]


def faulting_riscv(rng):
    """Valid programs that (mostly) fault at run time."""
    pre = []
    for _ in range(rng.randrange(0, 5)):
        pre.append(rng.choice([
            f"addi t{rng.randrange(0, 3)}, zero, {rng.randrange(-50, 50)}",
            f"add t0, t1, t2", "nop", f"li s1, {rng.choice([16384, 16388, 20000, 70000])}",
            "sw t0, 0(s1)", "lw t1, 4(s1)", "mul t2, t0, t1", "beq zero, zero, 8", "bne t0, t0, 8",
            "lui s1, 4", "sh t1, 2(s1)", "lb t2, 1(s1)",
        ]))
    fault = rng.choice([
        f"lw a0, {rng.randrange(0, 500) * 4}(zero)",
        f"sw a0, {rng.randrange(0, 500)}(zero)",
        f"lb a1, -{rng.randrange(1, 100)}(zero)",
        f"sh a1, {rng.randrange(0, 2000)}(t0)",
        f"li a7, {rng.choice([0, 2, 3, 5, 12, 77, -1])}\necall",
        "ebreak",
        "fence x0, x0",
        f"csrrw t0, {rng.choice(['0x300', '0xC00', '0xFFF', '0x7C0', '0x000'])}, t1",
        f"csrrs t0, {rng.choice(['0xF11', '0xC01', '0x345'])}, zero",
        f"csrrwi t0, {rng.choice(['0x300', '0xC00', '0x3FF'])}, 3",
        "li a7, 93\nli a0, 3\necall",
        "li a7, 1\nli a0, 42\necall",
        f"jalr ra, zero, {rng.randrange(0, 10) * 4}",
        "lw a0, 0(s1)",
    ])
    post = [rng.choice(["addi a2, a2, 1", "nop", "lw a3, 0(zero)", "sw a3, 8(s1)", "ecall"])
            for _ in range(rng.randrange(0, 4))]
    return "\n".join(pre + [fault] + post)


def faulting_toy(rng):
    lines = toy_program(rng)
    return "\n".join(lines)


# ----------------------------------------------------------------------- main


def main():
    counts = {}
    violations = 0

    def note(kind, obs):
        nonlocal violations
        key = (kind, obs[0], obs[1] if obs[0] in ("PARSER", "MEMORY") else "")
        counts[key] = counts.get(key, 0) + 1
        if obs[0] == "OTHER-VIOLATION" or "LINE-BAD" in obs:
            violations += 1
            print("VIOLATION", kind, obs[:3])

    def group(name, observations):
        h = hashlib.sha256(repr(observations).encode("utf-8", "backslashreplace")).hexdigest()
        print(f"{name:28s} n={len(observations):4d} sha256={h[:32]}")

    # 1. RISC-V: valid programs, then the same with injected faults
    rng = random.Random(15001)
    obs = []
    for i in range(120):
        lines, _, _ = riscv_program(rng)
        text = "\n".join(lines)
        sim, o = load_riscv(text)
        note("riscv-valid", o)
        obs.append(o)
    group("riscv valid load", obs)

    rng = random.Random(15002)
    obs = []
    for i in range(400):
        lines, _, _ = riscv_program(rng)
        text = rng.choice(["\n", "\r\n", "\n"]).join(inject(rng, lines))
        sim, o = load_riscv(text)
        note("riscv-faulty", o)
        obs.append(o)
        if sim is not None and i % 3 == 0:
            r = run_riscv(sim, text, 200)
            note("riscv-faulty-run", r)
            obs.append(r)
    group("riscv injected faults", obs)

    # 2. TOY: valid and injected
    rng = random.Random(15003)
    obs = []
    for i in range(100):
        text = "\n".join(toy_program(rng))
        sim, o = load_toy(text)
        note("toy-valid", o)
        obs.append(o)
        if sim is not None:
            r = run_toy(sim, text)
            note("toy-run", r)
            obs.append(r)
    group("toy valid load+run", obs)

    rng = random.Random(15004)
    obs = []
    for i in range(300):
        text = "\n".join(inject(rng, toy_program(rng), toy=True))
        size = rng.choice([None, None, 4, 8, 16, 4096])
        sim, o = load_toy(text, size)
        note("toy-faulty", o)
        obs.append(o)
        if sim is not None and size is None:  # run only with the default memory size
            r = run_toy(sim, text)
            note("toy-faulty-run", r)
            obs.append(r)
    group("toy injected faults", obs)

    # 3. token soups through both assemblers
    rng = random.Random(15005)
    obs = []
    for i in range(250):
        text = soup(rng)
        _, o1 = load_riscv(text)
        _, o2 = load_toy(text)
        note("soup-riscv", o1)
        note("soup-toy", o2)
        obs += [o1, o2]
    group("token soups", obs)

    # 3b. every literal conversion site x every odd literal
    riscv_sites = [
        ".data\nv: .byte 1, {}\n.text\nnop", ".data\nv: .half {}\n.text\nnop", ".data\nv: .word 2, 3, {}\n.text\nnop",
        ".data\nv: .zero {}\n.text\nnop", "li a0, {}", "nop\naddi a0, a0, {}", "lw a0, {}(sp)", "sw a0, {}(sp)",
        "# c\n\nlui a0, {}", "beq a0, a1, {}", "jal ra, {}", "csrrw a0, {}, a1", "csrrwi a0, {}, 1",
        "csrrwi a0, 0x300, {}", ".data\nv: .word 1\n.text\nla a0, v[{}]", ".data\nv: .word 1\n.text\nsw a0, v[{}], t0",
        "L:\nnop\nbeq a0, a1, L+{}", "L:\njal ra, L+{}", "jalr a0, a1, {}", "slli a0, a0, {}",
    ]
    toy_sites = ["LDA {}", "nop\nSTO {}", ".data\nv: .word {}\n.text\nINC", ".data\nv: .word 1, {}\n.text\nINC",
                 "L: BRZ {}\n.data\nw: .word 7"]
    obs = []
    for site in riscv_sites:
        for odd in ODD_LITERALS + ["12", "-4", "0x10", "0b100"]:
            _, o = load_riscv(site.format(odd))
            note("site-riscv", o)
            obs.append(o)
    for site in toy_sites:
        for odd in ODD_LITERALS + ["12", "0x10", "0012"]:
            _, o = load_toy(site.format(odd))
            note("site-toy", o)
            obs.append(o)
    group("literal conversion sites", obs)

    # 4. programs that do not fit the memory
    obs = []
    big = "\n".join(["addi x1, x1, 1"] * 4097)
    _, o = load_riscv(big)
    note("too-big", o)
    obs.append(o)
    _, o = load_riscv(big + "\nbeq x0, x0, nolabel")
    note("too-big", o)
    obs.append(o)
    for size in (2, 5, 40):
        for text in ("\n".join(["INC"] * 41), ".data\nv: .word " + ", ".join(["1"] * 41) + "\n.text\nINC",
                     "INC\nINC\n.data\nv: .word 1, 2, 3, 4"):
            _, o = load_toy(text, size)
            note("too-big", o)
            obs.append(o)
    group("does not fit memory", obs)

    # 5. run-time faults, all pipeline / cache configurations
    rng = random.Random(15006)
    obs = []
    for i in range(150):
        text = faulting_riscv(rng)
        for c, cfg in enumerate(CONFIGS):
            sim, o = load_riscv(text, **cfg)
            if sim is None:
                note("rt-load", o)
                obs.append(o)
                continue
            r = run_riscv(sim, text)
            note(f"rt-cfg{c}", r)
            if r[0] == "RUNTIME":
                # address and printed form must belong to a loaded instruction
                reprs = dict(sim.state.instruction_memory.get_representation())
                if reprs.get(r[1]) != r[2]:
                    print("VIOLATION address/instruction mismatch", r[:3])
                    violations += 1
            obs.append((c,) + r)
    group("riscv run-time faults", obs)

    print("--- summary (kind, outcome, class) : count")
    for key in sorted(counts):
        print("   ", key, counts[key])
    print("violations of C15 observed:", violations)
    return 0


if __name__ == "__main__":
    sys.exit(main())
