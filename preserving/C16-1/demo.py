"""Differential purity check for property C16 (inspection is pure).

Self-contained.  Run with
    cd /tmp/wtR_C16 && PYTHONPATH=/tmp/wtR_C16 /venv/bin/python /tmp/outR_C16/demo_1.py

For a few hundred seeded random cases (RISC-V single-stage and five-stage with
random data/instruction cache configurations, and TOY) it
  * runs the program WITHOUT any inspection and records the complete set of
    inspection results only at the very end and at a few sampled step counts,
  * runs the same program again while calling random subsets / repetitions of
    all read-only inspection functions between the steps,
  * runs it a third time calling EVERY inspection function twice after every
    step (what the web UI does),
  * counts every difference between the inspected and the uninspected runs
    (must be 0) and folds every observed value into a SHA-256 digest.
The printed summary must be byte-identical on the unchanged and on the changed
code base.

Emphasis of this demo (change 1, LRU bookkeeping): data-cache heavy programs,
LRU with associativity 1..8 (including non powers of two), several address
streams that collide in the same cache set.
"""
import hashlib
import json
import random
import sys

from architecture_simulator.simulation.riscv_simulation import RiscvSimulation
from architecture_simulator.simulation.toy_simulation import ToySimulation
from architecture_simulator.uarch.memory.cache import CacheOptions

DEMO_ID = 1
N_RISCV = 260
N_TOY = 60
MAX_STEPS = 140
SEED_BASE = 160100

# knobs that differ between the three demos
P_DATA_CACHE = 0.9
P_INSTR_CACHE = 0.5
P_LRU = 0.75
P_MEM_INSTR = 0.55
ASSOC_LRU = [1, 2, 3, 4, 5, 8]
ASSOC_PLRU = [1, 2, 4, 8]


# ----------------------------------------------------------------------------
# serialisation of inspection results
# ----------------------------------------------------------------------------
def ser_cache(c):
    if c is None:
        return None
    return [
        {
            "index": s.index,
            "repl": [int(x) for x in s.replacement_status],
            "blocks": [
                {
                    "v": b.valid_bit,
                    "d": b.dirty_bit,
                    "avl": [list(t) for t in b.address_value_list],
                    "tag": b.tag,
                }
                for b in s.blocks
            ],
        }
        for s in c.sets
    ]


def plain(x):
    """Turns nested tuples/lists/dicts of primitives into JSON-able data."""
    if isinstance(x, (list, tuple)):
        return [plain(v) for v in x]
    if isinstance(x, dict):
        return {str(k): plain(v) for k, v in x.items()}
    if x is None or isinstance(x, (bool, int, str)):
        return x
    return str(x)


def riscv_inspectors(sim):
    svg = (
        sim.get_riscv_five_stage_svg_update_values
        if sim.mode == "five_stage_pipeline"
        else sim.get_riscv_single_stage_svg_update_values
    )
    return {
        "registers": lambda: plain(sim.get_register_entries()),
        "data_memory": lambda: plain(sim.get_data_memory_entries()),
        "instr_memory": lambda: plain(sim.get_instruction_memory_entries()),
        "data_cache": lambda: ser_cache(sim.get_data_cache_entries()),
        "instr_cache": lambda: ser_cache(sim.get_instruction_cache_entries()),
        "data_cache_stats": lambda: plain(sim.get_data_cache_stats()),
        "instr_cache_stats": lambda: plain(sim.get_instruction_cache_stats()),
        "svg": lambda: plain(svg()),
        "metrics": lambda: repr(sim.get_performance_metrics()),
        "output": lambda: sim.get_output(),
        "exit_code": lambda: sim.get_exit_code(),
        "done": lambda: bool(sim.is_done()),
        "has_instructions": lambda: bool(sim.has_instructions()),
    }


def toy_inspectors(sim):
    return {
        "registers": lambda: plain(sim.get_register_representations()),
        "memory_table": lambda: plain(sim.get_memory_table_entries()),
        "svg": lambda: plain(sim.get_toy_svg_update_values()),
        "metrics": lambda: repr(sim.get_performance_metrics()),
        "done": lambda: bool(sim.is_done()),
        "has_instructions": lambda: bool(sim.has_instructions()),
    }


def observe_all(inspectors):
    return {name: fn() for name, fn in sorted(inspectors.items())}


# ----------------------------------------------------------------------------
# random programs
# ----------------------------------------------------------------------------
RD_POOL = [5, 6, 7, 10, 11, 12, 13, 14, 15, 28, 29]
RS_POOL = RD_POOL + [0, 8, 9, 18, 19]


def riscv_program(rng, allow_misaligned):
    lines = [
        "lui x8, 4",  # 0x4000, start of the data memory
        "lui x18, 5",  # 0x5000, same cache sets as x8 but other tags
        "lui x19, 8",  # 0x8000
        "addi x9, x0, %d" % rng.randint(1, 4),  # loop counter
        "addi x5, x0, %d" % rng.randint(-50, 50),
        "addi x6, x0, %d" % rng.randint(-2048, 2047),
        "loop:",
    ]
    n_body = rng.randint(6, 22)
    label_id = 0
    pending_labels = {}  # body index -> label names to be placed before that instruction
    body = []
    for i in range(n_body):
        for lab in pending_labels.pop(i, []):
            body.append(lab + ":")
        r = rng.random()
        if r < P_MEM_INSTR:
            base = rng.choice([8, 8, 18, 19])
            width = rng.choice(["w", "w", "h", "b"])
            # few distinct blocks, so that sets fill up and get evicted
            slot = rng.choice([0, 4, 8, 16, 32, 64, 128, 256, 512, 1024]) + 4 * rng.randint(0, 2)
            if width == "h":
                slot += rng.choice([0, 2])
            elif width == "b":
                slot += rng.randint(0, 3)
            if allow_misaligned and rng.random() < 0.08:
                slot += 1 if width == "w" else (1 if width == "h" else 0)
            if rng.random() < 0.5:
                body.append("s%s x%d, %d(x%d)" % (width, rng.choice(RS_POOL), slot, base))
            else:
                op = {"w": ["lw"], "h": ["lh", "lhu"], "b": ["lb", "lbu"]}[width]
                body.append("%s x%d, %d(x%d)" % (rng.choice(op), rng.choice(RD_POOL), slot, base))
        elif r < P_MEM_INSTR + 0.22:
            op = rng.choice(["add", "sub", "and", "or", "xor", "sll", "srl", "sra", "slt", "sltu", "mul", "mulh", "div", "rem"])
            body.append("%s x%d, x%d, x%d" % (op, rng.choice(RD_POOL), rng.choice(RS_POOL), rng.choice(RS_POOL)))
        elif r < P_MEM_INSTR + 0.34:
            op = rng.choice(["addi", "andi", "ori", "xori", "slti"])
            body.append("%s x%d, x%d, %d" % (op, rng.choice(RD_POOL), rng.choice(RS_POOL), rng.randint(-2048, 2047)))
        elif r < P_MEM_INSTR + 0.40:
            label_id += 1
            lab = "fwd%d" % label_id
            target = min(n_body, i + rng.randint(1, 3))
            pending_labels.setdefault(target, []).append(lab)
            op = rng.choice(["beq", "bne", "blt", "bge", "bltu", "bgeu"])
            body.append("%s x%d, x%d, %s" % (op, rng.choice(RS_POOL), rng.choice(RS_POOL), lab))
        elif r < P_MEM_INSTR + 0.43:
            label_id += 1
            lab = "fwd%d" % label_id
            target = min(n_body, i + rng.randint(1, 2))
            pending_labels.setdefault(target, []).append(lab)
            body.append("jal x1, %s" % lab)
        else:
            code = rng.choice([1, 11, 34, 35, 36])
            body.append("addi x17, x0, %d" % code)
            body.append("ecall")
    for labs in pending_labels.values():
        for lab in labs:
            body.append(lab + ":")
    lines += body
    lines += ["addi x9, x9, -1", "bne x9, x0, loop"]
    tail = rng.random()
    if tail < 0.4:
        lines += ["addi x17, x0, 10", "ecall", "addi x5, x5, 1"]
    elif tail < 0.7:
        lines += ["addi x10, x0, %d" % rng.randint(0, 99), "addi x17, x0, 93", "ecall", "addi x5, x5, 1"]
    return "\n".join(lines)


def cache_options(rng, p_enable, instruction):
    enable = rng.random() < p_enable
    lru = rng.random() < P_LRU
    return CacheOptions(
        enable=enable,
        num_index_bits=rng.choice([0, 0, 1, 2, 3]),
        num_block_bits=rng.choice([0, 1, 2]),
        associativity=rng.choice(ASSOC_LRU if lru else ASSOC_PLRU),
        cache_type=rng.choice(["wb", "wt"]),
        replacement_strategy="lru" if lru else "plru",
        miss_penalty=rng.choice([0, 0, 1, 3, 10]),
    )


def toy_program(rng):
    n = rng.randint(4, 20)
    lines = []
    for i in range(n):
        r = rng.random()
        if r < 0.45:
            op = rng.choice(["STO", "LDA", "ADD", "SUB", "OR", "AND", "XOR"])
            addr = 0x400 + rng.randint(0, 5) if rng.random() < 0.9 else rng.randint(0, n + 3)
            lines.append("%s 0x%03X" % (op, addr))
        elif r < 0.85:
            lines.append(rng.choice(["NOT", "INC", "DEC", "ZRO", "NOP", "INC", "DEC"]))
        else:
            lines.append("BRZ 0x%03X" % rng.randint(i + 1, n))
    return "\n".join(lines)


# ----------------------------------------------------------------------------
# running
# ----------------------------------------------------------------------------
class Case:
    def __init__(self, kind, make_sim, stepper_plan):
        self.kind = kind
        self.make_sim = make_sim  # () -> (sim, inspectors)
        self.plan = stepper_plan  # list of step method names, one per step


def do_step(sim, how):
    """Returns None, or a short description of the error raised by the step."""
    try:
        getattr(sim, how)()
    except Exception as e:  # runtime errors of the simulated program
        return type(e).__name__ + ":" + repr(e)
    return None


def run(case, mode, rng, n_steps=None):
    """mode: 'clean' (exactly n_steps step calls and NO inspection call of any
    kind before the end), 'random', 'full' (inspected; stop when is_done()).
    Returns (trace, final_observation, steps_done, error)."""
    sim, insp = case.make_sim()
    names = sorted(insp)
    trace = []  # (step, name, value)
    error = None
    steps = 0
    limit = len(case.plan) if n_steps is None else n_steps
    while steps < limit:
        if mode != "clean" and sim.is_done():
            break
        error = do_step(sim, case.plan[steps])
        steps += 1
        if mode == "random":
            for _ in range(rng.choice([0, 1, 1, 2, 3, 6])):
                name = rng.choice(names)
                for _rep in range(rng.choice([1, 1, 2, 3])):
                    trace.append((steps, name, insp[name]()))
        elif mode == "full":
            for _rep in range(2):
                for name in names:
                    trace.append((steps, name, insp[name]()))
        if error is not None:
            break
    final = observe_all(insp)
    return trace, final, steps, error


def make_riscv_case(seed):
    rng = random.Random(seed)
    mode = rng.choice(["single_stage_pipeline", "five_stage_pipeline"])
    hazards = rng.random() < 0.8
    dco = cache_options(rng, P_DATA_CACHE, False)
    ico = cache_options(rng, P_INSTR_CACHE, True)
    program = riscv_program(rng, allow_misaligned=rng.random() < 0.15)

    def make_sim():
        sim = RiscvSimulation(mode=mode, detect_data_hazards=hazards, data_cache=dco, instruction_cache=ico)
        sim.load_program(program)
        return sim, riscv_inspectors(sim)

    desc = "%s hz=%d dc=%s ic=%s" % (
        mode[:4],
        hazards,
        _co(dco),
        _co(ico),
    )
    return Case("riscv", make_sim, ["step"] * MAX_STEPS), desc


def _co(o):
    if not o.enable:
        return "off"
    return "%s/%s/i%db%da%dp%d" % (o.cache_type, o.replacement_strategy, o.num_index_bits, o.num_block_bits, o.associativity, o.miss_penalty)


def make_toy_case(seed):
    rng = random.Random(seed)
    program = toy_program(rng)
    cyclewise = rng.random() < 0.5
    plan = ["single_step" if cyclewise else "step"] * (MAX_STEPS * (2 if cyclewise else 1))

    def make_sim():
        sim = ToySimulation()
        sim.load_program(program)
        return sim, toy_inspectors(sim)

    return Case("toy", make_sim, plan), "toy cyclewise=%d" % cyclewise


def main():
    digest = hashlib.sha256()
    violations = 0
    totals = {"cases": 0, "steps": 0, "errors": 0, "exited": 0, "inspection_calls": 0, "sampled_prefix_checks": 0}
    per_kind = {}
    seeds = [("riscv", SEED_BASE + i) for i in range(N_RISCV)] + [("toy", SEED_BASE + 5000 + i) for i in range(N_TOY)]
    for kind, seed in seeds:
        case, desc = make_riscv_case(seed) if kind == "riscv" else make_toy_case(seed)
        rng = random.Random(seed * 7 + 1)

        trace_full, final_full, steps_full, err_full = run(case, "full", rng)
        trace_rand, final_rand, steps_rand, err_rand = run(case, "random", rng)
        # uninspected twin: the same number of step calls, nothing else
        _, final_clean, steps_clean, err_clean = run(case, "clean", rng, n_steps=steps_full)

        # 1. final results identical with and without inspection
        for other_final, other_steps, other_err in (
            (final_rand, steps_rand, err_rand),
            (final_full, steps_full, err_full),
        ):
            if other_final != final_clean or other_steps != steps_clean or other_err != err_clean:
                violations += 1

        # 2. every inspection result obtained on the way equals the one of the
        #    fully inspected run at the same step (pure => deterministic)
        full_at = {}
        for step, name, value in trace_full:
            key = (step, name)
            if key in full_at and full_at[key] != value:
                violations += 1  # repetition changed the answer
            full_at[key] = value
        for step, name, value in trace_rand:
            if full_at.get((step, name)) != value:
                violations += 1

        # 3. ... and equals what an UNINSPECTED run stopped at that step reports
        if steps_clean > 0:
            for k in sorted({rng.randint(1, steps_clean) for _ in range(3)}):
                _, obs_k, steps_k, _ = run(case, "clean", rng, n_steps=k)
                totals["sampled_prefix_checks"] += 1
                if steps_k != k:
                    violations += 1
                for name, value in obs_k.items():
                    if full_at.get((k, name)) != value:
                        violations += 1
                digest.update(json.dumps([k, obs_k], sort_keys=True).encode())

        blob = json.dumps([desc, steps_clean, err_clean, final_clean, trace_rand, trace_full], sort_keys=True)
        digest.update(blob.encode())
        totals["cases"] += 1
        totals["steps"] += steps_clean
        totals["errors"] += err_clean is not None
        totals["exited"] += final_clean.get("exit_code") is not None
        totals["inspection_calls"] += len(trace_rand) + len(trace_full)
        for which in ("data", "instr"):
            stats = final_clean.get(which + "_cache_stats")
            if stats:
                totals.setdefault(which + "_cache_cases", 0)
                totals.setdefault(which + "_cache_hits", 0)
                totals.setdefault(which + "_cache_accesses", 0)
                totals[which + "_cache_cases"] += 1
                totals[which + "_cache_hits"] += int(stats["hits"])
                totals[which + "_cache_accesses"] += int(stats["accesses"])
        k = desc.split(" ")[0]
        per_kind[k] = per_kind.get(k, 0) + 1

    print("demo", DEMO_ID)
    print("cases by kind:", sorted(per_kind.items()))
    for key in sorted(totals):
        print(key + ":", totals[key])
    print("purity violations:", violations)
    print("sha256 of all observations:", digest.hexdigest())
    return 0 if violations == 0 else 1


if __name__ == "__main__":
    sys.exit(main())
