"""Differential check for C12 (write-through keeps memory current; write-back
never loses a written value).

Self-contained.  Drives WriteThroughMemorySystem / WriteBackMemorySystem with
random access histories over random geometries (fixed seeds), checks the C12
state invariant after every operation against a trivial logical byte model and
prints digests of everything observable: values returned / exceptions raised,
the backing memory after every operation, the resident blocks after every
operation (through the public block attributes AND through cache_repr()),
the user-visible memory table and the statistics.

Run it on the unchanged and on the changed tree: the output must be identical.

Part A uses histories without word-crossing accesses and digests the complete
observable state after every operation.  Part B mixes in word-crossing
half-word/word accesses (which are rejected with an error).  What a REJECTED
access leaves behind in the cache (replacement order, allocation, statistics)
is not fixed by C12, so part B digests what C12 does fix: which accesses are
rejected, every value that is read, the invariant after every operation, the
backing memory under write-through after every operation and the backing
memory after everything has been evicted.

    cd /tmp/wtR_C12 && PYTHONPATH=/tmp/wtR_C12 /venv/bin/python /tmp/outR_C12/demo_3.py
"""
import hashlib
import random
import sys

from fixedint import UInt8, UInt16, UInt32

from architecture_simulator.uarch.memory.memory import Memory, AddressingType
from architecture_simulator.uarch.memory.write_through_memory_system import (
    WriteThroughMemorySystem,
)
from architecture_simulator.uarch.memory.write_back_memory_system import (
    WriteBackMemorySystem,
)
from architecture_simulator.uarch.riscv.riscv_performance_metrics import (
    RiscvPerformanceMetrics,
)

# Part B (histories that contain word-crossing accesses): digest the complete
# machine state as well (True), or only the property-level results (False).
FULL_DIGEST_WITH_MISALIGNED = False

N_CASES_A = 320
N_CASES_B = 240
BASE = 0x4000


class Model:
    """Logical memory contents: what a program would see without any cache."""

    def __init__(self):
        self.bytes = {}

    def rd(self, addr, n):
        return sum(self.bytes.get(addr + i, 0) << (8 * i) for i in range(n))

    def wr(self, addr, n, value):
        for i in range(n):
            self.bytes[addr + i] = (value >> (8 * i)) & 0xFF


def backing_byte(memory, addr):
    return int(memory.memory_file.get(addr, 0))


def resident_blocks(ms):
    """(block aligned address, [word ints], dirty) of every valid block, in set/way order."""
    out = []
    for zet in ms.cache.sets:
        for block in zet.blocks:
            if block.valid_bit:
                out.append(
                    (
                        block.decoded_address.block_alinged_address,
                        [int(w) for w in block.values],
                        bool(block.dirty_bit),
                    )
                )
    return out


def check_invariant(kind, ms, model, touched, block_bytes):
    """Returns the number of C12 violations in the current state."""
    bad = 0
    blocks = resident_blocks(ms)
    resident = {}
    for base, words, _ in blocks:
        for i, w in enumerate(words):
            for b in range(4):
                resident[base + 4 * i + b] = (w >> (8 * b)) & 0xFF
    if len({b for b, _, _ in blocks}) != len(blocks):
        bad += 1  # the same block resident twice
    for addr in touched:
        logical = model.bytes.get(addr, 0)
        if kind == "wt":
            # backing memory identical to the logical contents
            if backing_byte(ms.memory, addr) != logical:
                bad += 1
            # every resident block identical to its backing block
            if addr in resident and resident[addr] != backing_byte(ms.memory, addr):
                bad += 1
        else:
            if addr in resident:
                # the cache holds the current value
                if resident[addr] != logical:
                    bad += 1
            elif backing_byte(ms.memory, addr) != logical:
                # backing memory may lag only for resident blocks
                bad += 1
    # the memory table shown to the user is the backing memory
    table = ms.wordwise_repr()
    for addr in touched:
        word_addr = addr & ~3
        shown = int(table[word_addr][1].replace(" ", "")) if word_addr in table else 0
        if (shown >> (8 * (addr & 3))) & 0xFF != backing_byte(ms.memory, addr):
            bad += 1
    return bad


def snapshot(ms):
    """Everything observable about the memory system, as plain data."""
    mem = sorted((a, int(v)) for a, v in ms.memory.memory_file.items())
    blocks = []
    for zet in ms.cache.sets:
        for block in zet.blocks:
            blocks.append(
                (
                    bool(block.valid_bit),
                    bool(block.dirty_bit),
                    [int(w) for w in block.values],
                    block.decoded_address.full_address,
                    block.decoded_address.tag,
                )
            )
    rep = ms.cache_repr()
    rep_plain = [
        (
            s.index,
            [(b.valid_bit, b.dirty_bit, b.tag, list(b.address_value_list)) for b in s.blocks],
            [int(x) for x in s.replacement_status],
        )
        for s in rep.sets
    ]
    table = sorted(ms.wordwise_repr().items())
    stats = (
        ms.hits,
        ms.accesses,
        ms.last_was_hit,
        ms.performance_metrics.cycles,
        sorted(ms.get_cache_stats().items()),
    )
    return repr((mem, blocks, rep_plain, table, stats))


def run_case(seed, with_misaligned, full_digest):
    rng = random.Random(seed)
    kind = rng.choice(["wt", "wb"])
    index_bits = rng.choice([0, 0, 1, 1, 2])
    block_bits = rng.choice([0, 0, 1, 2])
    assoc = rng.choice([1, 2, 2, 4])
    strategy = rng.choice(["lru", "plru"])
    penalty = rng.choice([0, 3, 10])
    block_bytes = 4 << block_bits
    cache_bytes = block_bytes * (1 << index_bits) * assoc
    window = cache_bytes * rng.choice([2, 3, 4])

    # Some cases use a memory whose valid addresses start at BASE (like the
    # memory of the simulator, which starts at memory_address_min_bytes) and
    # also access addresses below it, which the lower memory rejects.
    limited = rng.random() < 0.3
    memory = Memory(
        AddressingType.BYTE, 32, True, range(BASE, 2**32) if limited else None
    )
    low = BASE - 16 if limited else BASE
    cls = WriteThroughMemorySystem if kind == "wt" else WriteBackMemorySystem
    ms = cls(
        memory=memory,
        num_index_bits=index_bits,
        num_block_bits=block_bits,
        associativity=assoc,
        performance_metrics=RiscvPerformanceMetrics(),
        miss_penality=penalty,
        replacement_strategy=strategy,
    )
    model = Model()
    touched = set()

    # "program load": initial data goes straight to the lower memory
    for _ in range(rng.randrange(0, 6)):
        addr = BASE + 4 * rng.randrange(window // 4)
        value = rng.getrandbits(32)
        ms.write_word(addr, UInt32(value), directly_write_to_lower_memory=True)
        model.wr(addr, 4, value)
        touched.update(range(addr, addr + 4))

    prop = hashlib.sha256()  # property-level results
    full = hashlib.sha256()  # complete observable state
    violations = 0
    wrong_reads = 0
    errors = 0

    n_ops = rng.randrange(40, 90)
    for _ in range(n_ops):
        op = rng.choice(["rb", "rh", "rw", "wb", "wb", "wh", "wh", "ww", "ww"])
        size = {"b": 1, "h": 2, "w": 4}[op[1]]
        addr = low + rng.randrange(window + BASE - low)
        if not (with_misaligned and rng.random() < 0.25):
            addr -= addr % size
        stat = rng.random() >= 0.15
        value = rng.getrandbits(8 * size)
        crosses = (addr & 3) + size > 4
        illegal = crosses or addr < low or (limited and addr < BASE)
        try:
            if op == "rb":
                res = int(ms.read_byte(addr, update_statistics=stat))
            elif op == "rh":
                res = int(ms.read_halfword(addr, update_statistics=stat))
            elif op == "rw":
                res = int(ms.read_word(addr, update_statistics=stat))
            elif op == "wb":
                res = ms.write_byte(addr, UInt8(value))
            elif op == "wh":
                res = ms.write_halfword(addr, UInt16(value))
            else:
                res = ms.write_word(addr, UInt32(value))
            if illegal:
                wrong_reads += 1  # word-crossing / out of range accesses must be rejected
            if op[0] == "r":
                if res != model.rd(addr, size):
                    wrong_reads += 1
            else:
                model.wr(addr, size, value)
            touched.update(range(addr & ~3, (addr & ~3) + 4))
            outcome = repr(res)
        except Exception as exc:  # noqa: BLE001
            errors += 1
            if not illegal:
                wrong_reads += 1
            if full_digest:
                outcome = "!" + type(exc).__name__ + repr(getattr(exc, "__dict__", {}))
            else:
                outcome = "!rejected"
        prop.update((op + hex(addr) + outcome + ";").encode())
        violations += check_invariant(kind, ms, model, touched, block_bytes)
        if full_digest:
            full.update(snapshot(ms).encode())
        elif kind == "wt":
            # under write-through the backing memory is pinned down completely
            full.update(
                repr(sorted((a, int(v)) for a, v in memory.memory_file.items() if int(v))).encode()
            )

    # Final sweep: evict everything by reading conflicting blocks far away,
    # then the backing memory must hold every value that was ever written.
    lost = 0
    far = BASE + 64 * cache_bytes
    for i in range(2 * assoc * (1 << index_bits) * 2):
        ms.read_word(far + i * block_bytes)
    for addr in sorted(touched):
        if backing_byte(memory, addr) != model.bytes.get(addr, 0):
            lost += 1
    if full_digest:
        full.update(snapshot(ms).encode())
    else:
        # after everything has been evicted the backing memory is pinned down
        # completely under write-back as well
        full.update(repr([(a, backing_byte(memory, a)) for a in sorted(touched)]).encode())
    return (
        (kind, index_bits, block_bits, assoc, strategy),
        prop.hexdigest(),
        full.hexdigest(),
        violations,
        wrong_reads,
        lost,
        errors,
        n_ops,
    )


def run_part(name, seeds, with_misaligned, full_digest):
    prop = hashlib.sha256()
    full = hashlib.sha256()
    tot = {"violations": 0, "wrong": 0, "lost": 0, "errors": 0, "ops": 0, "wt": 0, "wb": 0}
    for seed in seeds:
        geo, p, f, violations, wrong, lost, errors, n_ops = run_case(
            seed, with_misaligned, full_digest
        )
        prop.update((repr(geo) + p).encode())
        full.update(f.encode())
        tot["violations"] += violations
        tot["wrong"] += wrong
        tot["lost"] += lost
        tot["errors"] += errors
        tot["ops"] += n_ops
        tot[geo[0]] += 1
    print(
        f"part {name}: cases={len(seeds)} (wt={tot['wt']} wb={tot['wb']}) ops={tot['ops']} "
        f"rejected_accesses={tot['errors']}"
    )
    print(f"  invariant violations        : {tot['violations']}")
    print(f"  wrong read values/outcomes  : {tot['wrong']}")
    print(f"  bytes lost after evict-all  : {tot['lost']}")
    print(f"  digest(results)             : {prop.hexdigest()}")
    print(
        f"  digest({'full state per op' if full_digest else 'wt backing memory per op, all backing memory after evict-all'}) : {full.hexdigest()}"
    )
    return tot["violations"] + tot["wrong"] + tot["lost"]


def main():
    bad = 0
    bad += run_part("A (aligned accesses)", range(3000, 3000 + N_CASES_A), False, True)
    bad += run_part(
        "B (with word-crossing accesses)",
        range(9000, 9000 + N_CASES_B),
        True,
        FULL_DIGEST_WITH_MISALIGNED,
    )
    print("C12 holds on all cases" if bad == 0 else f"C12 VIOLATED ({bad})")
    return 0


if __name__ == "__main__":
    sys.exit(main())
