"""Deterministic simulation with fault injection for ekut-es/architecture-simulator.

Three engines (see /verif/DESIGN.md):
  pipesim - the clocked five-stage pipeline against sequential / timing / delayed-visibility models
  memsim  - the storage hierarchy against a byte map and a reference cache
  lifesim - the driver (browser event loop / API caller) against fresh-instance shadows
"""
