"""Differential check for C18 (flat memory = little-endian byte store, wrap-around, range checks).

Self-contained.  Drives the RISC-V data memory and the TOY memory with random
histories (fixed seeds), compares every observable result with an independent
byte-dictionary model, and prints digests of everything observed.  The output
must be identical before and after change 3 (`memory_file` becomes a read-only
live view over private storage, assignment to it takes a validated copy, byte
cells come from a pool of shared immutable objects).

The demo digests values, result types, exact error fields/messages, the repr
tables and the contents seen through `memory_file` (read access only, plus the
whole-dictionary assignment the test-suite uses for preloading, plus a
deepcopy of the memory half-way through every history).
"""
import copy
import hashlib
import random

from fixedint import UInt8, UInt16, UInt32

from architecture_simulator.uarch.memory.memory import MemoryAddressError
from architecture_simulator.uarch.riscv.riscv_architectural_state import (
    RiscvArchitecturalState,
)
from architecture_simulator.uarch.toy.toy_architectural_state import (
    ToyArchitecturalState,
)
from architecture_simulator.simulation.riscv_simulation import RiscvSimulation
from architecture_simulator.simulation.toy_simulation import ToySimulation

LOW = 2**14
TOP = 2**32


class Digest:
    def __init__(self):
        self.h = hashlib.sha256()
        self.n = 0
        self.errors = 0

    def add(self, *items):
        text = repr(items)
        self.h.update(text.encode())
        self.n += 1
        if "addr-error" in text or "Exception" in text:
            self.errors += 1

    def hex(self):
        return self.h.hexdigest()[:32]


def pick_value(rng, bits):
    kind = rng.randrange(6)
    if kind == 0:
        return 0
    if kind == 1:
        return rng.randrange(4)
    if kind == 2:
        b = rng.randrange(256)
        return int.from_bytes(bytes([b]) * (bits // 8), "little")
    if kind == 3:
        return (1 << bits) - 1
    return rng.getrandbits(bits)


def pick_riscv_address(rng, hot):
    kind = rng.randrange(10)
    if kind == 0:
        return LOW + rng.randrange(-8, 24)
    if kind == 1:
        return TOP + rng.randrange(-12, 12)
    if kind == 2:
        return rng.randrange(-16, 16)
    if kind == 3:
        return rng.choice([1, 2, 3, -1, -2]) * TOP + LOW + rng.randrange(-8, 16)
    if kind == 4:
        return rng.randrange(0, LOW)
    if kind == 5:
        return rng.getrandbits(32)
    if kind == 6:
        return rng.choice([1, -1, 5]) * TOP + hot + rng.randrange(0, 24)
    return hot + rng.randrange(0, 24)


# ---------------------------------------------------------------- part A
def riscv_direct(seed, digest):
    """Random history on RiscvArchitecturalState().memory against a byte model."""
    rng = random.Random(seed)
    mem = RiscvArchitecturalState().memory
    model = {}
    hot = rng.choice([LOW, 0x10000, 0x7FFFFFF0, TOP - 32])
    mismatches = 0
    if seed % 3 == 0:  # preload the way tests/test_riscv_instructions.py does
        preload = {hot + i: UInt8(rng.getrandbits(8)) for i in rng.sample(range(24), 6)}
        mem.memory_file = dict(preload)
        model.update({k: int(v) for k, v in preload.items()})
    for step in range(60):
        if step == 30 and seed % 2 == 0:  # continue on a deep copy, the original must not be needed any more
            mem = copy.deepcopy(mem)
        width = rng.choice([1, 2, 4])
        address = pick_riscv_address(rng, hot)
        cells = [(address + i) % TOP for i in range(width)]
        if rng.random() < 0.55:
            value = pick_value(rng, 8 * width)
            fn, cls = {
                1: (mem.write_byte, UInt8),
                2: (mem.write_halfword, UInt16),
                4: (mem.write_word, UInt32),
            }[width]
            expect_error = False
            for i, c in enumerate(cells):  # model: ascending, stop at first bad cell
                if c < LOW:
                    expect_error = True
                    break
                model[c] = (value >> (8 * i)) & 0xFF
            try:
                fn(address, cls(value))
                got = "ok"
            except MemoryAddressError as e:
                got = ("addr-error", int(e.address), e.min_address_incl,
                       e.max_address_incl, e.memory_type, repr(e))
            digest.add("w", width, address, value, got)
            if (got != "ok") != expect_error:
                mismatches += 1
        else:
            fn = {1: mem.read_byte, 2: mem.read_halfword, 4: mem.read_word}[width]
            expect = None
            if all(c >= LOW for c in cells):
                expect = sum(model.get(c, 0) << (8 * i) for i, c in enumerate(cells))
            try:
                r = fn(address)
                got = (type(r).__name__, int(r))
                if expect is None or int(r) != expect:
                    mismatches += 1
            except MemoryAddressError as e:
                got = ("addr-error", int(e.address), e.min_address_incl,
                       e.max_address_incl, e.memory_type, repr(e))
                if expect is not None:
                    mismatches += 1
            digest.add("r", width, address, got)
    # final contents: through byte reads, through the repr API, and raw
    for c in sorted(model):
        if int(mem.read_byte(c)) != model[c]:
            mismatches += 1
    digest.add("final-model", sorted(model.items()))
    digest.add("final-repr", sorted(mem.wordwise_repr().items()))
    digest.add("final-raw", sorted((int(k), int(v)) for k, v in mem.memory_file.items()))
    if {int(k): int(v) for k, v in mem.memory_file.items()} != model:
        mismatches += 1
    return mismatches


# ---------------------------------------------------------------- part B
def toy_direct(seed, digest):
    """Random history on ToyArchitecturalState().memory (16-bit cells, 4096 addresses, no wrap)."""
    rng = random.Random(seed)
    mem = ToyArchitecturalState().memory
    model = {}
    mismatches = 0
    hot = rng.choice([0, 1024, 4080])
    for _ in range(50):
        n = rng.choice([1, 1, 1, 2])  # half-word = one cell, word = two cells
        kind = rng.randrange(7)
        if kind == 0:
            address = rng.randrange(-4, 6)
        elif kind == 1:
            address = 4096 + rng.randrange(-5, 5)
        elif kind == 2:
            address = rng.choice([TOP, TOP + 5, -4096, 4096 * 2 + 3, 65536 + 7])
        elif kind == 3:
            address = rng.randrange(4096)
        else:
            address = hot + rng.randrange(12)
        cells = [address + i for i in range(n)]
        if rng.random() < 0.55:
            value = pick_value(rng, 16 * n)
            expect_error = False
            for i, c in enumerate(cells):
                if not 0 <= c < 4096:
                    expect_error = True
                    break
                model[c] = (value >> (16 * i)) & 0xFFFF
            try:
                if n == 1:
                    mem.write_halfword(address, UInt16(value))
                else:
                    mem.write_word(address, UInt32(value))
                got = "ok"
            except MemoryAddressError as e:
                got = ("addr-error", int(e.address), e.min_address_incl,
                       e.max_address_incl, repr(e))
            digest.add("w", n, address, value, got)
            if (got != "ok") != expect_error:
                mismatches += 1
        else:
            expect = None
            if all(0 <= c < 4096 for c in cells):
                expect = sum(model.get(c, 0) << (16 * i) for i, c in enumerate(cells))
            try:
                r = mem.read_halfword(address) if n == 1 else mem.read_word(address)
                got = (type(r).__name__, int(r))
                if expect is None or int(r) != expect:
                    mismatches += 1
            except MemoryAddressError as e:
                got = ("addr-error", int(e.address), e.min_address_incl,
                       e.max_address_incl, repr(e))
                if expect is not None:
                    mismatches += 1
            digest.add("r", n, address, got)
    digest.add("final-repr", sorted(mem.half_wordwise_repr().items()))
    digest.add("final-raw", sorted((int(k), int(v)) for k, v in mem.memory_file.items()))
    if {int(k): int(v) for k, v in mem.memory_file.items()} != model:
        mismatches += 1
    return mismatches


# ---------------------------------------------------------------- part C
def riscv_program(seed, digest):
    """Random straight-line load/store program through the assembler and both pipelines."""
    rng = random.Random(seed)
    hot = rng.choice([LOW, 0x10000, TOP - 16, LOW + 2])
    lines = []
    for _ in range(10):
        if rng.random() < 0.08:
            address = pick_riscv_address(rng, hot) % TOP
        else:
            address = (hot + rng.randrange(0, 14)) % TOP
        offset = rng.randrange(-8, 8)
        base = (address - offset) % TOP
        lines.append(f"li t0, {base}")
        if rng.random() < 0.55:
            lines.append(f"li t1, {pick_value(rng, 32)}")
            lines.append(f"{rng.choice(['sb', 'sh', 'sw'])} t1, {offset}(t0)")
        else:
            rd = rng.choice(["t2", "t3", "t4", "t5"])
            lines.append(f"{rng.choice(['lb', 'lbu', 'lh', 'lhu', 'lw'])} {rd}, {offset}(t0)")
    program = "\n".join(lines)
    for mode in ("single_stage_pipeline", "five_stage_pipeline"):
        sim = RiscvSimulation(mode=mode)
        sim.load_program(program)
        try:
            sim.run()
            outcome = "done"
        except Exception as e:  # noqa: BLE001 - the outcome is part of the digest
            outcome = (type(e).__name__, repr(e))
        digest.add(mode, outcome,
                   [int(r) for r in sim.state.register_file.registers],
                   sim.get_data_memory_entries())


# ---------------------------------------------------------------- part D
def toy_program(seed, digest):
    rng = random.Random(seed)
    lines = []
    for _ in range(12):
        address = rng.choice([0x400, 0x401, 0xFFF, 0xFFE, 0x800, rng.randrange(0x400, 0x1000)])
        lines.append(rng.choice(["INC", "INC", "DEC", f"ADD {address}", f"STO {address}",
                                 f"STO {address}", f"LDA {address}"]))
    sim = ToySimulation()
    sim.load_program("\n".join(lines))
    try:
        sim.run()
        outcome = "done"
    except Exception as e:  # noqa: BLE001
        outcome = (type(e).__name__, repr(e))
    digest.add(outcome, int(sim.state.accu), sim.get_memory_table_entries())


def main():
    total_mismatches = 0
    d = Digest()
    for seed in range(300):
        total_mismatches += riscv_direct(1000 + seed, d)
    print("A riscv flat memory, direct  :", d.n, "observations,", d.errors, "with an error, digest", d.hex())
    d = Digest()
    for seed in range(150):
        total_mismatches += toy_direct(5000 + seed, d)
    print("B toy memory, direct         :", d.n, "observations,", d.errors, "with an error, digest", d.hex())
    d = Digest()
    for seed in range(80):
        riscv_program(9000 + seed, d)
    print("C riscv programs (2 pipelines):", d.n, "observations,", d.errors, "with an error, digest", d.hex())
    d = Digest()
    for seed in range(80):
        toy_program(12000 + seed, d)
    print("D toy programs               :", d.n, "observations,", d.errors, "with an error, digest", d.hex())
    print("mismatches against the byte-store model:", total_mismatches)


if __name__ == "__main__":
    main()
