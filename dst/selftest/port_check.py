"""python -m dst selftest port [--n 300]

Differential check of the Python port of the web front end's driver (lifesim/driver.py) against the ORIGINAL
webgui/src/js/base_simulation_store.js executed by node with fake timers: both are driven by the same seeded
scenarios (loads, step/run/pause/reset clicks, settings changes, run-time faults at a chosen step, failing loads,
with the shipped batch size 1000 and 25 ms timer) against a scripted fake simulation, and must issue the same
sequence of mutating calls (new simulation, load_program, step, resume_timer, stop_timer) at the same virtual times
and end with the same store flags."""
import json
import os
import random
import subprocess
import tempfile


class FakeSim:
    def __init__(self, log, clock):
        self.log, self.clock = log, clock
        self.steps = self.total = 0
        self.fail_at = None
        self.has_started = False
        self.next_cycle = 1

    def load_program(self, text):
        self.log.append(["load_program", self.clock(), text])
        if text.startswith("bad"):
            raise ValueError("parse")
        parts = text.split()
        self.total = int(parts[1]) if len(parts) >= 2 and parts[0] == "prog" else 0
        self.fail_at = int(parts[3]) if len(parts) == 4 else None
        self.steps = 0

    def is_done(self):
        return self.steps >= self.total

    def has_instructions(self):
        return self.total > 0

    def step(self):
        self.log.append(["step", self.clock()])
        if self.is_done():
            return False
        if self.fail_at is not None and self.steps + 1 == self.fail_at:
            raise RuntimeError("runtime")
        self.steps += 1
        self.has_started = True
        return not self.is_done()


class FakeSubject:
    """Duck-typed stand-in for lifesim.subject.Subject: records what the ported driver asks for."""

    isa = "riscv"

    def __init__(self, log, clock):
        from collections import Counter

        self.log, self.clock = log, clock
        self.res = type("R", (), {"probes": Counter(), "faults": Counter()})()
        self.total_steps = 0
        self.settings = {}
        self.new_simulation()

    def new_simulation(self):
        self.log.append(["new", self.clock()])
        self.sut = FakeSim(self.log, self.clock)

    def load(self, text):
        try:
            self.sut.load_program(text)
            return ("ok",)
        except Exception:
            return ("error", ["ParserException", "msg", 1], "ParserSyntaxException")

    def step(self, call="step"):
        self.total_steps += 1
        try:
            return ("ok", self.sut.step())
        except Exception:
            return ("raised", "InstructionExecutionException", 4)

    def timer(self, which):
        self.log.append([which, self.clock()])

    def inspect(self, names, reps=1):
        pass

    def compare(self, *a, **k):
        pass

    def violate(self, *a, **k):
        pass


def run_port(scenario):
    from ..lifesim.driver import Ui

    log = []
    holder = {}
    sub = FakeSubject(log, lambda: holder["ui"].loop.now if "ui" in holder else 0.0)
    ui = Ui(sub, {"batch": 1000, "tick_ms": 25, "debounce": 500, "step_cap": 10**9}, scenario["initial_text"])
    holder["ui"] = ui
    ui.editor.loadProgram()
    for ev in scenario["events"]:
        ui.loop.run_until(ui.loop.now + ev["dt"])
        ui.do(ev["act"], ev.get("arg") if ev["act"] != "setting" else {})
    guard = 0
    while ui.loop.q and guard < 500:
        ui.loop.run_until(ui.loop.q[0][0])
        guard += 1
    s = ui.store
    return {"log": [[x[0], float(x[1])] + x[2:] for x in log], "isRunning": bool(s.isRunning), "doPause": bool(s.doPause),
            "error": bool(s.error), "isDone": bool(s.isDone), "hasStarted": bool(s.hasStarted)}


def gen_scenario(seed):
    r = random.Random(seed)

    def text():
        k = r.random()
        if k < 0.15:
            return "bad text"
        if k < 0.25:
            return "prog 0"
        n = r.choice([1, 3, 999, 1000, 1001, 2500, 5])
        return f"prog {n}" + (f" fail {r.randint(1, n)}" if r.random() < 0.25 else "")

    events = []
    for _ in range(r.randint(1, 14)):
        events.append({"dt": r.choice([0, 1, 10, 24, 25, 26, 50, 100, 600]),
                       "act": r.choice(["step", "step", "run", "run", "pause", "reset", "setting", "upload"]), "arg": text()})
    return {"initial_text": text(), "events": events}


def main(argv):
    from ..core.repo import activate, repo_path

    activate()
    n = int(argv[argv.index("--n") + 1]) if "--n" in argv else 300
    here = os.path.dirname(os.path.abspath(__file__))
    bad = 0
    with tempfile.TemporaryDirectory(prefix="dst-port-") as tmp:
        for seed in range(n):
            sc = gen_scenario(seed)
            path = os.path.join(tmp, "s.json")
            json.dump(sc, open(path, "w"))
            p = subprocess.run(["node", os.path.join(here, "port_check.mjs"), repo_path(), path], capture_output=True, text=True, timeout=120)
            if p.returncode != 0:
                print(f"scenario {seed}: node failed: {p.stderr[-500:]}")
                bad += 1
                continue
            js = json.loads(p.stdout.strip().splitlines()[-1])
            js["log"] = [[x[0], float(x[1])] + x[2:] for x in js["log"]]
            py = run_port(sc)
            if js != py:
                bad += 1
                if bad <= 3:
                    print(f"scenario {seed} DIFFERS: {json.dumps(sc)}")
                    for i, (a, b) in enumerate(zip(js["log"], py["log"])):
                        if a != b:
                            print(f"  first difference at call {i}: original {a} / port {b}")
                            break
                    else:
                        print(f"  log lengths {len(js['log'])} / {len(py['log'])}; flags {[js[k] for k in ('isRunning','doPause','error','isDone','hasStarted')]} / {[py[k] for k in ('isRunning','doPause','error','isDone','hasStarted')]}")
    print(f"port selftest: {n} scenarios, {bad} differences between the original JavaScript store and the Python port")
    return 1 if bad else 0
