#!/venv/bin/python
"""Evaluate behaviour-PRESERVING changes produced by sub-agents: the check of the property they were asked to
preserve must stay silent (an alarm is either a real violation the agent overlooked, or a false alarm / a white-box
dependence of the machinery - every such case is analysed by hand).

usage: eval_preserving.py <PROP> <out_dir> [--scale S] [--checks C02,C07] [--only 1,2] [--offset 3]
Stores /verif/preserving/<PROP>-<k>/{patch.diff, demo.py, notes.md, meta.json}.
"""
import json
import os
import shutil
import subprocess
import sys
import time

PY = "/venv/bin/python"


def sh(cmd, **kw):
    return subprocess.run(cmd, capture_output=True, text=True, **kw)


def main():
    prop, out = sys.argv[1], sys.argv[2]
    arg = lambda n, d=None: sys.argv[sys.argv.index(n) + 1] if n in sys.argv else d  # noqa: E731
    scale = arg("--scale", "0.5")
    checks = (arg("--checks") or prop).split(",")
    ks = sorted(int(f.split("_")[1].split(".")[0]) for f in os.listdir(out) if f.startswith("patch_") and f.endswith(".diff"))
    only = arg("--only")
    offset = int(arg("--offset", "0"))  # round 2 is stored as <PROP>-4..6
    if only:
        ks = [k for k in ks if str(k) in only.split(",")]
    for k in ks:
        patch = os.path.join(out, f"patch_{k}.diff")
        demo = os.path.join(out, f"demo_{k}.py")
        notes = os.path.join(out, f"notes_{k}.md")
        wt = f"/tmp/evp_{prop}_{k}"
        sh(["git", "-C", "/repo", "worktree", "remove", "--force", wt])
        shutil.rmtree(wt, ignore_errors=True)
        sh(["git", "-C", "/repo", "worktree", "add", "-q", "--detach", wt, "HEAD"])
        kk = k + offset
        meta = {"property_to_preserve": prop, "k": kk, "round": 1 + (kk - 1) // 3}
        try:
            env = dict(os.environ, PYTHONPATH=wt)
            before = sh([PY, demo], cwd=wt, env=env, timeout=1200) if os.path.exists(demo) else None
            r = sh(["git", "-C", wt, "apply", patch])
            if r.returncode != 0:
                print(f"{prop}-R{k}: patch does not apply: {r.stderr[:300]}")
                continue
            t = sh([PY, "-m", "pytest", "-q", "-p", "no:cacheprovider"], cwd=wt, env=env, timeout=1200)
            after = sh([PY, demo], cwd=wt, env=env, timeout=1200) if os.path.exists(demo) else None
            same = bool(before and after and before.stdout == after.stdout and after.returncode == 0)
            meta.update(tests_pass_with_change=t.returncode == 0, demo_output_identical=same,
                        diff_lines=sum(1 for ln in open(patch) if ln.startswith(("+", "-")) and not ln.startswith(("+++", "---"))))
            results = {}
            for c in checks:
                env2 = dict(os.environ, VERIF_REPO=wt, VERIF_SCALE=scale, VERIF_NO_RESAMPLE="1",
                            VERIF_EVIDENCE_DIR=wt + "_ev", VERIF_REPLAY_DIR=wt + "_rp")
                t0 = time.monotonic()
                p = sh([PY, "-m", "dst", "check", c, "--tier", "quick"], cwd="/verif", env=env2, timeout=7200)
                kinds = sorted({ln.strip().split(":")[0] for ln in p.stdout.splitlines() if ln.startswith("  ") and ": {" in ln})
                verdict = {0: "silent", 1: "ALARM", 2: "HARNESS-ERROR"}.get(p.returncode, f"rc={p.returncode}")
                results[c] = {"verdict": verdict, "kinds": kinds, "seconds": round(time.monotonic() - t0, 1)}
                if p.returncode != 0:
                    results[c]["tail"] = p.stdout.splitlines()[-10:]
                    rd = wt + "_rp"
                    if os.path.isdir(rd):
                        for f in sorted(os.listdir(rd))[:2]:
                            try:
                                doc = json.load(open(os.path.join(rd, f)))
                                results[c].setdefault("replays", []).append({"violation": doc.get("violation"), "readable": doc.get("readable")})
                            except Exception:
                                pass
                shutil.rmtree(wt + "_ev", ignore_errors=True)
                shutil.rmtree(wt + "_rp", ignore_errors=True)
            meta["checks"] = results
            print(f"{prop}-R{kk}: tests_pass={t.returncode == 0} demo_identical={same} lines={meta['diff_lines']} -> "
                  + ", ".join(f"{c}:{v['verdict']}{v['kinds'][:2] if v['kinds'] else ''}" for c, v in results.items()), flush=True)
            dst = f"/verif/preserving/{prop}-{kk}"
            os.makedirs(dst, exist_ok=True)
            shutil.copy(patch, os.path.join(dst, "patch.diff"))
            if os.path.exists(demo):
                shutil.copy(demo, os.path.join(dst, "demo.py"))
            if os.path.exists(notes):
                shutil.copy(notes, os.path.join(dst, "notes.md"))
            meta["evaluated_at"] = time.strftime("%Y-%m-%d %H:%M:%S")
            json.dump(meta, open(os.path.join(dst, "meta.json"), "w"), indent=1, default=repr)
        finally:
            sh(["git", "-C", "/repo", "worktree", "remove", "--force", wt])
            shutil.rmtree(wt, ignore_errors=True)


if __name__ == "__main__":
    main()
