"""Import the repository's *current working tree*.

Nothing is built or cached: every check process prepends VERIF_REPO (default
/repo) to sys.path, so `import architecture_simulator` resolves to the sources
as they are at that moment.  The editable install in /venv points to /repo as
well; VERIF_REPO lets the sensitivity self-test aim the same check at a
mutated scratch copy.
"""
import os
import sys

VERIF_DIR = os.path.dirname(os.path.dirname(os.path.dirname(os.path.abspath(__file__))))


def repo_path() -> str:
    return os.path.abspath(os.environ.get("VERIF_REPO", "/repo"))


_done = False


def activate() -> str:
    """Make `architecture_simulator` importable from the working tree. Idempotent."""
    global _done
    path = repo_path()
    if _done:
        return path
    sys.dont_write_bytecode = True
    # drop any other location that could shadow the working tree
    sys.path[:] = [p for p in sys.path if os.path.abspath(p or ".") != path]
    sys.path.insert(0, path)
    for name in list(sys.modules):
        if name == "architecture_simulator" or name.startswith("architecture_simulator."):
            del sys.modules[name]
    import architecture_simulator  # noqa: F401

    got = os.path.dirname(os.path.dirname(os.path.abspath(architecture_simulator.__file__)))
    if got != path:
        raise RuntimeError(
            f"architecture_simulator imported from {got}, expected working tree {path}"
        )
    _done = True
    return path
