"""Differential check for C08 (hazard detection off == interlock-free pipeline).

Self-contained.  Generates a few hundred random RV32IM programs (fixed
seeds), runs them on the five-stage pipeline with hazard detection DISABLED
and records, cycle by cycle, everything the property talks about:

  * the operands the decode stage latched (addresses and data),
  * the register file, program counter, output, exit code,
  * which instruction sits in which pipeline register,
  * stall / flush signals carried by the pipeline registers and the
    pipeline's stall bookkeeping (a stall may only ever start in EX, i.e. the
    ecall drain, never in decode),
  * the performance counters,
  * the final data memory, and the exception (class + message) if a program
    dies.

In addition every program is nop-padded (two nops behind every instruction)
and the padded program is run in single-cycle mode and in the hazard-free
pipeline; the architectural results must coincide.

Besides switching hazard detection off through the constructor this variant
also switches it off through the public ``detect_data_hazards`` attribute of
the decode stage (before the run, which must give the very same trace, and in
the middle of a run).

The script prints one digest line per block of programs plus a summary.
Running it on the original and on the refactored tree must give identical
output.
"""
import hashlib
import random
import sys

from architecture_simulator.simulation.riscv_simulation import RiscvSimulation
from architecture_simulator.uarch.riscv.pipeline_registers import (
    InstructionDecodePipelineRegister,
)

SEED_BASE = 80200
N_PROGRAMS = 220
MAX_CYCLES = 600
DATA_BASE = 16384  # first data address (2**14)

REGS = [0, 1, 2, 3, 5, 6, 7, 10, 17]  # small pool -> many short dependencies
R_OPS = ["add", "sub", "xor", "or", "and", "sll", "srl", "sra", "slt", "sltu",
         "mul", "mulh", "mulhu", "mulhsu", "div", "divu", "rem", "remu"]
I_OPS = ["addi", "xori", "ori", "andi", "slti", "sltiu"]
SH_OPS = ["slli", "srli", "srai"]
B_OPS = ["beq", "bne", "blt", "bge", "bltu", "bgeu"]
LOADS = ["lw", "lh", "lhu", "lb", "lbu"]
STORES = ["sw", "sh", "sb"]
ECALL_PRINT_CODES = [1, 11, 34, 35, 36]


def gen_program(rng):
    """Returns a list of source lines (instructions and 'label:' lines)."""
    n = rng.randint(6, 28)
    lines = []
    # x8 is the data base pointer, x9 a loop counter; neither is in REGS.
    lines.append("lui x8, 4")  # 4 << 12 == 16384
    lines.append("addi x9, x0, %d" % rng.randint(1, 3))
    if rng.random() < 0.85:  # usually let the base pointer become visible first
        lines.append("addi x0, x0, 0")
        lines.append("addi x0, x0, 0")
    n_labels = 0
    pending_labels = []  # (position_to_emit, name)
    body = []
    for i in range(n):
        k = rng.random()
        rd, rs1, rs2 = rng.choice(REGS), rng.choice(REGS), rng.choice(REGS)
        if k < 0.30:
            body.append("%s x%d, x%d, x%d" % (rng.choice(R_OPS), rd, rs1, rs2))
        elif k < 0.52:
            body.append("%s x%d, x%d, %d" % (rng.choice(I_OPS), rd, rs1, rng.randint(-40, 40)))
        elif k < 0.58:
            body.append("%s x%d, x%d, %d" % (rng.choice(SH_OPS), rd, rs1, rng.randint(0, 31)))
        elif k < 0.63:
            body.append("lui x%d, %d" % (rd, rng.randint(0, 2000)))
        elif k < 0.66:
            body.append("auipc x%d, %d" % (rd, rng.randint(0, 5)))
        elif k < 0.74:
            op = rng.choice(LOADS)
            align = 4 if op == "lw" else 2 if op in ("lh", "lhu") else 1
            body.append("%s x%d, %d(x8)" % (op, rd, align * rng.randint(0, 6)))
        elif k < 0.82:
            op = rng.choice(STORES)
            align = 4 if op == "sw" else 2 if op == "sh" else 1
            body.append("%s x%d, %d(x8)" % (op, rs2, align * rng.randint(0, 6)))
        elif k < 0.90:
            name = "L%d" % n_labels
            n_labels += 1
            body.append("%s x%d, x%d, %s" % (rng.choice(B_OPS), rs1, rs2, name))
            pending_labels.append((len(body) - 1 + rng.randint(1, 5), name))
        elif k < 0.93:
            name = "L%d" % n_labels
            n_labels += 1
            body.append("jal x%d, %s" % (rng.choice([0, 1]), name))
            pending_labels.append((len(body) - 1 + rng.randint(1, 4), name))
        elif k < 0.97:
            # printing ecall; sometimes set a7 far enough ahead, sometimes not
            code = rng.choice(ECALL_PRINT_CODES)
            body.append("addi x17, x0, %d" % code)
            for _ in range(rng.randint(0, 3)):
                body.append("addi x0, x0, 0")
            body.append("ecall")
        else:
            # memory access through a freshly computed (possibly stale) pointer
            body.append("addi x6, x8, %d" % (4 * rng.randint(0, 3)))
            for _ in range(rng.randint(0, 2)):
                body.append("addi x0, x0, 0")
            body.append("lw x%d, 0(x6)" % rd)
    # place forward labels
    out = []
    for idx, ins in enumerate(body):
        for pos, name in pending_labels:
            if pos == idx:
                out.append(name + ":")
        out.append(ins)
    for pos, name in pending_labels:
        if pos >= len(body):
            out.append(name + ":")
    lines.append("loop:")
    lines.extend(out)
    # bounded backward branch (counter decremented right before the branch,
    # so without interlocks the branch sees a stale counter -> still bounded)
    lines.append("addi x9, x9, -1")
    if rng.random() < 0.5:
        lines.append("addi x0, x0, 0")
        lines.append("addi x0, x0, 0")
    lines.append("blt x0, x9, loop")
    tail = rng.random()
    if tail < 0.35:
        lines.append("addi x17, x0, %d" % rng.choice([10, 93, 93]))
        lines.append("addi x10, x0, %d" % rng.randint(0, 9))
        for _ in range(rng.randint(0, 3)):
            lines.append("addi x0, x0, 0")
        lines.append("ecall")
        lines.append("addi x1, x0, 77")  # must never retire
        lines.append("sw x1, 0(x8)")
    elif tail < 0.45:
        lines.append("ecall")  # whatever is in a7 by now; may be invalid
    return lines


def pad(lines):
    out = []
    for l in lines:
        out.append(l)
        if not l.endswith(":"):
            out.append("addi x0, x0, 0")
            out.append("addi x0, x0, 0")
    return out


def init_regs(sim, rng):
    for r in REGS:
        if r:
            sim.state.register_file.registers[r] = __import__("fixedint").UInt32(
                rng.choice([0, 1, 2, 3, 0xFFFFFFFF, 0x80000000, rng.randrange(2**32), rng.randint(0, 50)])
            )


def reg_tuple(sim):
    return tuple(int(x) for x in sim.state.register_file.registers)


def describe_pr(pr):
    return (
        type(pr).__name__,
        repr(pr.instruction),
        pr.address_of_instruction,
        None if pr.stall_signal is None else pr.stall_signal.duration,
        None if pr.flush_signal is None else (pr.flush_signal.inclusive, pr.flush_signal.address),
        pr.is_of_stalled_value,
    )


def run_pipeline_traced(lines, seed, h, stats, how="ctor", toggle_at=None):
    """how == "ctor": hazard detection switched off through the constructor argument.
    how == "attr": simulation built with detection ON, then the public attribute
                   of the decode stage is set to False before the first step.
    toggle_at = n: (only with how == "toggle") detection is ON for the first n
                   cycles and switched off afterwards through the attribute."""
    if how == "ctor":
        sim = RiscvSimulation(mode="five_stage_pipeline", detect_data_hazards=False)
    else:
        sim = RiscvSimulation(mode="five_stage_pipeline", detect_data_hazards=True)
        if how == "attr":
            sim.state.pipeline.stages[1].detect_data_hazards = False
    sim.load_program("\n".join(lines))
    init_regs(sim, random.Random(seed))
    pipe = sim.state.pipeline
    decode_stage = pipe.stages[1]
    cycles = 0
    err = None
    try:
        while not sim.is_done() and cycles < MAX_CYCLES:
            if how == "toggle" and cycles == toggle_at:
                decode_stage.detect_data_hazards = False
            sim.step()
            cycles += 1
            regs = reg_tuple(sim)
            hazards_off = not decode_stage.detect_data_hazards
            prs = pipe.pipeline_registers
            idr = prs[1]
            if isinstance(idr, InstructionDecodePipelineRegister):
                dec = (idr.register_read_addr_1, idr.register_read_addr_2,
                       idr.register_read_data_1, idr.register_read_data_2,
                       idr.imm, idr.write_register)
                # interlock-free read: the decode stage must have latched exactly
                # what the register file holds after this cycle's write-back
                mask2 = {"sb": 0xFF, "sh": 0xFFFF}.get(idr.instruction.mnemonic, 0xFFFFFFFF)
                for a, d, m in ((dec[0], dec[2], 0xFFFFFFFF), (dec[1], dec[3], mask2)):
                    if a is not None:
                        stats["decode_reads"] += 1
                        if d != regs[a] & m:
                            stats["decode_read_mismatch"] += 1
                if idr.stall_signal is not None and hazards_off:
                    stats["decode_stall_signals"] += 1
            else:
                dec = None
            stalled = None if pipe.stalled is None else tuple(pipe.stalled)
            if stalled is not None:
                stats["stalled_cycles"] += 1
                if stalled[0] != 2 and how != "toggle":
                    stats["non_ex_stalls"] += 1
            nsaved = None if pipe.stalled_pipeline_regs is None else tuple(
                describe_pr(p) for p in pipe.stalled_pipeline_regs)
            pm = sim.state.performance_metrics
            rec = (
                cycles, sim.state.program_counter, regs, dec,
                tuple(describe_pr(p) for p in prs), stalled, nsaved,
                sim.state.output, sim.state.exit_code,
                pm.cycles, pm.stalls, pm.flushes, pm.instruction_count,
                pm.branch_count, pm.procedure_count,
            )
            h.update(repr(rec).encode())
    except Exception as e:  # program died (e.g. wild memory access)
        err = (type(e).__name__, repr(e))
        stats["errors"] += 1
    if cycles >= MAX_CYCLES:
        stats["cycle_limit"] += 1
    mem = sorted(sim.state.memory.wordwise_repr().items()) if err is None else None
    final = (err, reg_tuple(sim) if err is None else None, mem,
             sim.state.output, sim.state.exit_code, cycles)
    h.update(repr(final).encode())
    stats["total_cycles"] += cycles
    return final


def run_plain(lines, seed, mode, hazard):
    sim = RiscvSimulation(mode=mode, detect_data_hazards=hazard)
    sim.load_program("\n".join(lines))
    init_regs(sim, random.Random(seed))
    n = 0
    try:
        while not sim.is_done() and n < 4 * MAX_CYCLES:
            sim.step()
            n += 1
    except Exception as e:
        return ("ERR", type(e).__name__, repr(e))
    return (reg_tuple(sim), sorted(sim.state.memory.wordwise_repr().items()),
            sim.state.output, sim.state.exit_code, n >= 4 * MAX_CYCLES)


def main():
    stats = dict(decode_reads=0, decode_read_mismatch=0, decode_stall_signals=0,
                 stalled_cycles=0, non_ex_stalls=0, errors=0, cycle_limit=0,
                 total_cycles=0, padded_equal=0, padded_diff=0, padded_err=0,
                 attr_equals_ctor=0, attr_differs_ctor=0)
    block = hashlib.sha256()
    total = hashlib.sha256()
    for i in range(N_PROGRAMS):
        seed = SEED_BASE + i
        rng = random.Random(seed)
        lines = gen_program(rng)
        h = hashlib.sha256()
        run_pipeline_traced(lines, seed, h, stats)
        # same program, detection switched off through the stage attribute: same trace
        h_attr = hashlib.sha256()
        run_pipeline_traced(lines, seed, h_attr, stats, how="attr")
        stats["attr_equals_ctor" if h_attr.digest() == h.digest() else "attr_differs_ctor"] += 1
        # detection on for the first few cycles, then switched off on the fly
        run_pipeline_traced(lines, seed, h, stats, how="toggle", toggle_at=rng.randint(0, 25))
        # hazard-free clause: nop-padded program, pipeline(no detection) == single-cycle
        p = pad(lines)
        a = run_plain(p, seed, "single_stage_pipeline", True)
        b = run_plain(p, seed, "five_stage_pipeline", False)
        if a[0] == "ERR" or b[0] == "ERR":
            stats["padded_err"] += 1
            same = a == b
        else:
            same = a[:4] == b[:4]
        stats["padded_equal" if same else "padded_diff"] += 1
        h.update(repr((a, b)).encode())
        block.update(h.digest())
        total.update(h.digest())
        if (i + 1) % 50 == 0:
            print("programs %3d-%3d  %s" % (i - 48, i + 1, block.hexdigest()[:32]))
            block = hashlib.sha256()
    print("TOTAL", total.hexdigest())
    for k in sorted(stats):
        print("%-22s %d" % (k, stats[k]))
    ok = (stats["decode_read_mismatch"] == 0 and stats["decode_stall_signals"] == 0
          and stats["non_ex_stalls"] == 0 and stats["padded_diff"] == 0
          and stats["attr_differs_ctor"] == 0)
    print("PROPERTY_OK", ok)
    return 0


if __name__ == "__main__":
    sys.exit(main())
