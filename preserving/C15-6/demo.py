"""Differential check for change 3 (run-time error path: one constructor for the
InstructionExecutionException with chained cause, str() of the exception, a failed pipeline
step is rolled back (program counter, cycle and instruction counters), run() stops its timer).

What the property C15 talks about and what is therefore recorded per program:
  * load outcome (OK / parser error class + line / MEM / ESCAPE) - bit-identical
  * for loaded programs the run outcome:
      - normal end: digest of registers, data memory, output, exit code, pc AND the counters
        (cycles, instructions, stalls, flushes) - a run without failure must not change at all
      - run-time failure: exception type, address, instruction_repr, whether they name the
        instruction stored at that address, what the web front end gets from
        gui.webgui.get_last_error() (kind, message, address), digest of registers/data memory/
        output at the failure, and whether stepping again reports the same failure again.
        NOT recorded: pc and counters after the failure (C15 does not pin down the state after
        an error; that is the freedom the change uses).
Programs are run in single-stage mode and in the five-stage pipeline (with/without hazard
detection, with caches), half of them with run() and half of them step by step.

Prints per-category counts and a SHA-256 over all per-case records.  The output must
be identical with and without the change.  Exit code 0.
"""
import hashlib
import random
import sys
from collections import Counter

from architecture_simulator.isa.parser_exceptions import (
    ParserException,
    MemorySizeException,
)
from architecture_simulator.uarch.memory.memory import MemoryAddressError
from architecture_simulator.simulation.runtime_errors import (
    InstructionExecutionException,
)
from architecture_simulator.simulation.riscv_simulation import RiscvSimulation
from architecture_simulator.simulation.toy_simulation import ToySimulation
from architecture_simulator.uarch.memory.cache import CacheOptions

REGS = ["x0", "x1", "x5", "x6", "x7", "x10", "x17", "x28", "t0", "a0", "a7", "s1", "sp"]
RTYPE = ["add", "sub", "sll", "slt", "sltu", "xor", "srl", "sra", "or", "and", "mul", "div", "remu"]
ITYPE = ["addi", "slti", "sltiu", "xori", "ori", "andi", "slli", "srli", "srai"]
LOADS = ["lb", "lh", "lw", "lbu", "lhu"]
STORES = ["sb", "sh", "sw"]
BTYPE = ["beq", "bne", "blt", "bge", "bltu", "bgeu"]

BAD_LITERALS = [
    "007",
    "-08",
    "0x",
    "0b",
    "0b2",
    "0xG1",
    "9" * 4400,
    "-" + "1" * 5000,
    "١٢٣",  # arabic-indic digits
    "１２",  # full-width digits
    "1_000",
    "+5",
    "1e3",
    "0o17",
    "--4",
]
ODD_BUT_VALID_LITERALS = ["0x" + "F" * 40, "0b" + "1" * 70, "00", "-0", "0x0000001", "4294967296"]


def good_imm(rng):
    r = rng.random()
    if r < 0.6:
        return str(rng.randint(-100, 100))
    if r < 0.8:
        return hex(rng.randint(0, 2047))
    if r < 0.9:
        return bin(rng.randint(0, 255))
    return rng.choice(ODD_BUT_VALID_LITERALS)


def riscv_program(rng, n_faults):
    """Returns (text, n_injected_faults). Grammar-derived program with injected faults."""
    data = []
    variables = []
    if rng.random() < 0.6:
        for i in range(rng.randint(1, 4)):
            name = f"var{i}"
            kind = rng.choice(["byte", "half", "word", "word", "string", "zero"])
            if kind == "string":
                data.append(f'{name}: .string "h{i}llo"')
            elif kind == "zero":
                data.append(f"{name}: .zero {rng.randint(1, 5)}")
            else:
                vals = ", ".join(good_imm(rng) for _ in range(rng.randint(1, 4)))
                data.append(f"{name}: .{kind} {vals}")
            variables.append(name)
    n_instr = rng.randint(1, 12)
    n_labels = rng.randint(0, 3)
    label_pos = sorted(rng.randint(1, n_instr) for _ in range(n_labels))
    labels = [f"L{i}" for i in range(n_labels)]
    text = []
    for i in range(n_instr):
        while label_pos and label_pos[0] == i:
            label_pos.pop(0)
            lab = labels[n_labels - len(label_pos) - 1]
            if rng.random() < 0.5:
                text.append(f"{lab}:")
            else:
                text.append(f"{lab}: addi x0, x0, 0")
        later = [
            labels[n_labels - len(label_pos) + k] for k in range(len(label_pos))
        ]
        r = rng.random()
        rd, rs1, rs2 = rng.choice(REGS), rng.choice(REGS), rng.choice(REGS)
        if r < 0.2:
            text.append(f"{rng.choice(RTYPE)} {rd}, {rs1}, {rs2}")
        elif r < 0.4:
            text.append(f"{rng.choice(ITYPE)} {rd}, {rs1}, {rng.randint(0, 31)}")
        elif r < 0.48:
            text.append(f"li {rd}, {good_imm(rng)}")
        elif r < 0.55 and variables:
            v = rng.choice(variables)
            idx = f"[{rng.randint(0, 3)}]" if rng.random() < 0.4 else ""
            form = rng.random()
            if form < 0.4:
                text.append(f"la {rd}, {v}{idx}")
            elif form < 0.7:
                text.append(f"{rng.choice(LOADS)} {rd}, {v}{idx}")
            else:
                text.append(f"{rng.choice(STORES)} {rd}, {v}{idx}, x28")
        elif r < 0.63:
            # mostly faulting at run time (addresses below the data memory)
            text.append(f"{rng.choice(LOADS + STORES)} {rd}, {rng.randint(-8, 64)}({rs1})")
        elif r < 0.72 and later:
            text.append(f"{rng.choice(BTYPE)} {rs1}, {rs2}, {rng.choice(later)}")
        elif r < 0.76 and later:
            text.append(f"jal {rng.choice(['x0', 'x1'])}, {rng.choice(later)}")
        elif r < 0.80:
            text.append(f"{rng.choice(['lui', 'auipc'])} {rd}, {rng.randint(0, 1000)}")
        elif r < 0.84:
            text.append(rng.choice(["ecall", "nop", "ebreak", f"fence {rd}, {rs1}"]))
        elif r < 0.88:
            text.append(f"mv {rd}, {rs1}")
        elif r < 0.92:
            text.append(
                f"{rng.choice(['csrrw', 'csrrs', 'csrrc'])} {rd}, {rng.choice(['0x000', '0x300', '0xC00', '4095'])}, {rs1}"
            )
        elif r < 0.95:
            text.append(
                f"{rng.choice(['csrrwi', 'csrrsi', 'csrrci'])} {rd}, {rng.choice(['0x000', '0x300'])}, {rng.randint(0, 31)}"
            )
        else:
            text.append(f"{rng.choice(BTYPE)} {rs1}, {rs2}, {2 * rng.randint(1, 4)}")
    for lab in labels[n_labels - len(label_pos):]:
        text.append(f"{lab}:")
    if rng.random() < 0.3:
        text.append("# a comment line")
    if rng.random() < 0.3:
        text.insert(rng.randint(0, len(text)), "")

    # assemble with segments
    layout = rng.random()
    if data:
        if layout < 0.5:
            lines = [".data"] + data + [".text"] + text
        else:
            lines = [".text"] + text + [".data"] + data
    else:
        lines = ([".text"] if layout < 0.3 else []) + text

    injected = 0
    for _ in range(n_faults):
        injected += inject_riscv_fault(rng, lines, variables, labels)
    if rng.random() < 0.3:
        lines = ["   " + l + "   # c" if l and not l.startswith("#") else l for l in lines]
    return "\n".join(lines), injected


def _instr_indices(lines):
    return [
        i
        for i, l in enumerate(lines)
        if l and not l.startswith((".", "#")) and not l.rstrip().endswith(":") and ": ." not in l
    ]


def inject_riscv_fault(rng, lines, variables, labels):
    kind = rng.choice(
        [
            "bad_literal_instr",
            "bad_literal_instr",
            "bad_literal_data",
            "bad_literal_li",
            "unknown_label",
            "unknown_variable",
            "unknown_directive",
            "dup_segment",
            "misplaced_decl",
            "misplaced_instr",
            "dup_label",
            "dup_variable",
            "odd_branch",
            "bad_mnemonic",
            "bad_register",
            "missing_operand",
            "bad_index",
            "bad_zero",
        ]
    )
    pos = rng.randint(0, len(lines))
    instr = _instr_indices(lines)
    lit = rng.choice(BAD_LITERALS)
    if kind == "bad_literal_instr":
        line = rng.choice(
            [
                f"addi x5, x6, {lit}",
                f"lw x5, {lit}(x6)",
                f"sw x5, {lit}(x6)",
                f"lui x5, {lit}",
                f"beq x5, x6, {lit}",
                f"jal x1, {lit}",
                f"csrrw x5, {lit}, x6",
                f"csrrwi x5, 0x300, {lit}",
                f"jalr x1, x5, {lit}",
            ]
        )
        if instr:
            lines.insert(rng.choice(instr), line)
        else:
            lines.append(line)
    elif kind == "bad_literal_li":
        line = f"li x5, {lit}"
        if instr:
            lines.insert(rng.choice(instr), line)
        else:
            lines.append(line)
    elif kind == "bad_literal_data":
        decl = f"bad{rng.randint(0, 99)}: .{rng.choice(['byte', 'half', 'word'])} 1, {lit}, 3"
        if ".data" in lines:
            lines.insert(lines.index(".data") + 1, decl)
        else:
            lines[0:0] = [".data", decl, ".text"]
    elif kind == "unknown_label":
        line = rng.choice(["beq x0, x0, nolabel", "jal x1, nolabel", "bne x5, x6, nolabel+0x10"])
        if instr:
            lines.insert(rng.choice(instr), line)
        else:
            lines.append(line)
    elif kind == "unknown_variable":
        line = rng.choice(["lw x5, novar", "la x5, novar[2]", "sw x5, novar, x6"])
        if instr:
            lines.insert(rng.choice(instr), line)
        else:
            lines.append(line)
    elif kind == "unknown_directive":
        lines.insert(pos, rng.choice([".bss", ".word 5", ".globl main", ".Data", ". text"]))
    elif kind == "dup_segment":
        lines.insert(pos, rng.choice([".data", ".text"]))
    elif kind == "misplaced_decl":
        line = "mis: .word 1, 2"
        if instr:
            lines.insert(rng.choice(instr), line)
        else:
            lines.append(line)
    elif kind == "misplaced_instr":
        if ".data" in lines:
            lines.insert(lines.index(".data") + 1, "addi x1, x1, 1")
        else:
            lines[0:0] = [".data", "addi x1, x1, 1", ".text"]
    elif kind == "dup_label":
        lab = rng.choice(labels) if labels else "Ldup"
        lines.append(f"{lab}:")
        lines.append(f"{lab}: add x0, x0, x0")
    elif kind == "dup_variable":
        v = rng.choice(variables) if variables else "vdup"
        decls = [f"{v}: .word 1", f"{v}: .byte 2"]
        if ".data" in lines:
            i = lines.index(".data") + 1
            lines[i:i] = decls
        else:
            lines[0:0] = [".data"] + decls + [".text"]
    elif kind == "odd_branch":
        line = rng.choice(["beq x0, x0, 3", "jal x1, -7", "bne x5, x6, 0x11"])
        if instr:
            lines.insert(rng.choice(instr), line)
        else:
            lines.append(line)
    elif kind == "bad_mnemonic":
        lines.insert(pos, rng.choice(["subi x1, x0, 15", "addd x1, x2, x3", "lw", "42", "x1, x2"]))
    elif kind == "bad_register":
        lines.insert(pos, rng.choice(["add x32, x0, x0", "addi q1, x0, 1", "lw x5, 0(x99)"]))
    elif kind == "missing_operand":
        lines.insert(pos, rng.choice(["add x1, x2", "addi x1, x2,", "lw x5, (x6)", "beq x1, , L0", "jal x1"]))
    elif kind == "bad_index":
        v = rng.choice(variables) if variables else "novar"
        line = rng.choice([f"lw x5, {v}[-1]", f"lw x5, {v}[0x1]", f"la x5, {v}[{'7' * 4500}]", f"lw x5, {v}[]"])
        if instr:
            lines.insert(rng.choice(instr), line)
        else:
            lines.append(line)
    elif kind == "bad_zero":
        decl = rng.choice([f"z: .zero {'8' * 4400}", "z: .zero -1", "z: .zero 0x10", "z: .zero"])
        if ".data" in lines:
            lines.insert(lines.index(".data") + 1, decl)
        else:
            lines[0:0] = [".data", decl, ".text"]
    return 1


TOY_ADDR = ["STO", "LDA", "BRZ", "ADD", "SUB", "OR", "AND", "XOR"]
TOY_NOADDR = ["NOT", "INC", "DEC", "ZRO", "NOP"]
TOY_BAD_LITERALS = [
    "0x",
    "9" * 4400,
    "-1",
    "0b101",
    "١٢",
    "１",
    "1_0",
    "0xZZ",
    "+3",
    "12abc",
]
TOY_ODD_VALID = ["007", "0x" + "F" * 40, "0x0001", "99999", "4096", "0"]


def toy_program(rng, n_faults):
    data = []
    variables = []
    if rng.random() < 0.6:
        for i in range(rng.randint(1, 3)):
            name = f"var{i}"
            vals = ", ".join(
                rng.choice([str(rng.randint(0, 500)), hex(rng.randint(0, 4095)), rng.choice(TOY_ODD_VALID)])
                for _ in range(rng.randint(1, 3))
            )
            data.append(f"{name}: .word {vals}")
            variables.append(name)
    n_instr = rng.randint(1, 10)
    labels = []
    text = []
    for i in range(n_instr):
        if rng.random() < 0.2:
            lab = f"L{len(labels)}"
            labels.append(lab)
            text.append(f"{lab}:" if rng.random() < 0.5 else f"{lab}: NOP")
        r = rng.random()
        if r < 0.5:
            m = rng.choice(TOY_ADDR)
            if m == "BRZ":
                target = rng.choice(labels + ["Lend"]) if rng.random() < 0.7 else str(rng.randint(0, 20))
            elif variables and rng.random() < 0.5:
                target = rng.choice(variables)
            else:
                target = rng.choice([str(rng.randint(0, 4095)), hex(rng.randint(0, 4095)), rng.choice(TOY_ODD_VALID)])
            text.append(f"{m if rng.random() < 0.8 else m.lower()} {target}")
        else:
            text.append(rng.choice(TOY_NOADDR))
    text.append("Lend:")
    if rng.random() < 0.4:
        text.append("# done")
    layout = rng.random()
    if data:
        lines = ([".data"] + data + [".text"] + text) if layout < 0.5 else ([".text"] + text + [".data"] + data)
    else:
        lines = ([".text"] if layout < 0.3 else []) + text
    injected = 0
    for _ in range(n_faults):
        injected += inject_toy_fault(rng, lines, variables, labels)
    return "\n".join(lines), injected


def inject_toy_fault(rng, lines, variables, labels):
    kind = rng.choice(
        [
            "bad_literal_instr",
            "bad_literal_instr",
            "bad_literal_data",
            "unknown_label",
            "unknown_directive",
            "dup_segment",
            "misplaced_decl",
            "misplaced_instr",
            "dup_label",
            "dup_variable",
            "bad_mnemonic",
            "missing_operand",
        ]
    )
    pos = rng.randint(0, len(lines))
    instr = _instr_indices(lines)
    lit = rng.choice(TOY_BAD_LITERALS)

    def put(line):
        if instr:
            lines.insert(rng.choice(instr), line)
        else:
            lines.append(line)

    if kind == "bad_literal_instr":
        put(f"{rng.choice(TOY_ADDR)} {lit}")
    elif kind == "bad_literal_data":
        decl = f"bad{rng.randint(0, 99)}: .word 1, {lit}"
        if ".data" in lines:
            lines.insert(lines.index(".data") + 1, decl)
        else:
            lines[0:0] = [".data", decl, ".text"]
    elif kind == "unknown_label":
        put(rng.choice(["BRZ nolabel", "LDA novar", "ADD _x"]))
    elif kind == "unknown_directive":
        lines.insert(pos, rng.choice([".bss", ".word 5", ".half 1", ".TEXT"]))
    elif kind == "dup_segment":
        lines.insert(pos, rng.choice([".data", ".text"]))
    elif kind == "misplaced_decl":
        put("mis: .word 1, 2")
    elif kind == "misplaced_instr":
        if ".data" in lines:
            lines.insert(lines.index(".data") + 1, "INC")
        else:
            lines[0:0] = [".data", "INC", ".text"]
    elif kind == "dup_label":
        lab = rng.choice(labels) if labels else "Ldup"
        lines.append(f"{lab}:")
        lines.append(f"{lab}: INC")
    elif kind == "dup_variable":
        v = rng.choice(variables) if variables else "vdup"
        decls = [f"{v}: .word 1", f"{v}: .word 2"]
        if ".data" in lines:
            i = lines.index(".data") + 1
            lines[i:i] = decls
        else:
            lines[0:0] = [".data"] + decls + [".text"]
    elif kind == "bad_mnemonic":
        lines.insert(pos, rng.choice(["MUL 5", "INC 4", "NOPE", "17", "LDA 1 2"]))
    elif kind == "missing_operand":
        lines.insert(pos, rng.choice(["ADD", "STO ,", "BRZ :", "x: .word"]))
    return 1


SOUP_TOKENS = [
    "addi", "lw", "sw", "beq", "jal", "li", "la", "ecall", "x1", "x5", "x31", "x32", "sp", "a0",
    ",", ",", "(", ")", "[", "]", ":", ".", ".data", ".text", ".word", ".byte", ".zero", ".string",
    '"s"', "#", "0", "7", "007", "0x", "0x1F", "0b", "-", "-4", "+0x4", "L0", "L0:", "var0",
    "٣", "５", "9" * 30, "\t", "", "STO", "LDA", "BRZ", "INC", "NOP", "ä", "\\", "'", "@",
]


def token_soup(rng):
    lines = []
    for _ in range(rng.randint(1, 8)):
        lines.append(rng.choice(["", " ", ", "]).join(rng.choice(SOUP_TOKENS) for _ in range(rng.randint(1, 7))))
    return rng.choice(["\n", "\n", "\r\n", "\n\n"]).join(lines)


RISCV_CONFIGS = [
    dict(mode="single_stage_pipeline"),
    dict(mode="five_stage_pipeline", detect_data_hazards=True),
    dict(mode="five_stage_pipeline", detect_data_hazards=False),
    dict(
        mode="five_stage_pipeline",
        data_cache=CacheOptions(True, 2, 2, 2, "wb", "lru", 3),
        instruction_cache=CacheOptions(True, 1, 2, 1, "wt", "lru", 2),
    ),
    dict(mode="single_stage_pipeline", data_cache=CacheOptions(True, 1, 1, 2, "wt", "plru", 0)),
]


import architecture_simulator.gui.webgui as webgui


def data_digest(sim):
    regs = [int(r) for r in sim.state.register_file.registers]
    mem = sim.get_data_memory_entries()
    return hashlib.sha256(repr((regs, mem, sim.state.output, sim.state.exit_code)).encode()).hexdigest()[:12]


def describe_failure(sim, e):
    if not isinstance(e, InstructionExecutionException):
        return f"RUN-ESCAPE {type(e).__name__}"
    instrs = dict(sim.state.instruction_memory.get_representation())
    known = e.address in instrs and instrs[e.address] == str(e.instruction_repr)
    sys.last_value = e
    gui = webgui.get_last_error()
    gui_ok = gui[0] == "InstructionExecutionException" and gui[2] == e.address
    msg = hashlib.sha256(gui[1].encode()).hexdigest()[:8]
    return (
        f"RUNERR {type(e).__name__} addr={e.address} instr={e.instruction_repr} names-loaded-instr={known} "
        f"gui={gui[0]}/{gui_ok}/msg:{msg} error_message={e.error_message!r}"
    )


def run_riscv(sim, use_run, max_steps=600):
    try:
        if use_run:
            # run() has no step limit; the generated programs terminate (bounded loops), but be safe
            steps = 0
            while not sim.is_done() and steps < max_steps:
                steps += 1
                sim.step()
            if not sim.is_done():
                return "RAN not-done " + data_digest(sim)
            sim.run()  # no-op when done
        else:
            steps = 0
            while not sim.is_done() and steps < max_steps:
                sim.step()
                steps += 1
    except Exception as e:
        first = describe_failure(sim, e)
        state = data_digest(sim)
        try:
            sim.step()
            again = "no-failure"
        except Exception as e2:
            again = "same" if describe_failure(sim, e2) == first else "different: " + describe_failure(sim, e2)
        return f"{first} state={state} again={again}"
    m = sim.state.performance_metrics
    return (
        f"RAN done={sim.is_done()} state={data_digest(sim)} pc={sim.state.program_counter} "
        f"cycles={m.cycles} instrs={m.instruction_count} stalls={m.stalls} flushes={m.flushes} branches={m.branch_count}"
    )


def run_riscv_with_run(sim):
    """uses run() directly (only for programs known to terminate)"""
    try:
        sim.run()
    except Exception as e:
        return describe_failure(sim, e) + " state=" + data_digest(sim)
    m = sim.state.performance_metrics
    return f"RAN done={sim.is_done()} state={data_digest(sim)} pc={sim.state.program_counter} cycles={m.cycles} instrs={m.instruction_count}"


FAULTS = [
    ["lw x5, 0(x0)"],
    ["sw x6, 8(x0)"],
    ["lb x5, -4(x0)"],
    ["sh x7, 16380(x0)"],
    ["lhu x5, 100(x1)"],
    ["li a7, 5", "ecall"],
    ["li a7, 0", "ecall"],
    ["li a7, 4", "li a0, 12", "ecall"],
    ["ebreak"],
    ["fence x1, x2"],
    ["csrrw x5, 0xC00, x6"],
    ["csrrs x5, 0x300, x6"],
    ["csrrwi x5, 0xF11, 3"],
    ["csrrw x5, 4095, x6"],
    ["la x6, v", "lw x5, 3(x6)"],
    ["la x6, v", "sw x5, 2(x6)"],
    ["la x6, v", "sh x5, 3(x6)"],
    ["la x6, w", "lw x5, 0(x6)", "lw x7, 0(x5)"],  # load-use hazard, then a failing load
    ["la x6, w", "lw x5, 0(x6)", "sw x7, 4(x5)"],
    ["jalr x1, x0, 2000", "lw x5, 0(x0)"],  # jump to nowhere
]


def runtime_program(rng):
    """A terminating program with (mostly) exactly one failing instruction somewhere."""
    lines = [".data", "v: .word 1, 2, 3, 4", "w: .word 12, 0x10", 's: .string "ok"', ".text"]
    n = rng.randint(2, 10)
    fault_at = rng.randint(0, n) if rng.random() < 0.85 else -1
    wrong_path = rng.random() < 0.2
    lines.append(f"li x28, {rng.randint(1, 3)}")  # loop counter
    lines.append("loop:")
    for i in range(n + 1):
        if i == fault_at:
            f = rng.choice(FAULTS)
            if wrong_path:
                lines.append(rng.choice(["beq x0, x0, skip", "jal x0, skip", "bge x28, x0, skip"]))
                lines.extend(f)
                lines.append("skip:")
            else:
                lines.extend(f)
        r = rng.random()
        rd, rs1, rs2 = rng.choice(REGS[1:10]), rng.choice(REGS), rng.choice(REGS)
        if rd in ("x28", "x17", "a7"):
            rd = "x7"
        if r < 0.3:
            lines.append(f"{rng.choice(RTYPE)} {rd}, {rs1}, {rs2}")
        elif r < 0.55:
            lines.append(f"{rng.choice(ITYPE)} {rd}, {rs1}, {rng.randint(0, 31)}")
        elif r < 0.7:
            lines.append(f"{rng.choice(['lw', 'lb', 'lhu'])} {rd}, v[{rng.randint(0, 3)}]")
        elif r < 0.8:
            lines.append(f"sw {rs1}, w[{rng.randint(0, 1)}], x6")
        elif r < 0.9:
            lines.append(f"li {rd}, {rng.randint(-5000, 5000)}")
        else:
            lines.extend(["li a7, 1", "ecall"])
    lines.append("addi x28, x28, -1")
    lines.append("bne x28, x0, loop")
    if rng.random() < 0.5:
        lines.extend(["li a7, 93", "li a0, 3", "ecall", "addi x5, x5, 1"])
    return "\n".join(lines)


def main():
    records = []
    cats = Counter()

    def record(tag, rec):
        cats[(tag, rec.split()[0] + ("/" + rec.split()[1] if rec.startswith("OK") else ""))] += 1
        records.append(f"{tag} {rec}")

    def load(sim, text, exact=True):
        n_lines = len(text.splitlines())
        try:
            sim.load_program(text)
        except ParserException as e:
            valid = isinstance(e.line_number, int) and 1 <= e.line_number <= n_lines
            return f"PARSER {type(e).__name__} line={e.line_number} valid={valid}"
        except (MemorySizeException, MemoryAddressError) as e:
            return f"MEM {type(e).__name__}"
        except Exception as e:
            return f"ESCAPE {type(e).__name__}"
        return None

    # 1. dedicated run-time programs, each in every configuration
    rng = random.Random(35_001)
    for i in range(120):
        text = runtime_program(rng)
        for c, cfg in enumerate(RISCV_CONFIGS):
            sim = RiscvSimulation(**cfg)
            failed = load(sim, text)
            if failed:
                record(f"rt/cfg{c}", failed)
            elif (i + c) % 2:
                record(f"rt/cfg{c}", "OK " + run_riscv(sim, use_run=False))
            else:
                record(f"rt/cfg{c}", "OK " + run_riscv_with_run(sim))
    # 2. the grammar-derived programs (with and without injected faults)
    rng = random.Random(35_002)
    for i in range(200):
        text, injected = riscv_program(rng, rng.choice([0, 0, 0, 1, 2]))
        cfg = RISCV_CONFIGS[i % len(RISCV_CONFIGS)]
        sim = RiscvSimulation(**cfg)
        failed = load(sim, text)
        record(f"riscv/f{min(injected, 2)}", failed or "OK " + run_riscv(sim, use_run=bool(i % 2)))
    # 3. TOY (has no run-time failures; loads and runs must be unaffected)
    rng = random.Random(35_003)
    for i in range(120):
        text, injected = toy_program(rng, rng.choice([0, 0, 1, 2]))
        sim = ToySimulation()
        failed = load(sim, text)
        if failed:
            record(f"toy/f{min(injected, 2)}", failed)
            continue
        try:
            steps = 0
            while not sim.is_done() and steps < 300:
                sim.step()
                steps += 1
            m = sim.state.performance_metrics
            h = hashlib.sha256(repr((int(sim.state.accu), int(sim.state.program_counter), sorted((a, int(v)) for a, v in sim.state.memory.memory_file.items()))).encode()).hexdigest()[:12]
            record(f"toy/f{min(injected, 2)}", f"OK RAN done={sim.is_done()} state={h} cycles={m.cycles} instrs={m.instruction_count}")
        except Exception as e:
            record(f"toy/f{min(injected, 2)}", f"OK RUN-ESCAPE {type(e).__name__}")

    for key in sorted(cats):
        print(f"{key[0]:12s} {key[1]:12s} {cats[key]}")
    escapes = [r for r in records if "ESCAPE" in r or "valid=False" in r or "names-loaded-instr=False" in r or "/False/" in r or "again=different" in r or "again=no-failure" in r]
    print("violations of C15 seen:", len(escapes))
    for r in escapes[:10]:
        print("   ", r[:300])
    fails = Counter(r.split("error_message=")[1].split("(")[0].split(":")[0][:40] for r in records if "error_message=" in r)
    print("kinds of run-time failures:", dict(sorted(fails.items())))
    print("cases:", len(records))
    print("digest:", hashlib.sha256("\n".join(records).encode()).hexdigest())
    return 0


if __name__ == "__main__":
    sys.exit(main())
