"""Program IR for pipesim.

Instructions are JSON lists with *symbolic* branch/jump targets (instruction
indices), so deleting or inserting an instruction keeps every target meaningful:

  ["ADD", rd, rs1, rs2]           all 18 R-type mnemonics incl. M
  ["ADDI", rd, rs1, imm]          9 I-type ALU/shift mnemonics
  ["LW", rd, rs1, imm]            LB LH LW LBU LHU
  ["SW", rs2, rs1, imm]           SB SH SW          (data register, base register, offset)
  ["BEQ", rs1, rs2, target]       6 branches        target = instruction index (may lie outside the program)
  ["JAL", rd, target]
  ["JALR", rd, rs1, imm]
  ["LUI", rd, imm] / ["AUIPC", rd, imm]
  ["ECALL"]
  ["NOP"]                         addi x0, x0, 0

The assembler is deliberately stubbed: programs are built as instruction objects
and placed with instruction_memory.write_instructions(), the parser's last step.
"""

R3 = ["ADD", "SUB", "SLL", "SLT", "SLTU", "XOR", "SRL", "SRA", "OR", "AND",
      "MUL", "MULH", "MULHU", "MULHSU", "DIV", "DIVU", "REM", "REMU"]
IT = ["ADDI", "SLTI", "SLTIU", "XORI", "ORI", "ANDI"]
SHI = ["SLLI", "SRLI", "SRAI"]
LD = ["LB", "LH", "LW", "LBU", "LHU"]
ST = ["SB", "SH", "SW"]
BR = ["BEQ", "BNE", "BLT", "BGE", "BLTU", "BGEU"]
WIDTH = {"LB": 1, "LBU": 1, "LH": 2, "LHU": 2, "LW": 4, "SB": 1, "SH": 2, "SW": 4}

_R3, _IT, _SHI, _LD, _ST, _BR = map(set, (R3, IT, SHI, LD, ST, BR))


def klass(ins):
    """Coarse class used for pipeline-state signatures and probes."""
    op = ins[0]
    if op in _R3 or op in _IT or op in _SHI or op == "NOP":
        return "alu"
    if op in _LD:
        return "load"
    if op in _ST:
        return "store"
    if op in _BR:
        return "branch"
    if op == "JAL":
        return "jal"
    if op == "JALR":
        return "jalr"
    if op == "ECALL":
        return "ecall"
    return "upper"


def srcs(ins):
    """Source registers as the documented pipeline sees them (independent of the
    repository's access_register_file)."""
    op = ins[0]
    if op in _R3:
        return {ins[2], ins[3]}
    if op in _IT or op in _SHI or op in _LD or op == "JALR":
        return {ins[2]}
    if op in _ST:
        return {ins[1], ins[2]}
    if op in _BR:
        return {ins[1], ins[2]}
    return set()


def dst(ins):
    op = ins[0]
    if op in _R3 or op in _IT or op in _SHI or op in _LD or op in ("JAL", "JALR", "LUI", "AUIPC"):
        return ins[1] if ins[1] != 0 else None
    return None


def build(prog):
    """IR -> list of repository instruction objects."""
    from architecture_simulator.isa.riscv import rv32i_instructions as I

    out = []
    for i, ins in enumerate(prog):
        op = ins[0]
        if op in _R3:
            out.append(getattr(I, op)(rd=ins[1], rs1=ins[2], rs2=ins[3]))
        elif op in _IT or op in _SHI or op in _LD or op == "JALR":
            out.append(getattr(I, op)(rd=ins[1], rs1=ins[2], imm=ins[3]))
        elif op in _ST:
            out.append(getattr(I, op)(rs1=ins[2], rs2=ins[1], imm=ins[3]))
        elif op in _BR:
            out.append(getattr(I, op)(rs1=ins[1], rs2=ins[2], imm=(ins[3] - i) * 4))
        elif op == "JAL":
            out.append(I.JAL(rd=ins[1], imm=(ins[2] - i) * 4, abs_addr=ins[2] * 4))
        elif op in ("LUI", "AUIPC"):
            out.append(getattr(I, op)(rd=ins[1], imm=ins[2]))
        elif op == "ECALL":
            out.append(I.ECALL())
        elif op == "NOP":
            out.append(I.ADDI(rd=0, rs1=0, imm=0))
        else:
            raise ValueError(f"unknown IR op {op!r}")
    return out


def fmt(ins, i=None):
    op = ins[0].lower()
    a = ins[1:]
    if ins[0] in _R3:
        s = f"{op} x{a[0]}, x{a[1]}, x{a[2]}"
    elif ins[0] in _IT or ins[0] in _SHI:
        s = f"{op} x{a[0]}, x{a[1]}, {a[2]}"
    elif ins[0] in _LD:
        s = f"{op} x{a[0]}, {a[2]}(x{a[1]})"
    elif ins[0] in _ST:
        s = f"{op} x{a[0]}, {a[2]}(x{a[1]})"
    elif ins[0] in _BR:
        s = f"{op} x{a[0]}, x{a[1]}, @{a[2]}"
    elif ins[0] == "JAL":
        s = f"jal x{a[0]}, @{a[1]}"
    elif ins[0] == "JALR":
        s = f"jalr x{a[0]}, x{a[1]}, {a[2]}"
    elif ins[0] in ("LUI", "AUIPC"):
        s = f"{op} x{a[0]}, {a[1]}"
    else:
        s = op
    return s if i is None else f"{i:2d} [{4 * i:3d}] {s}"


def retarget_after_delete(prog, keep):
    """Delete all instructions whose index is not in `keep` (sorted list) and retarget
    every symbolic target to the next surviving instruction."""
    n = len(prog)
    new_index = {}
    j = 0
    keepset = set(keep)
    nxt = [0] * (n + 1)
    # nxt[i] = new index of the first surviving instruction at or after i
    count_before = 0
    pos = {}
    for i in range(n):
        if i in keepset:
            pos[i] = count_before
            count_before += 1
    total = count_before
    run = total
    for i in range(n, -1, -1):
        if i < n and i in keepset:
            run = pos[i]
        nxt[i] = run
    out = []
    for i in keep:
        ins = list(prog[i])
        if ins[0] in _BR:
            t = ins[3]
            ins[3] = nxt[t] if 0 <= t <= n else (t - n + total if t > n else t)
        elif ins[0] == "JAL":
            t = ins[2]
            ins[2] = nxt[t] if 0 <= t <= n else (t - n + total if t > n else t)
        out.append(ins)
    return out


def pad_with_nops(prog, k=2):
    """Insert k NOPs behind every instruction; symbolic targets make this exact."""
    out = []
    n = len(prog)
    for ins in prog:
        ins = list(ins)
        if ins[0] in _BR:
            t = ins[3]
            ins[3] = t * (k + 1) if 0 <= t <= n else (n * (k + 1) + (t - n) if t > n else t)
        elif ins[0] == "JAL":
            t = ins[2]
            ins[2] = t * (k + 1) if 0 <= t <= n else (n * (k + 1) + (t - n) if t > n else t)
        out.append(ins)
        out += [["NOP"] for _ in range(k)]
    return out
