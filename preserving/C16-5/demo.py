"""Differential purity check for property C16 (inspection is pure).

For a few hundred seeded random cases (RISC-V single-stage and five-stage with
random data/instruction cache configurations, and TOY) the same program is run
several times:

  U  - no inspection at all between steps, full observation only at the end
  F  - full observation (every inspection function) before the first and after
       every step; this is the reference trace
  R  - a random multiset of inspection functions after every step (results are
       compared with the matching component of F's trace), full observation at
       the end
  P  - uninspected up to a random step k, full observation after every later
       step (must equal F's trace from k on)

A case is "pure" when all of these agree.  The script prints, per case, the
configuration, the number of steps, a digest of the complete reference trace
and the verdict, and finally a digest over everything.  The output only depends
on the observable results the property talks about, so it must be identical
before and after a behaviour-preserving change.
"""
import hashlib
import random
import sys

from architecture_simulator.simulation.riscv_simulation import RiscvSimulation
from architecture_simulator.simulation.toy_simulation import ToySimulation
from architecture_simulator.uarch.memory.cache import CacheOptions

# --- knobs that the change-specific demos override ---------------------------
N_RISCV = 260
N_TOY = 60
MAX_STEPS = 160
# True: the observation made after a failing step is part of the printed digest.
# False: only the purity verdict of post-error observations is printed.
DIGEST_POST_ERROR = True
POST_ERROR_STEPS = 2
STATS_KEYS = ("hits", "accesses", "last_hit", "address")


# --- canonical forms of inspection results -----------------------------------
def canon_cache(rep):
    if rep is None:
        return None
    return tuple(
        (
            s.index,
            repr(list(s.replacement_status)),
            tuple(
                (
                    b.valid_bit,
                    b.dirty_bit,
                    b.tag,
                    tuple(tuple(av) for av in b.address_value_list),
                )
                for b in s.blocks
            ),
        )
        for s in rep.sets
    )


def canon_stats(stats):
    if stats is None:
        return None
    return tuple((k, stats[k]) for k in STATS_KEYS)


def canon_perf(text):
    return tuple(
        line
        for line in text.split("\n")
        if not line.startswith("execution time")
        and not line.startswith("instructions per second")
    )


def riscv_inspectors(sim):
    svg = (
        sim.get_riscv_five_stage_svg_update_values
        if sim.mode == "five_stage_pipeline"
        else sim.get_riscv_single_stage_svg_update_values
    )
    pm = sim.get_performance_metrics
    return {
        "regs": lambda: tuple(sim.get_register_entries()),
        "dmem": lambda: tuple(sim.get_data_memory_entries()),
        "imem": lambda: tuple(sim.get_instruction_memory_entries()),
        "dcache": lambda: canon_cache(sim.get_data_cache_entries()),
        "dstats": lambda: canon_stats(sim.get_data_cache_stats()),
        "icache": lambda: canon_cache(sim.get_instruction_cache_entries()),
        "istats": lambda: canon_stats(sim.get_instruction_cache_stats()),
        "svg": lambda: repr(svg()),
        "perf": lambda: canon_perf(sim.get_performance_metrics_str()),
        "counters": lambda: (
            pm().instruction_count,
            pm().cycles,
            pm().branch_count,
            pm().procedure_count,
            pm().flushes,
            pm().stalls,
        ),
        "output": lambda: sim.get_output(),
        "exit": lambda: sim.get_exit_code(),
        "done": lambda: sim.is_done(),
        "hasinstr": lambda: sim.has_instructions(),
    }


def toy_inspectors(sim):
    pm = sim.get_performance_metrics
    return {
        "regs": lambda: tuple(sorted(sim.get_register_representations().items())),
        "mem": lambda: tuple(sim.get_memory_table_entries()),
        "svg": lambda: repr(sim.get_toy_svg_update_values()),
        "perf": lambda: canon_perf(sim.get_performance_metrics_str()),
        "counters": lambda: (pm().instruction_count, pm().cycles, pm().branch_count),
        "done": lambda: sim.is_done(),
        "hasinstr": lambda: sim.has_instructions(),
        "cycle": lambda: sim.next_cycle,
    }


def observe(inspectors):
    return {name: fn() for name, fn in inspectors.items()}


# --- random inputs ------------------------------------------------------------
DESTS = ["t0", "t1", "t2", "a1", "a2", "a3", "a4", "a5", "t4", "t5", "t6"]
SRCS = DESTS + ["zero", "a0", "s0", "t3"]
RTYPE = [
    "add", "sub", "and", "or", "xor", "sll", "srl", "sra", "slt", "sltu",
    "mul", "mulh", "div", "rem", "divu", "remu",
]
ITYPE = ["addi", "andi", "ori", "xori", "slti", "sltiu"]
SHIFTI = ["slli", "srli", "srai"]
LOADS = [("lw", 4), ("lh", 2), ("lhu", 2), ("lb", 1), ("lbu", 1)]
STORES = [("sw", 4), ("sh", 2), ("sb", 1)]
BRANCHES = ["beq", "bne", "blt", "bge", "bltu", "bgeu"]


def mem_offset(rng, width):
    small = rng.randrange(0, 32 // width) * width
    return 128 * rng.randrange(0, 8) + small


def gen_block(rng, n, labels):
    lines = []
    for _ in range(n):
        r = rng.random()
        if r < 0.22:
            lines.append(
                f"{rng.choice(RTYPE)} {rng.choice(DESTS + ['zero'])}, {rng.choice(SRCS)}, {rng.choice(SRCS)}"
            )
        elif r < 0.36:
            lines.append(
                f"{rng.choice(ITYPE)} {rng.choice(DESTS)}, {rng.choice(SRCS)}, {rng.randrange(-2048, 2048)}"
            )
        elif r < 0.42:
            lines.append(
                f"{rng.choice(SHIFTI)} {rng.choice(DESTS)}, {rng.choice(SRCS)}, {rng.randrange(0, 32)}"
            )
        elif r < 0.46:
            lines.append(f"lui {rng.choice(DESTS)}, {rng.randrange(0, 2**20)}")
        elif r < 0.66:
            op, w = rng.choice(LOADS)
            lines.append(
                f"{op} {rng.choice(DESTS + ['zero'])}, {mem_offset(rng, w)}(s0)"
            )
        elif r < 0.86:
            op, w = rng.choice(STORES)
            lines.append(f"{op} {rng.choice(SRCS)}, {mem_offset(rng, w)}(s0)")
        elif r < 0.93:
            lab = f"L{labels[0]}"
            labels[0] += 1
            lines.append(
                f"{rng.choice(BRANCHES)} {rng.choice(SRCS)}, {rng.choice(SRCS)}, {lab}"
            )
            lines.extend(gen_block(rng, rng.randrange(1, 3), labels))
            lines.append(f"{lab}:")
        elif r < 0.96:
            lab = f"L{labels[0]}"
            labels[0] += 1
            lines.append(f"jal ra, {lab}")
            lines.extend(gen_block(rng, rng.randrange(1, 3), labels))
            lines.append(f"{lab}:")
        else:
            code = rng.choice([1, 11, 34, 35, 36])
            lines.append(f"addi a7, zero, {code}")
            lines.append(f"addi a0, zero, {rng.randrange(33, 120)}")
            lines.append("ecall")
    return lines


def gen_riscv_program(rng):
    labels = [0]
    lines = ["lui s0, 4"]
    for reg in rng.sample(DESTS, 4):
        lines.append(f"addi {reg}, zero, {rng.randrange(-2048, 2048)}")
    lines.extend(gen_block(rng, rng.randrange(3, 10), labels))
    if rng.random() < 0.6:
        lab = f"L{labels[0]}"
        labels[0] += 1
        lines.append(f"addi t3, zero, {rng.randrange(1, 4)}")
        lines.append(f"{lab}:")
        body = gen_block(rng, rng.randrange(2, 7), labels)
        lines.extend(l for l in body)
        lines.append("addi t3, t3, -1")
        lines.append(f"bne t3, zero, {lab}")
    lines.extend(gen_block(rng, rng.randrange(1, 6), labels))
    if rng.random() < 0.15:
        bad = rng.choice(
            ["lw t0, 0(zero)", "lw t0, 1(s0)", "sh t1, 3(s0)", "addi a7, zero, 5\necall", "sw t0, 8(zero)"]
        )
        lines.insert(rng.randrange(5, len(lines) + 1), bad)
    r = rng.random()
    if r < 0.35:
        lines += ["addi a7, zero, 10", "ecall", "addi t0, zero, 1"]
    elif r < 0.6:
        lines += ["addi a7, zero, 93", f"addi a0, zero, {rng.randrange(0, 50)}", "ecall"]
    return "\n".join(lines) + "\n"


def gen_cache_options(rng):
    strategy = rng.choice(["lru", "plru"])
    assoc = rng.choice([1, 2, 4] if strategy == "plru" else [1, 2, 3, 4])
    return CacheOptions(
        enable=rng.random() < 0.78,
        num_index_bits=rng.randrange(0, 4),
        num_block_bits=rng.randrange(0, 3),
        associativity=assoc,
        cache_type=rng.choice(["wb", "wt"]),
        replacement_strategy=strategy,
        miss_penalty=rng.randrange(0, 6),
    )


def describe(opt):
    if not opt.enable:
        return "off"
    return f"{opt.cache_type}/{opt.replacement_strategy}/i{opt.num_index_bits}b{opt.num_block_bits}a{opt.associativity}p{opt.miss_penalty}"


TOY_ADDR_OPS = ["STO", "LDA", "ADD", "SUB", "OR", "AND", "XOR"]
TOY_PLAIN_OPS = ["NOT", "INC", "DEC", "ZRO", "NOP"]


def gen_toy_program(rng):
    nvars = rng.randrange(1, 5)
    lines = [".data"]
    for i in range(nvars):
        lines.append(f"v{i}: .word {rng.randrange(0, 2**16)}")
    lines.append(".text")
    n = rng.randrange(3, 16)
    for i in range(n):
        lines.append(f"I{i}:")
        r = rng.random()
        if r < 0.55:
            lines.append(f"{rng.choice(TOY_ADDR_OPS)} v{rng.randrange(nvars)}")
        elif r < 0.7:
            lines.append(f"{rng.choice(TOY_ADDR_OPS)} {rng.randrange(0, 4096)}")
        elif r < 0.82:
            lines.append(f"BRZ I{rng.randrange(n)}")
        else:
            lines.append(rng.choice(TOY_PLAIN_OPS))
    return "\n".join(lines) + "\n"


# --- driving -------------------------------------------------------------------
def drive(make, stepper, policy, max_steps):
    """Runs one simulation.  policy(i, inspectors) is called before the first step
    (i = 0) and after step i; whatever it returns (if not None) is appended to the trace."""
    sim, inspectors = make()
    trace = []
    error = None

    def call_policy(i):
        rec = policy(i, inspectors)
        if rec is not None:
            trace.append((i, rec))

    call_policy(0)
    i = 0
    while i < max_steps and not sim.is_done():
        try:
            stepper(sim, i)
        except Exception as e:  # a failing step ends the regular part of the run
            error = (i + 1, type(e).__name__, repr(e))
            break
        i += 1
        call_policy(i)
    final = observe(inspectors)
    post = None
    if error is not None:
        # freedom of the statement: what happens after an error is not pinned down,
        # but it still has to be independent of earlier inspection
        outcomes = []
        for j in range(POST_ERROR_STEPS):
            try:
                stepper(sim, i + 1 + j)
                outcomes.append("ok")
            except Exception as e:
                outcomes.append(type(e).__name__ + ":" + repr(e))
            call_policy(i + 1 + j)
        post = (tuple(outcomes), observe(inspectors))
    return {"steps": i, "error": error, "trace": trace, "final": final, "post": post}


def digest(obj):
    return hashlib.sha256(repr(obj).encode()).hexdigest()[:16]


def check_case(name, make, stepper, rng, max_steps):
    inspector_names = list(make()[1].keys())

    def full(i, ins):
        return observe(ins)

    F = drive(make, stepper, full, max_steps)
    U = drive(make, stepper, lambda i, ins: None, max_steps)
    ref = dict(F["trace"])
    problems = []

    plan_rng = random.Random(rng.random())

    def rand_policy(i, ins):
        for _ in range(plan_rng.randrange(0, 7)):
            nm = plan_rng.choice(inspector_names)
            reps = plan_rng.choice([1, 1, 1, 2, 3])
            for _ in range(reps):
                got = ins[nm]()
                if i in ref and got != ref[i][nm]:
                    problems.append(f"R:{nm}@{i}")
        return None

    R = drive(make, stepper, rand_policy, max_steps)
    k = rng.randrange(0, F["steps"] + 1)
    P = drive(make, stepper, lambda i, ins: observe(ins) if i >= k else None, max_steps)

    for tag, run in (("U", U), ("R", R), ("P", P)):
        if run["steps"] != F["steps"]:
            problems.append(f"{tag}:steps")
        if run["error"] != F["error"]:
            problems.append(f"{tag}:error")
        if run["final"] != F["final"]:
            problems.append(f"{tag}:final")
        if run["post"] != F["post"]:
            problems.append(f"{tag}:post-error")
    if P["trace"] != [(i, rec) for i, rec in F["trace"] if i >= k]:
        problems.append("P:trace")

    regular = [(i, rec) for i, rec in F["trace"] if i <= F["steps"]]
    parts = [F["steps"], F["error"], regular, F["final"]]
    if DIGEST_POST_ERROR:
        parts.append(F["post"])
        parts.append([(i, rec) for i, rec in F["trace"] if i > F["steps"]])
    d = digest(parts)
    err = "-" if F["error"] is None else F["error"][1]
    verdict = "pure" if not problems else "IMPURE " + ",".join(sorted(set(problems)))
    print(f"{name} steps={F['steps']} err={err} trace={d} {verdict}")
    return d, not problems


def riscv_case(seed):
    rng = random.Random(seed)
    program = gen_riscv_program(rng)
    mode = rng.choice(["single_stage_pipeline", "five_stage_pipeline"])
    hazards = rng.random() < 0.8
    dc = gen_cache_options(rng)
    ic = gen_cache_options(rng)

    def make():
        sim = RiscvSimulation(
            mode=mode, detect_data_hazards=hazards, data_cache=dc, instruction_cache=ic
        )
        sim.load_program(program)
        return sim, riscv_inspectors(sim)

    def stepper(sim, i):
        sim.step()

    name = f"riscv#{seed} {mode[:-9]} hz={int(hazards)} d={describe(dc)} i={describe(ic)}"
    return check_case(name, make, stepper, rng, MAX_STEPS)


def toy_case(seed):
    rng = random.Random(10_000 + seed)
    program = gen_toy_program(rng)
    choices = [rng.random() < 0.3 for _ in range(2 * MAX_STEPS + 8)]

    def make():
        sim = ToySimulation()
        sim.load_program(program)
        return sim, toy_inspectors(sim)

    def stepper(sim, i):
        if choices[i] and sim.next_cycle == 1:
            sim.step()
        else:
            sim.single_step()

    return check_case(f"toy#{seed}", make, stepper, rng, 2 * MAX_STEPS)


def main(extra=None):
    digests = []
    pure = 0
    total = 0
    for seed in range(N_RISCV):
        d, ok = riscv_case(seed)
        digests.append(d)
        pure += ok
        total += 1
    for seed in range(N_TOY):
        d, ok = toy_case(seed)
        digests.append(d)
        pure += ok
        total += 1
    if extra is not None:
        for line in extra():
            print(line)
            digests.append(line)
    print(f"cases={total} pure={pure} overall={digest(digests)}")
    return 0 if pure == total else 1


def extra_returned_objects():
    """Change 2 specific: the documented keys/attributes of the returned objects are all there,
    every call returns fresh containers, and a caller that scribbles over the containers it got
    back (dicts and lists that were fresh objects before the change as well) does not influence
    any later result."""
    lines = []
    for seed in range(40):
        rng = random.Random(4242 + seed)
        program = gen_riscv_program(rng)
        mode = rng.choice(["single_stage_pipeline", "five_stage_pipeline"])
        dc = gen_cache_options(rng)
        ic = gen_cache_options(rng)
        dc.enable = True
        ic.enable = rng.random() < 0.7
        finals = []
        facts = set()
        for vandal in (False, True):
            sim = RiscvSimulation(mode=mode, data_cache=dc, instruction_cache=ic)
            sim.load_program(program)
            ins = riscv_inspectors(sim)
            n = 0
            err = None
            trace = []
            try:
                while not sim.is_done() and n < MAX_STEPS:
                    if vandal:
                        for getter in (sim.get_data_cache_stats, sim.get_instruction_cache_stats):
                            st = getter()
                            if st is not None:
                                facts.add(("keys", set(STATS_KEYS) <= set(st)))
                                facts.add(("fresh", getter() is not st))
                                for key in STATS_KEYS:
                                    st[key] = "scribble"
                        for getter in (sim.get_data_cache_entries, sim.get_instruction_cache_entries):
                            rep = getter()
                            if rep is not None:
                                facts.add(("fresh", getter() is not rep and getter().sets is not rep.sets))
                                for z in rep.sets:
                                    for b in z.blocks:
                                        b.address_value_list.clear()
                                    z.blocks.clear()
                                rep.sets.clear()
                        for getter in (sim.get_register_entries, sim.get_data_memory_entries, sim.get_instruction_memory_entries):
                            lst = getter()
                            facts.add(("fresh", getter() is not lst))
                            lst.clear()
                    sim.step()
                    n += 1
                    trace.append(digest(observe(ins)))
            except Exception as e:
                err = repr(e)
            finals.append((n, err, trace, observe(ins)))
        same = finals[0] == finals[1]
        lines.append(
            f"objects#{seed} {mode[:-9]} d={describe(dc)} i={describe(ic)} facts={sorted(facts)} obs={digest(finals[0])} {'pure' if same else 'IMPURE'}"
        )
    return lines


if __name__ == "__main__":
    sys.exit(main(extra_returned_objects))
