"""The instance under test with its fresh-instance shadows, and the lifecycle oracles.

  SUT  full call history
  S16  the SUT's exact call history *minus every inspection call*           -> C16
  S13  re-created fresh at every successful load (same settings, same text),
       advanced by exactly the SUT's number of *effective* steps            -> C13
  S20  (TOY) advanced by whole step() calls only                            -> C20

All comparisons are on the observable snapshot (results of every inspection
function, is_done, has_instructions, has_started, program counter, output,
exit code, performance-metric fields, cache statistics).  Private attributes
are not compared.  Every call into the system under test is wrapped.
"""
import copy
import sys
from ..core.rng import errname

RISCV_INSP = [
    "get_register_entries",
    "get_data_memory_entries",
    "get_instruction_memory_entries",
    "get_data_cache_entries",
    "get_data_cache_stats",
    "get_instruction_cache_entries",
    "get_instruction_cache_stats",
    "svg",
    "get_performance_metrics_str",
    "get_output",
    "get_exit_code",
    "is_done",
    "has_instructions",
]
TOY_INSP = [
    "get_register_representations",
    "get_memory_table_entries",
    "get_toy_svg_update_values",
    "get_performance_metrics_str",
    "is_done",
    "has_instructions",
]


class VirtualClock:
    """Replaces the `time` module seen by uarch/performance_metrics.py.  Advanced only
    by the discrete-event loop; reading it is pure."""

    def __init__(self):
        self.reset()

    def reset(self):
        self.sim_ms = 0.0
        self.skew = 0.0
        self.frozen = None
        self.reads = 0

    def time(self):
        self.reads += 1
        if self.frozen is not None:
            return self.frozen
        return 1_700_000_000.0 + self.sim_ms / 1000.0 + self.skew

    def freeze(self):
        self.frozen = self.time()

    def unfreeze(self):
        self.frozen = None


CLOCK = VirtualClock()


def install_clock():
    import architecture_simulator.uarch.performance_metrics as pm

    pm.time = CLOCK
    return CLOCK


def _attrs(o):
    """Instance attributes of an object, whether it keeps them in a __dict__ or in __slots__; None if it has neither."""
    d = None
    if hasattr(o, "__dict__"):
        d = dict(vars(o))
    for klass in type(o).__mro__:
        slots = klass.__dict__.get("__slots__", ())
        if isinstance(slots, str):
            slots = (slots,)
        for name in slots or ():
            if isinstance(name, str) and name not in ("__dict__", "__weakref__") and hasattr(o, name):
                d = {} if d is None else d
                d[name] = getattr(o, name)
    return d


_ADDR = None


def _stable_repr(o):
    """repr() without the memory address a default object repr carries"""
    global _ADDR
    if _ADDR is None:
        import re

        _ADDR = re.compile(r" at 0x[0-9a-fA-F]+")
    return _ADDR.sub("", repr(o))


def deep(o, depth=0):
    """toJs-like deep conversion into plain data (lists, dicts, scalars)."""
    if isinstance(o, (str, int, float, bool, type(None))):
        return o
    if depth > 12:
        return _stable_repr(o)
    if isinstance(o, (list, tuple)):
        return [deep(x, depth + 1) for x in o]
    if isinstance(o, dict):
        return {str(k): deep(v, depth + 1) for k, v in o.items()}
    if isinstance(o, (set, frozenset)):
        return sorted((deep(x, depth + 1) for x in o), key=repr)
    a = _attrs(o)
    if a is not None:
        return {k: deep(v, depth + 1) for k, v in a.items()}
    return _stable_repr(o)


def global_fingerprint():
    """Hash of every module-level and class-level mutable container of the package (instruction maps,
    micro-program tables, Settings, class-level sets ...).  The web UI keeps several simulations alive in
    one process, so an inspection function that edits such a table changes what *other* instances show
    later - invisible to a shadow living in the same process, visible here."""
    items = []
    for name in sorted(sys.modules):
        if not name.startswith("architecture_simulator"):
            continue
        mod = sys.modules[name]
        if mod is None:
            continue
        for k, v in list(vars(mod).items()):
            if k.startswith("__"):
                continue
            if isinstance(v, (list, dict, set, frozenset)) or _pkg_object(v):
                items.append((name, k, _fp(v)))
            elif isinstance(v, type) and getattr(v, "__module__", None) == name:
                for ck, cv in list(vars(v).items()):
                    if not ck.startswith("__") and (isinstance(cv, (list, dict, set, frozenset)) or _pkg_object(cv)):
                        items.append((name, v.__name__ + "." + ck, _fp(cv)))
    return items


def _pkg_object(v):
    """an instance (not a class, function or module) of a class defined in the package, kept at module or
    class level: e.g. a shared directive object, a shared stage, a shared parser"""
    t = type(v)
    return (
        not isinstance(v, type)
        and getattr(t, "__module__", "").startswith("architecture_simulator")
        and _attrs(v) is not None
        and t.__name__ not in ("VirtualClock",)
    )


def _fp(v, depth=0):
    if isinstance(v, (set, frozenset)):
        return ("set", tuple(sorted(_fp(x, depth + 1) if not isinstance(x, type) else x.__name__ for x in v)))
    if isinstance(v, dict):
        return ("dict", tuple((str(k), _fp(x, depth + 1)) for k, x in v.items()))
    if isinstance(v, (list, tuple)):
        return ("list", tuple(_fp(x, depth + 1) for x in v))
    if isinstance(v, (str, int, float, bool, type(None))):
        return v
    if isinstance(v, type):
        return v.__name__
    a = _attrs(v) if depth < 4 else None
    if a is not None:
        return (type(v).__name__, tuple((k, _fp(x, depth + 1)) for k, x in sorted(a.items())))
    return type(v).__name__


def call_insp(sim, isa, mode, name):
    """One inspection call; an inspection function that raises is data, not an error."""
    try:
        if name == "svg":
            name = (
                "get_riscv_five_stage_svg_update_values"
                if mode == "five_stage_pipeline"
                else "get_riscv_single_stage_svg_update_values"
            )
        return deep(getattr(sim, name)())
    except Exception as e:  # noqa: BLE001
        return ["raised", type(e).__name__]


def snapshot(sim, isa, mode, wall=True):
    names = RISCV_INSP if isa == "riscv" else TOY_INSP
    d = {n: call_insp(sim, isa, mode, n) for n in names}
    try:
        p = sim.state.performance_metrics
        if isa == "riscv":
            d["pm"] = [p.instruction_count, p.branch_count, p.procedure_count, p.flushes, p.stalls, p.cycles]
        else:
            d["pm"] = [p.instruction_count, p.branch_count, p.cycles]
        d["timer"] = [p._execution_time_s, p._start]
        d["pc"] = int(sim.state.program_counter)
        d["started"] = bool(sim.has_started)
        if isa == "toy":
            d["next_cycle"] = sim.next_cycle
            d["accu"] = int(sim.state.accu)
    except Exception as e:  # noqa: BLE001
        d["state-read-raised"] = type(e).__name__
    if not wall:
        strip_wall(d)
    return d


def strip_wall(d):
    d.pop("timer", None)
    s = d.get("get_performance_metrics_str")
    if isinstance(s, str):
        d["get_performance_metrics_str"] = "\n".join(
            ln for ln in s.split("\n") if not ln.startswith(("execution time", "instructions per second"))
        )
    return d


def diff_keys(a, b):
    return sorted(k for k in set(a) | set(b) if a.get(k) != b.get(k))


def first_diff(a, b, key):
    x, y = a.get(key), b.get(key)
    if isinstance(x, list) and isinstance(y, list):
        for i, (p, q) in enumerate(zip(x, y)):
            if p != q:
                return f"[{i}] {str(p)[:160]} != {str(q)[:160]}"
        return f"len {len(x)} != {len(y)}"
    return f"{str(x)[:200]} != {str(y)[:200]}"


class Settings:
    def __init__(self, d):
        self.d = d

    def cache_options(self, which):
        from architecture_simulator.uarch.memory.cache import CacheOptions

        c = self.d[which]
        return CacheOptions(
            bool(c["enable"]), c["ib"], c["bb"], c["ways"], c["kind"], c["strat"], c["pen"]
        )


DECOY_RISCV = (
    ".data\nd: .word 7, 8\n.text\nli t0, 3\nagain: lw t1, d\nadd t2, t1, t0\nsw t2, d[1], t3\naddi t0, t0, -1\n"
    "bne t0, zero, again\naddi a7, zero, 1\nadd a0, t2, zero\necall\n"
)
DECOY_CACHES = {
    "dc": {"enable": True, "ib": 1, "bb": 1, "ways": 2, "kind": "wb", "strat": "plru", "pen": 2},
    "ic": {"enable": True, "ib": 0, "bb": 1, "ways": 2, "kind": "wt", "strat": "lru", "pen": 1},
}


class CleanRoom:
    """A pristine process, forked when an episode starts (before the simulation under observation has done
    anything), that answers reference questions - "what does loading this text into a fresh simulation give?",
    "what does a whole-step TOY run of this text show at every boundary?" - each in a forked grandchild of its
    own, so that no question sees what the episode, or an earlier question, left behind in process-wide state.
    A fresh-instance shadow living in the same process shares every class- and module-level object with the
    instance it is compared against; this one does not."""

    def __init__(self):
        import os
        import pickle

        self._os, self._pickle = os, pickle
        self.req_r, self.req_w = os.pipe()
        self.res_r, self.res_w = os.pipe()
        self.pid = os.fork()
        if self.pid == 0:
            try:
                os.close(self.req_w)
                os.close(self.res_r)
                self._serve()
            finally:
                os._exit(0)
        os.close(self.req_r)
        os.close(self.res_w)

    # -- child side
    def _read_msg(self, fd):
        os = self._os
        head = b""
        while len(head) < 8:
            chunk = os.read(fd, 8 - len(head))
            if not chunk:
                return None
            head += chunk
        n = int.from_bytes(head, "big")
        data = b""
        while len(data) < n:
            chunk = os.read(fd, min(1 << 20, n - len(data)))
            if not chunk:
                return None
            data += chunk
        return self._pickle.loads(data)

    def _write_msg(self, fd, obj):
        data = self._pickle.dumps(obj)
        self._os.write(fd, len(data).to_bytes(8, "big"))
        view = memoryview(data)
        while view:
            n = self._os.write(fd, view[: 1 << 16])
            view = view[n:]

    def _serve(self):
        os = self._os
        while True:
            req = self._read_msg(self.req_r)
            if req is None:
                return
            pid = os.fork()
            if pid == 0:
                try:
                    try:
                        out = ("ok", _clean_room_answer(*req))
                    except BaseException as e:  # noqa: BLE001
                        out = ("err", repr(e))
                    self._write_msg(self.res_w, out)
                finally:
                    os._exit(0)
            os.waitpid(pid, 0)

    # -- parent side
    def ask(self, *req):
        try:
            self._write_msg(self.req_w, req)
            out = self._read_msg(self.res_r)
        except OSError:
            return None
        if not out or out[0] != "ok":
            return None
        return out[1]

    def close(self):
        os = self._os
        for fd in (self.req_w, self.res_r):
            try:
                os.close(fd)
            except OSError:
                pass
        try:
            os.waitpid(self.pid, 0)
        except OSError:
            pass


def _clean_room_answer(kind, settings, text):
    from architecture_simulator.gui import webgui

    install_clock()
    if kind == "toy_whole_steps":
        sim = webgui.get_toy_simulation()
        sim.load_program(text)
        out = [snapshot(sim, "toy", None, wall=False)]
        n = 0
        while not sim.is_done() and n < 200:
            sim.step()
            n += 1
            out.append(snapshot(sim, "toy", None, wall=False))
        return out
    if kind == "fresh_load":
        if settings["isa"] == "toy":
            sim = webgui.get_toy_simulation()
        else:
            st = Settings(settings)
            sim = webgui.get_riscv_simulation(settings.get("mode", "single_stage_pipeline"), bool(settings["hz"]),
                                              st.cache_options("dc"), st.cache_options("ic"))
        try:
            sim.load_program(text)
            outcome = ("ok",)
        except Exception as e:  # noqa: BLE001
            outcome = ("error", None, type(e).__name__, getattr(e, "line_number", None))
        return outcome, snapshot(sim, settings["isa"], settings.get("mode"), wall=False)
    raise ValueError(kind)


def whole_step_snapshots(webgui, text, cap=200):
    """Snapshots of a fresh TOY simulation advanced by whole step() calls only, one per instruction boundary,
    computed in a forked child: a shadow living in the same process shares every class- or module-level
    object with the simulation under observation, and would be polluted by the very calls it is compared
    against (a shared directive object, a shared table)."""
    from ..core.runner import isolated

    def body():
        sim = webgui.get_toy_simulation()
        sim.load_program(text)
        out = [snapshot(sim, "toy", None, wall=False)]
        n = 0
        while not sim.is_done() and n < cap:
            sim.step()
            n += 1
            out.append(snapshot(sim, "toy", None, wall=False))
        return out

    try:
        return isolated(body, 60)
    except Exception:  # noqa: BLE001
        return None


class SutConstructionError(Exception):
    """The front end's factory raised for a legal configuration."""


class Subject:
    def __init__(self, trace_settings, res, hs, props):
        from architecture_simulator.gui import webgui

        self.webgui = webgui
        self.settings = trace_settings  # dict: isa, mode, hz, dc, ic
        self.res = res
        self.hs = hs
        self.props = props  # set of property ids whose oracles are evaluated
        self.isa = trace_settings["isa"]
        self.sut = self.s16 = self.s13 = self.s20 = None
        self.s20_obj = None  # whole-step shadow: lives as long as the SUT object and receives the same loads
        self.loads_on_object = 0
        self.text = None
        self.loaded_ok = False
        self.faulted = False
        self.was_done = False
        self.done_snapshot = None
        self.eff_steps = 0
        self.reloaded_started = False
        self.events = 0
        self.total_steps = 0
        self.decoy = None
        self.decoy_count = 0
        self.s20_isolated = None
        self.dead = False  # a violation was recorded: stop evaluating
        self.clean = CleanRoom() if (props & {"C13", "C20"}) else None
        self.new_simulation()

    def close(self):
        if self.clean is not None:
            self.clean.close()
            self.clean = None

    # ---- factory (the real entry points of the web front end)
    @property
    def mode(self):
        return self.settings.get("mode", "single_stage_pipeline")

    def factory(self):
        if self.isa == "toy":
            return self.webgui.get_toy_simulation()
        st = Settings(self.settings)
        return self.webgui.get_riscv_simulation(
            self.mode, bool(self.settings["hz"]), st.cache_options("dc"), st.cache_options("ic")
        )

    def make_decoy(self):
        """Another live simulation with *different* settings (other ISA store / other pipeline mode, hazard
        setting and caches), created after the ones under observation and stepped alternately with them: the
        web UI keeps a RISC-V store, a TOY store and not-yet-destroyed old simulations alive together."""
        try:
            if self.isa == "toy":
                d = self.webgui.get_riscv_simulation("five_stage_pipeline", True, Settings(DECOY_CACHES).cache_options("dc"),
                                                     Settings(DECOY_CACHES).cache_options("ic"))
                d.load_program(DECOY_RISCV)
            else:
                st = self.settings
                other = {"dc": dict(st["dc"], enable=not st["dc"]["enable"], kind="wt" if st["dc"]["kind"] == "wb" else "wb",
                                    ways=2 if st["dc"]["ways"] != 2 else 4, strat="lru"),
                         "ic": dict(st["ic"], enable=not st["ic"]["enable"], ways=2 if st["ic"]["ways"] != 2 else 4, strat="lru")}
                mode = "five_stage_pipeline" if self.decoy_count % 2 == 0 else "single_stage_pipeline"
                d = self.webgui.get_riscv_simulation(mode, not bool(st["hz"]), Settings(other).cache_options("dc"),
                                                     Settings(other).cache_options("ic"))
                d.load_program(DECOY_RISCV)
            self.decoy_count += 1
            return d
        except Exception:  # noqa: BLE001
            return None

    def decoy_step(self):
        d = self.decoy
        if d is not None:
            try:
                if d.is_done():
                    d.load_program(DECOY_RISCV)
                d.step()
            except Exception:  # noqa: BLE001
                self.decoy = None

    def new_simulation(self):
        """F-reset: the old object is dropped; only the editor text and the settings survive."""
        try:
            self.sut = self.factory()
            self.s16 = self.factory()
        except Exception as e:  # noqa: BLE001
            raise SutConstructionError(f"{type(e).__name__}: {e}") from e
        self.decoy = self.make_decoy() if self.settings.get("decoy") else None
        self.loads_on_object = 0
        self.s20_obj = None
        if self.isa == "toy" and "C20" in self.props:
            try:
                self.s20_obj = self.factory()
            except Exception:  # noqa: BLE001
                self.s20_obj = None
        self.s13 = None
        self.s20 = None
        self.s20_isolated = None
        self.loaded_ok = False
        self.faulted = False
        self.was_done = False
        self.done_snapshot = None
        self.eff_steps = 0
        self.reloaded_started = False

    def violate(self, prop, kind, **kw):
        if prop in self.props and not self.dead:
            self.res.violate(prop, kind, at=self.events, **kw)
            self.dead = True

    # ---- load
    def classify(self, exc, text):
        """The front end's own classification of a failed load (webgui.get_last_error)."""
        sys.last_value = exc
        try:
            err = self.webgui.get_last_error()
        except Exception as e:  # noqa: BLE001
            err = ("Unknown", "get_last_error raised " + type(e).__name__)
        return list(err)

    def load(self, text):
        """load_program on the SUT (mirrored on S16). Returns ("ok",) or ("error", classification)."""
        started_before = bool(getattr(self.sut, "has_started", False))
        self.was_done = False
        self.done_snapshot = None
        try:
            self.sut.load_program(text)
            out = ("ok",)
        except Exception as e:  # noqa: BLE001
            out = ("error", self.classify(e, text), type(e).__name__)
        try:
            self.s16.load_program(text)
            out16 = ("ok",)
        except Exception as e:  # noqa: BLE001
            out16 = ("error", None, type(e).__name__)
        self.loads_on_object += 1
        s20_loaded = False
        if self.s20_obj is not None:
            try:
                self.s20_obj.load_program(text)
                s20_loaded = True
            except Exception:  # noqa: BLE001
                s20_loaded = False
        self.hs.add("load", len(text), out[0], out[2] if len(out) > 2 else None)
        if (out[0], out[2:] ) != (out16[0], out16[2:]):
            self.violate("C16", "load-outcome-differs-from-uninspected-shadow", expected=out16, got=out)
        self.text = text
        nlines = len(text.split("\n"))
        # C13: a load on a simulation that has not started behaves like the same load on a fresh one -
        # same outcome (also for a failing load) and same observable state
        fresh = None
        if not started_before and "C13" in self.props:
            fresh = self.factory()
            try:
                fresh.load_program(text)
                outf = ("ok",)
            except Exception as e:  # noqa: BLE001
                outf = ("error", None, type(e).__name__, getattr(e, "line_number", None))
            mine = out if out[0] == "ok" else ("error", None, out[2], out[1][2] if out[1][0] == "ParserException" else None)
            if mine != outf:
                self.violate("C13", "load-outcome-differs-from-fresh-simulation", expected=outf, got=mine, text=text[:400])
            # the same question answered in the clean room (a fresh simulation in a pristine process)
            iso = self.clean.ask("fresh_load", {k: v for k, v in self.settings.items()}, text) if self.clean is not None else None
            if iso is not None and not self.dead:
                iso_out, iso_snap = iso
                if tuple(iso_out) != tuple(mine):
                    self.violate("C13", "load-outcome-differs-from-fresh-simulation", expected=list(iso_out), got=list(mine), text=text[:400],
                                 note="expected = fresh simulation in a separate, pristine process")
                else:
                    mine_snap = snapshot(self.sut, self.isa, self.mode, wall=False)
                    if mine_snap != iso_snap:
                        ks = diff_keys(mine_snap, iso_snap)
                        self.violate("C13", "state-after-load-differs-from-fresh-simulation", fields=ks, first=first_diff(iso_snap, mine_snap, ks[0]),
                                     text=text[:400], note="expected = fresh simulation in a separate, pristine process")
                    else:
                        self.res.probes["load compared with a fresh simulation in a pristine process"] += 1
            elif out[0] == "error":
                a = snapshot(self.sut, self.isa, self.mode, wall=False)
                b = snapshot(fresh, self.isa, self.mode, wall=False)
                if a != b:
                    ks = diff_keys(a, b)
                    self.violate("C13", "state-after-failed-load-differs-from-fresh-simulation", fields=ks,
                                 first=first_diff(b, a, ks[0]), text=text[:400])
                self.res.probes["failed load compared with the same failed load on a fresh simulation"] += 1
        if out[0] == "error":
            self.res.faults["F-load"] += 1
            cls = out[1]
            etype = out[2]
            if cls[0] == "ParserException":
                line = cls[2]
                if not isinstance(line, int) or isinstance(line, bool) or not (1 <= line <= nlines):
                    self.violate("C15", "parser-error-line-out-of-range", expected=f"1..{nlines}", got=line,
                                 error=cls[1][:200], text=text[:400])
                else:
                    self.res.probes["failed load classified ParserException with a valid line"] += 1
            elif etype in ("MemorySizeException", "MemoryAddressError"):
                self.res.probes["failed load: program does not fit (" + etype + ")"] += 1
            else:
                self.violate("C15", "load-failed-with-untyped-error", expected="ParserException or memory-size/address error",
                             got=etype, classification=cls[:2], text=text[:400])
            self.loaded_ok = False
            self.s13 = None
            self.s20 = None
            self.s20_isolated = None
            if started_before:
                self.reloaded_started = True
            return out
        # success
        self.loaded_ok = True
        self.faulted = False
        if started_before:
            # load_program on an object that has already run: nothing is asserted about it
            # except C11's instruction-cache clause (checked by the caller)
            self.reloaded_started = True
            self.s13 = None
            self.s20 = None
            self.s20_isolated = None
            self.res.probes["F-reload: load_program on a started simulation"] += 1
            return out
        if fresh is not None and outf[0] == "ok":
            self.s13 = fresh
        else:
            self.s13 = self.factory()
            try:
                self.s13.load_program(text)
            except Exception as e:  # noqa: BLE001
                self.violate("C13", "fresh-simulation-rejects-text-the-used-one-accepted", got=type(e).__name__, text=text[:400])
                self.s13 = None
        self.s20_isolated = None
        if self.isa == "toy":
            # the whole-step shadow has the same load history as the simulation under observation (whether a
            # reload equals a fresh load is C13's business, not C20's); the clean-room run of a *fresh* simulation
            # is therefore used only for the first load on an object
            self.s20 = self.s20_obj if s20_loaded else None
            if "C20" in self.props and self.clean is not None and self.loads_on_object == 1:
                self.s20_isolated = self.clean.ask("toy_whole_steps", None, text)
        self.eff_steps = 0
        self.was_done = False
        self.done_snapshot = None
        # C09: the assembler's preloads of the data segment leave the data-cache counters (and the
        # cycle counter) untouched
        if "C09" in self.props and self.isa == "riscv" and self.settings["dc"]["enable"]:
            st = call_insp(self.sut, self.isa, self.mode, "get_data_cache_stats")
            cyc = self.sut.state.performance_metrics.cycles
            if not isinstance(st, dict) or st.get("hits") != "0" or st.get("accesses") != "0" or cyc != 0:
                self.violate("C09", "assembler-preload-counted", expected={"hits": "0", "accesses": "0", "cycles": 0},
                             got={"stats": st, "cycles": cyc}, text=text[:300])
            elif ".data" in text:
                self.res.probes["load with a data segment: data-cache counters 0/0"] += 1
        # a program with no instructions is done immediately
        try:
            if not self.sut.has_instructions() and not self.sut.is_done():
                self.violate("C13", "empty-program-not-done", text=text[:200])
            if not self.sut.has_instructions():
                self.res.probes["program without instructions loaded"] += 1
        except Exception as e:  # noqa: BLE001
            self.violate("C13", "is_done-raised-after-load", got=type(e).__name__)
        return out

    # ---- stepping
    def step(self, call="step"):
        """One stepping call (step / single_step / first_cycle_step / second_cycle_step) on the
        SUT, mirrored on S16; S13 / S20 advance only by effective whole steps."""
        sut = self.sut
        self.total_steps += 1
        self.decoy_step()
        try:
            was_done = bool(sut.is_done())
        except Exception:  # noqa: BLE001
            was_done = False
        pre = None
        toy = self.isa == "toy"
        nc = getattr(sut, "next_cycle", 1)
        valid = True
        if toy:
            valid = was_done or call == "single_step" or (call in ("step", "first_cycle_step") and nc == 1) or (
                call == "second_cycle_step" and nc == 2
            )
            if call == "step" and nc != 1 and not was_done:
                valid = False  # a whole step in the middle of an instruction (once done, every call is a no-op)
            if self.reloaded_started:
                # load_program on a started (possibly mid-instruction) object is outside C20's quantifier
                # (interleavings of stepping calls) and outside C13's (not started): nothing is asserted
                valid = None
            if (valid is False or was_done) and valid is not None and "C20" in self.props:
                pre = snapshot(sut, self.isa, self.mode)
        try:
            ret = getattr(sut, call)()
            out = ("ok", ret)
        except Exception as e:  # noqa: BLE001
            out = ("raised", errname(e), getattr(e, "address", None))
        try:
            ret16 = getattr(self.s16, call)()
            out16 = ("ok", ret16)
        except Exception as e:  # noqa: BLE001
            out16 = ("raised", errname(e), getattr(e, "address", None))
        self.hs.add(call, out)
        if "C13" in self.props:
            # whether a simulation is done is a question that always has an answer, also after a step that raised
            try:
                sut.is_done()
            except Exception as e:  # noqa: BLE001
                self.violate("C13", "is_done-raised", got=errname(e), after=call, step_outcome=list(out)[:2])
                return out
        if out != out16:
            self.violate("C16", "step-outcome-differs-from-uninspected-shadow", expected=out16, got=out, call=call)
        if out[0] == "raised":
            if was_done and call == "step" and not self.reloaded_started:
                # C13: on a finished simulation step() changes nothing and returns False - it does not raise
                self.violate("C13", "step-on-a-finished-simulation-raised", expected=False, got=out[1])
            if out[1] == "StepSequenceError":
                self.res.faults["F-seq"] += 1
                if valid is True:
                    self.violate("C20", "valid-call-rejected", got=out[1], call=call, next_cycle=nc)
                elif pre is not None:
                    post = snapshot(sut, self.isa, self.mode)
                    if post != pre:
                        self.violate("C20", "rejected-call-changed-state", call=call, fields=diff_keys(pre, post))
                    self.res.probes[f"invalid {call} in phase {nc} rejected without effect"] += 1
                return out
            if toy and valid is False and "C20" in self.props:
                # an out-of-order call must be answered with the sequencing error, not with some other failure
                # (no TOY instruction can fault at run time, and this call must not execute one anyway)
                self.violate("C20", "invalid-call-raised-another-error", expected="StepSequenceError", got=out[1], call=call, next_cycle=nc)
                return out
            # a run-time fault: nothing is asserted about the object afterwards (the UI forces a reset)
            self.faulted = True
            self.res.faults["F-instr (run-time fault inside the driver)"] += 1
            if "C15" in self.props:
                if out[1] != "InstructionExecutionException":
                    self.violate("C15", "runtime-error-type", expected="InstructionExecutionException", got=out[1])
            return out
        if toy and valid is False:
            self.violate("C20", "invalid-call-accepted", expected="StepSequenceError", call=call, next_cycle=nc)
            return out
        if was_done:
            self.res.faults["F-overshoot"] += 1
            if pre is not None:
                post = snapshot(sut, self.isa, self.mode)
                if post != pre:
                    self.violate("C20", "call-after-done-changed-state", call=call, fields=diff_keys(pre, post))
        # step() returns false exactly when the simulation is done afterwards
        if call == "step" and "C13" in self.props:
            try:
                d = bool(sut.is_done())
                if ret is not None and bool(ret) == d:
                    self.violate("C13", "step-return-value", expected=not d, got=ret)
            except Exception:  # noqa: BLE001
                pass
        # shadows advance by effective calls only: S13 mirrors the call, S20 takes whole steps
        if not was_done and not self.reloaded_started:
            completes = (not toy) or call == "step" or call == "second_cycle_step" or (call == "single_step" and nc == 2)
            self.eff_steps += 1
            if self.s13 is not None:
                try:
                    getattr(self.s13, call)()
                except Exception as e:  # noqa: BLE001
                    self.violate("C13", "fresh-shadow-raised-where-the-used-one-did-not", got=type(e).__name__)
            if self.s20 is not None and completes:
                try:
                    self.s20.step()
                except Exception as e:  # noqa: BLE001
                    self.violate("C20", "whole-step-shadow-raised", got=type(e).__name__)
        return out

    def run(self):
        """Simulation.run() on SUT and S16; S13 is stepped until done."""
        outs = []
        for s in (self.sut, self.s16):
            try:
                s.run()
                outs.append(("ok",))
            except Exception as e:  # noqa: BLE001
                outs.append(("raised", errname(e), getattr(e, "address", None)))
        self.hs.add("run", outs[0])
        if outs[0] != outs[1]:
            self.violate("C16", "run-outcome-differs-from-uninspected-shadow", expected=outs[1], got=outs[0])
        if outs[0][0] == "raised":
            self.faulted = True
            return outs[0]
        if self.s13 is not None and not self.reloaded_started:
            n = 0
            try:
                while not self.s13.is_done() and n < 20000:
                    self.s13.step()
                    n += 1
                if self.s20 is not None:
                    while not self.s20.is_done() and n < 40000:
                        self.s20.step()
                        n += 1
            except Exception as e:  # noqa: BLE001
                self.violate("C13", "stepping-raised-where-run-did-not", got=type(e).__name__)
        try:
            if not self.sut.is_done():
                self.violate("C13", "not-done-after-run")
        except Exception:  # noqa: BLE001
            pass
        return outs[0]

    def timer(self, which):
        for s in (self.sut, self.s16):
            try:
                getattr(s.state.performance_metrics, which)()
            except Exception:  # noqa: BLE001
                pass

    # ---- inspection
    def inspect(self, names, reps=1):
        """Inspection calls on the SUT (and, equally, on S13/S20 so that inspection effects
        cancel out of the lifecycle comparison); never on S16."""
        check_globals = "C16" in self.props
        g0 = global_fingerprint() if check_globals else None
        for n in names:
            for _ in range(reps):
                call_insp(self.sut, self.isa, self.mode, n)
                for sh in (self.s13, self.s20):
                    if sh is not None:
                        call_insp(sh, self.isa, self.mode, n)
        self.res.probes["inspection calls"] += len(names) * reps
        if check_globals:
            g1 = global_fingerprint()
            if g1 != g0:
                changed = [f"{a[0]}:{a[1]}" for a, b in zip(g0, g1) if a != b][:4]
                self.violate("C16", "inspection-changed-process-wide-state", tables=changed, functions=list(names)[:13],
                             note="an inspection function edited a module/class-level table shared by all simulation instances")

    # ---- comparison point
    def final_compare(self):
        """End of the episode: if a comparison with the never-inspected shadow had to be postponed, look at the
        shadow itself now (nothing follows that the look could influence)."""
        if self.dead or self.faulted or not getattr(self, "s16_postponed", False) or "C16" not in self.props:
            return
        a = snapshot(self.sut, self.isa, self.mode)
        b = snapshot(self.s16, self.isa, self.mode)
        if a != b:
            ks = diff_keys(a, b)
            self.violate("C16", "inspected-run-differs-from-uninspected-run", fields=ks, first=first_diff(b, a, ks[0]),
                         note="expected = never inspected (looked at only at the end of the episode), got = inspected")

    def compare(self, deep_s16=True):
        self.events += 1
        if self.dead or self.faulted:
            return
        isa, mode = self.isa, self.mode
        g0 = global_fingerprint() if "C16" in self.props else None
        a = snapshot(self.sut, isa, mode)
        if g0 is not None:
            g1 = global_fingerprint()
            if g1 != g0:
                changed = [f"{x[0]}:{x[1]}" for x, y in zip(g0, g1) if x != y][:4]
                self.violate("C16", "inspection-changed-process-wide-state", tables=changed,
                             note="an inspection function edited a module/class-level table shared by all simulation instances")
                return
        self.hs.add("snap", a.get("pm"), a.get("pc"), a.get("is_done"), a.get("get_output"), a.get("timer"))
        if "C16" in self.props and deep_s16:
            try:
                b = snapshot(copy.deepcopy(self.s16), isa, mode)
            except Exception:  # noqa: BLE001
                # the shadow cannot be copied (nothing promises that a simulation is deep-copyable, e.g. once it
                # keeps an exception object): it must not be looked at now - that would make it an inspected run -
                # so the comparison is postponed to the end of the episode (final_compare)
                self.res.relaxations["C16: shadow not deep-copyable at this event, compared at the end of the episode instead"] += 1
                self.s16_postponed = True
                b = a
            if a != b:
                ks = diff_keys(a, b)
                self.violate("C16", "inspected-run-differs-from-uninspected-run", fields=ks,
                             first=first_diff(b, a, ks[0]), note="expected = never inspected, got = inspected")
        if "C09" in self.props and isa == "riscv" and self.settings["dc"]["enable"]:
            # uncounted (inspection) reads leave the accounting untouched: the simulation that is looked at after
            # every event has the data-cache counters and the cycle counter of the shadow that is never looked at
            try:
                m, n = self.sut.state.memory, self.s16.state.memory
                ca = [m.hits, m.accesses, bool(m.last_was_hit), self.sut.state.performance_metrics.cycles]
                cb = [n.hits, n.accesses, bool(n.last_was_hit), self.s16.state.performance_metrics.cycles]
            except Exception:  # noqa: BLE001
                ca = cb = None
            if ca != cb:
                self.violate("C09", "inspection-changed-cache-accounting", expected=cb, got=ca,
                             note="[hits, accesses, last hit, cycles]; expected = never inspected, got = inspected between steps")
            elif ca is not None and ca[1] > 0:
                self.res.probes["data-cache accounting of the inspected run equals the uninspected run"] += 1
        if "C13" in self.props:
            a2 = strip_wall(dict(a))
            if self.s13 is not None and not self.reloaded_started:
                c = snapshot(self.s13, isa, mode, wall=False)
                if a2 != c:
                    ks = diff_keys(a2, c)
                    self.violate("C13", "used-simulation-differs-from-fresh-one", fields=ks, first=first_diff(c, a2, ks[0]),
                                 effective_steps=self.eff_steps, note="expected = fresh simulation advanced by the effective steps")
            # done is stable, whatever the load history (this clause is not restricted to simulations that
            # have not started; a load resets the bookkeeping)
            if self.was_done and self.done_snapshot is not None and a2 != self.done_snapshot:
                ks = diff_keys(a2, self.done_snapshot)
                self.violate("C13", "state-changed-after-done", fields=ks, first=first_diff(self.done_snapshot, a2, ks[0]))
            if self.was_done and not a.get("is_done"):
                self.violate("C13", "done-not-stable")
            if a.get("is_done") is True and not self.was_done:
                self.was_done = True
                self.done_snapshot = a2
                self.res.probes["simulation observed done"] += 1
        if self.s20 is not None and not self.reloaded_started and ("C20" in self.props) and getattr(self.sut, "next_cycle", 1) == 1:
            a3 = strip_wall(dict(a))
            c = snapshot(self.s20, isa, mode, wall=False)
            if a3 != c:
                ks = diff_keys(a3, c)
                self.violate("C20", "half-steps-differ-from-whole-steps", fields=ks, first=first_diff(c, a3, ks[0]))
            else:
                self.res.probes["instruction boundary compared with whole-step shadow"] += 1
            iso = getattr(self, "s20_isolated", None)
            k = a3.get("pm", [0])[0]
            if iso is not None and not self.dead and isinstance(k, int) and 0 <= k < len(iso):
                if a3 != iso[k]:
                    ks = diff_keys(a3, iso[k])
                    self.violate("C20", "half-steps-differ-from-whole-steps", fields=ks, first=first_diff(iso[k], a3, ks[0]),
                                 note="expected = whole-step run in a separate process (no shared objects)")
                else:
                    self.res.probes["instruction boundary compared with the isolated whole-step run"] += 1
