"""Differential check for C20 (TOY two-phase stepping).

Generates random TOY programs (fixed seeds), executes each of them
  (a) by whole steps                       -> reference trace
  (b) by explicit first/second half calls
  (c) by single_step() calls
  (d) by a random interleaving of step / first_cycle_step / second_cycle_step /
      single_step calls that contains legal and illegal orders
and records everything the property talks about (architectural state, counters,
memory, memory-table markers, svg update values, register representations,
public phase attribute) at every call.  Illegal calls must raise a
StepSequenceError (only isinstance is recorded, not the message) and must leave
the observable state unchanged; after the program is done every call must be a
no-op.  Additionally one simulation object per memory size is reused for all
programs (reloaded at instruction boundaries only).  Prints a digest and a summary; output must be identical before and
after a behaviour-preserving change.
"""
import hashlib
import random
import sys

import architecture_simulator
from architecture_simulator.simulation.toy_simulation import ToySimulation
from architecture_simulator.simulation.runtime_errors import StepSequenceError

ADDR_OPS = ["STO", "LDA", "BRZ", "ADD", "SUB", "OR", "AND", "XOR"]
PLAIN_OPS = ["NOT", "INC", "DEC", "ZRO", "NOP"]
MAX_INSTR = 40  # cap on executed instructions (programs may loop)


def gen_program(rng):
    n_data = rng.randint(0, 4)
    n_instr = rng.randint(1, 12)
    lines = []
    data_labels = []
    if n_data:
        lines.append(".data")
        for i in range(n_data):
            vals = [
                rng.choice([0, 1, 2, 0xFFFF, 0x8000, rng.randint(0, 0xFFFF)])
                for _ in range(rng.randint(1, 3))
            ]
            fmt = [hex(v) if rng.random() < 0.5 else str(v) for v in vals]
            lines.append(f"d{i}: .word " + ", ".join(fmt))
            data_labels.append(f"d{i}")
        lines.append(".text")
    code_labels = [f"l{i}" for i in range(rng.randint(0, 3))]
    label_pos = {lab: rng.randint(0, n_instr) for lab in code_labels}
    for i in range(n_instr):
        for lab, pos in label_pos.items():
            if pos == i:
                lines.append(f"{lab}:")
        if rng.random() < 0.6:
            op = rng.choice(ADDR_OPS)
            r = rng.random()
            if op == "BRZ":
                if code_labels and r < 0.6:
                    arg = rng.choice(code_labels)
                else:
                    arg = str(rng.randint(0, n_instr + 2))
            elif op == "STO" and r < 0.35:
                # self-modifying code: store into the instruction area
                arg = str(rng.randint(0, n_instr))
            elif data_labels and r < 0.7:
                arg = rng.choice(data_labels)
            else:
                arg = rng.choice(
                    [str(rng.randint(0, n_instr + 3)), hex(rng.randint(0, 4095))]
                )
            lines.append(f"{op} {arg}")
        else:
            lines.append(rng.choice(PLAIN_OPS))
    for lab, pos in label_pos.items():
        if pos == n_instr:
            lines.append(f"{lab}:")
    return "\n".join(lines)


def observe(sim):
    st = sim.state
    pm = st.performance_metrics
    vv = st.visualisation_values
    return repr(
        (
            int(st.accu),
            int(st.program_counter),
            None if st.loaded_instruction is None else int(st.loaded_instruction),
            None if st.loaded_instruction is None else str(st.loaded_instruction),
            st.address_of_current_instruction,
            st.address_of_next_instruction,
            st.max_pc,
            (pm.cycles, pm.instruction_count, pm.branch_count),
            sorted((a, int(v)) for a, v in st.memory.memory_file.items()),
            (
                None if vv.accu_old is None else int(vv.accu_old),
                None if vv.alu_out is None else int(vv.alu_out),
                bool(vv.jump),
                None if vv.ram_out is None else int(vv.ram_out),
                None if vv.op_code_old is None else int(vv.op_code_old),
                None if vv.pc_old is None else int(vv.pc_old),
            ),
            sim.next_cycle,
            sim.has_started,
            sim.is_done(),
            sim.has_instructions(),
            sim.get_memory_table_entries(),
            sim.get_toy_svg_update_values(),
            sim.get_register_representations(),
        )
    )


def new_sim(program, mem):
    sim = ToySimulation(mem) if mem else ToySimulation()
    sim.load_program(program)
    return sim


class Mismatch(Exception):
    pass


def call(sim, name):
    """Calls sim.<name>(); returns ('ok', retval) or ('seq', None)."""
    before = observe(sim)
    try:
        ret = getattr(sim, name)()
    except StepSequenceError as e:
        if not isinstance(e, RuntimeError):
            raise Mismatch("sequence error is not a RuntimeError")
        if observe(sim) != before:
            raise Mismatch(f"state changed by rejected {name}()")
        return ("seq", None), before, before
    return ("ok", ret), before, observe(sim)


def reference(program, mem):
    """Whole-step trace: list of observations at instruction boundaries."""
    sim = new_sim(program, mem)
    trace = [observe(sim)]
    rets = []
    while not sim.is_done() and len(trace) <= MAX_INSTR:
        rets.append(sim.step())
        trace.append(observe(sim))
    return trace, rets


def halves(program, mem, n):
    """First/second half calls and single_step calls; returns mid-instruction observations."""
    a = new_sim(program, mem)
    b = new_sim(program, mem)
    bound, mids = [observe(a)], []
    for _ in range(n):
        a.first_cycle_step()
        b.single_step()
        if observe(a) != observe(b):
            raise Mismatch("first half != single_step (1)")
        mids.append(observe(a))
        a.second_cycle_step()
        b.single_step()
        if observe(a) != observe(b):
            raise Mismatch("second half != single_step (2)")
        bound.append(observe(a))
    return bound, mids


def interleave(program, mem, ref, mids, rng, h):
    sim = new_sim(program, mem)
    boundary = 0  # index of the last completed instruction boundary
    mid = False
    stats = {"ok": 0, "seq": 0, "noop": 0}
    n_calls = 0
    extra = 6  # calls issued after the program is done (must all be no-ops)
    while True:
        n_calls += 1
        if n_calls > 1000:
            raise Mismatch("interleaving does not make progress")
        name = rng.choice(
            ["step", "first_cycle_step", "second_cycle_step", "single_step"]
        )
        done = sim.is_done()
        at_end = boundary >= len(ref) - 1
        if at_end and not mid:
            if not done:
                break  # instruction cap reached on a looping program
            extra -= 1
            if extra < 0:
                break
        (kind, ret), before, after = call(sim, name)
        h.update(f"{name}:{kind}:{ret!r}|".encode())
        h.update(after.encode())
        if done:
            if kind != "ok" or after != before:
                raise Mismatch(f"{name}() is not a no-op after the program is done")
            if name == "step" and ret is not False:
                raise Mismatch("step() must return False when done")
            stats["noop"] += 1
            continue
        if not mid:
            legal = name in ("step", "first_cycle_step", "single_step")
        else:
            legal = name in ("second_cycle_step", "single_step")
        if legal != (kind == "ok"):
            raise Mismatch(f"{name}() legal={legal} but outcome={kind} (mid={mid})")
        stats[kind] += 1
        if kind == "seq":
            continue
        if not mid and name == "step":
            boundary += 1
        elif not mid:
            mid = True
            if after != mids[boundary]:
                raise Mismatch("mid-instruction observation differs")
            continue
        else:
            mid = False
            boundary += 1
        if after != ref[boundary]:
            raise Mismatch(f"boundary {boundary} differs after {name}()")
    return stats


def main():
    assert "/tmp/wtR_C20/" in architecture_simulator.__file__, architecture_simulator.__file__
    h = hashlib.sha256()
    totals = {"programs": 0, "instr": 0, "ok": 0, "seq": 0, "noop": 0, "finished": 0}
    reused_sims = {}
    for seed in range(300):
        rng = random.Random(20_000 + seed)
        program = gen_program(rng)
        mem = rng.choice([None, None, 64, 4096])
        if mem == 64:
            # keep every address inside the small memory
            program = "\n".join(
                l if "0x" not in l or l.lstrip().startswith("d") else l.split()[0] + " 5"
                for l in program.split("\n")
            )
        try:
            ref, rets = reference(program, mem)
        except Exception as e:  # e.g. an address outside a small memory: same on both sides
            h.update(f"{seed}:EXC:{type(e).__name__}".encode())
            continue
        n = len(ref) - 1
        bound, mids = halves(program, mem, n)
        if bound != ref:
            raise Mismatch(f"seed {seed}: half-cycle trace differs from whole-step trace")
        for o in ref:
            h.update(o.encode())
        for o in mids:
            h.update(o.encode())
        h.update(repr(rets).encode())
        for k in range(3):
            st = interleave(program, mem, ref, mids, random.Random(seed * 7 + k), h)
            for key in ("ok", "seq", "noop"):
                totals[key] += st[key]
        # one simulation object reused for every program (programs are only ever
        # (re)loaded at an instruction boundary here), executed with single cycles
        reused = reused_sims.setdefault(mem, ToySimulation(mem) if mem else ToySimulation())
        if reused.next_cycle != 1:
            raise Mismatch("reused simulation is not at an instruction boundary")
        reused.load_program(program)
        for i in range(n):
            reused.single_step()
            h.update(observe(reused).encode())
            reused.single_step()
            o = observe(reused)
            h.update(o.encode())
            if i > 0 and o != ref[i + 1]:
                raise Mismatch(f"seed {seed}: reused simulation differs at boundary {i + 1}")
        totals["programs"] += 1
        totals["instr"] += n
        totals["finished"] += int(rets[-1] is False) if rets else 0
    print("summary:", sorted(totals.items()))
    print("digest :", h.hexdigest())


if __name__ == "__main__":
    try:
        main()
    except Mismatch as m:
        print("PROPERTY VIOLATION:", m)
        sys.exit(1)
    sys.exit(0)
