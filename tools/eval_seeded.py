#!/venv/bin/python
"""Validate and evaluate sub-agent seeded changes.

usage: eval_seeded.py <PROP> <out_dir> [--scale S] [--tier quick] [--checks C02,C07] [--keep-as NAME_PREFIX]

For each patch_k.diff in out_dir:
  1. scratch git worktree of /repo HEAD (under /tmp), apply the patch
  2. existing test suite must pass, demo_k.py must fail; without the patch demo_k.py must pass
  3. run the registered check(s) against the patched scratch tree (VERIF_REPO), evidence/replays diverted
  4. if confirmed, store /verif/seeded/<PROP>-<k>/{patch.diff, demo.py, notes.md, meta.json}
  5. remove the worktree
"""
import json
import os
import shutil
import subprocess
import sys
import time

PY = "/venv/bin/python"


def sh(cmd, **kw):
    return subprocess.run(cmd, capture_output=True, text=True, **kw)


def main():
    prop, out = sys.argv[1], sys.argv[2]
    arg = lambda n, d=None: sys.argv[sys.argv.index(n) + 1] if n in sys.argv else d  # noqa: E731
    scale = arg("--scale", "1.0")
    tier = arg("--tier", "quick")
    checks = (arg("--checks") or prop).split(",")
    ks = sorted(int(f.split("_")[1].split(".")[0]) for f in os.listdir(out) if f.startswith("patch_") and f.endswith(".diff"))
    offset = int(arg("--offset", "0"))  # round 2 outputs are stored as <PROP>-<k+offset>
    only = arg("--only")
    if only:
        ks = [k for k in ks if str(k) in only.split(",")]
    for k in ks:
        patch = os.path.join(out, f"patch_{k}.diff")
        demo = os.path.join(out, f"demo_{k}.py")
        notes = os.path.join(out, f"notes_{k}.md")
        kk = k + offset
        wt = f"/tmp/ev_{prop}_{kk}"
        sh(["git", "-C", "/repo", "worktree", "remove", "--force", wt])
        shutil.rmtree(wt, ignore_errors=True)
        for _ in range(8):  # several evaluations may run side by side; git serialises worktree edits with a lock file
            r = sh(["git", "-C", "/repo", "worktree", "add", "-q", "--detach", wt, "HEAD"])
            if r.returncode == 0 and os.path.isdir(wt):
                break
            time.sleep(2)
        meta = {"property": prop, "k": kk, "round": 1 + (kk - 1) // 3, "source": "independent sub-agent given only the property text and a scratch worktree"}
        try:
            env = dict(os.environ, PYTHONPATH=wt)
            clean_demo = sh([PY, demo], cwd=wt, env=env, timeout=600)
            r = sh(["git", "-C", wt, "apply", patch])
            if r.returncode != 0:
                print(f"{prop}-{kk}: patch does not apply: {r.stderr[:300]}")
                continue
            t = sh([PY, "-m", "pytest", "-q", "-p", "no:cacheprovider"], cwd=wt, env=env, timeout=1200)
            tests_ok = t.returncode == 0
            d = sh([PY, demo], cwd=wt, env=env, timeout=600)
            meta.update(tests_pass_with_change=tests_ok, tests_tail=t.stdout.strip().splitlines()[-1:] ,
                        demo_rc_with_change=d.returncode, demo_rc_without_change=clean_demo.returncode)
            confirmed = tests_ok and d.returncode != 0 and clean_demo.returncode == 0
            meta["confirmed"] = confirmed
            results = {}
            for c in checks:
                env2 = dict(os.environ, VERIF_REPO=wt, VERIF_SCALE=scale, VERIF_NO_RESAMPLE="1",
                            VERIF_EVIDENCE_DIR=f"/tmp/ev_{prop}_{kk}_evidence", VERIF_REPLAY_DIR=f"/tmp/ev_{prop}_{kk}_replays")
                t0 = time.monotonic()
                p = sh([PY, "-m", "dst", "check", c, "--tier", tier], cwd="/verif", env=env2, timeout=7200)
                kinds = sorted({ln.strip().split(":")[0] for ln in p.stdout.splitlines() if ln.startswith("  ") and ": {" in ln})
                verdict = {0: "missed", 1: "caught", 2: "harness-error"}.get(p.returncode, f"rc={p.returncode}")
                results[c] = {"verdict": verdict, "violation_kinds": kinds, "seconds": round(time.monotonic() - t0, 1),
                              "cmd": f"VERIF_REPO=<patched tree> VERIF_SCALE={scale} {PY} -m dst check {c} --tier {tier}"}
                if verdict == "harness-error":
                    results[c]["tail"] = p.stdout.splitlines()[-12:]
                # keep one minimised replay as illustration
                rd = f"/tmp/ev_{prop}_{kk}_replays"
                if os.path.isdir(rd):
                    for f in sorted(os.listdir(rd))[:1]:
                        try:
                            doc = json.load(open(os.path.join(rd, f)))
                            results[c]["example_minimised_replay"] = {"violation": doc.get("violation"), "readable": doc.get("readable")}
                        except Exception:
                            pass
                shutil.rmtree(rd, ignore_errors=True)
                shutil.rmtree(f"/tmp/ev_{prop}_{kk}_evidence", ignore_errors=True)
            meta["checks"] = results
            print(f"{prop}-{kk}: confirmed={confirmed} tests_pass={tests_ok} demo with/without={d.returncode}/{clean_demo.returncode} -> "
                  + ", ".join(f"{c}:{v['verdict']}{v['violation_kinds'][:2]}" for c, v in results.items()), flush=True)
            if confirmed:
                dst = f"/verif/seeded/{prop}-{kk}"
                os.makedirs(dst, exist_ok=True)
                shutil.copy(patch, os.path.join(dst, "patch.diff"))
                shutil.copy(demo, os.path.join(dst, "demo.py"))
                if os.path.exists(notes):
                    shutil.copy(notes, os.path.join(dst, "notes.md"))
                    meta["needs_to_manifest"] = "see notes.md (written by the sub-agent)"
                meta["ran"] = [
                    "git worktree add <scratch> HEAD; git apply patch.diff",
                    "PYTHONPATH=<scratch> /venv/bin/python -m pytest -q -p no:cacheprovider  (must pass)",
                    "PYTHONPATH=<scratch> /venv/bin/python demo.py  (must fail with the change, pass without)",
                ] + [v["cmd"] for v in results.values()]
                old = {}
                mp = os.path.join(dst, "meta.json")
                if os.path.exists(mp):
                    try:
                        old = json.load(open(mp))
                    except Exception:
                        old = {}
                hist = old.get("history", [])
                if old.get("checks"):
                    hist.append({"checks": {c: v.get("verdict") for c, v in old["checks"].items()}, "at": old.get("evaluated_at")})
                meta["history"] = hist
                meta["evaluated_at"] = time.strftime("%Y-%m-%d %H:%M:%S")
                meta["verif_commit"] = sh(["git", "-C", "/verif", "rev-parse", "--short", "HEAD"]).stdout.strip()
                json.dump(meta, open(mp, "w"), indent=1, default=repr)
        finally:
            sh(["git", "-C", "/repo", "worktree", "remove", "--force", wt])
            shutil.rmtree(wt, ignore_errors=True)


if __name__ == "__main__":
    main()
