"""Differential check for property C07 (five-stage retire times / cycle count).

Self-contained.  Generates a few hundred random RV32IM programs (fixed seeds)
with every hazard distance, nested stalls and flushes, loops, calls/returns,
ecalls at arbitrary positions, random initial register state and random cache
configurations / miss penalties, runs them step by step in five-stage mode with
hazard detection and prints digests of

  * the per-step schedule: (cycle counter, retired-instruction count, address of
    the instruction that retired in that step) - i.e. the retire time of every
    dynamic instruction and the total cycle count,
  * the per-step increment of the cycle counter together with the number of
    cache misses of that step (penalty clause),
  * the n+4 rule for straight-line independent programs,
  * the remaining observable results (registers, output, exit code, counters).

Run it on the unchanged and on the changed tree: the output must be identical.

FOCUS of this copy: pipeline control (stalls, nested stalls, flushes that hit a
stalled pipeline, ecall drains, errors raised in the middle of a step).
"""
import hashlib
import random
import sys

import fixedint

import architecture_simulator
from architecture_simulator.simulation.riscv_simulation import RiscvSimulation
from architecture_simulator.uarch.memory.cache import CacheOptions
from architecture_simulator.isa.riscv.instruction_types import EmptyInstruction

FOCUS = "pipeline-control"
N_PROGRAMS = 420
MAX_STEPS = 2500
CACHE_FRACTION = 0.35
ERROR_FRACTION = 0.15

REGS = [1, 2, 3, 4, 5, 6, 7, 10]  # small pool -> many hazards
R_OPS = ["add", "sub", "and", "or", "xor", "slt", "sltu", "sll", "srl", "sra",
         "mul", "mulh", "mulhu", "div", "divu", "rem", "remu"]
I_OPS = ["addi", "andi", "ori", "xori", "slti", "sltiu"]
SH_OPS = ["slli", "srli", "srai"]
B_OPS = ["beq", "bne", "blt", "bge", "bltu", "bgeu"]
ECALL_PRINT_CODES = [1, 11, 34, 35, 36]


class Gen:
    def __init__(self, rng: random.Random, error_program: bool):
        self.rng = rng
        self.lines: list[str] = []
        self.label_id = 0
        self.functions: list[str] = []
        self.error_program = error_program
        self.loop_counters = [15, 16, 18]

    def reg(self, allow_zero=True):
        r = self.rng
        if allow_zero and r.random() < 0.12:
            return 0
        return r.choice(REGS)

    def new_label(self, prefix="L"):
        self.label_id += 1
        return f"{prefix}{self.label_id}"

    def simple(self):
        r = self.rng
        k = r.random()
        if k < 0.30:
            self.lines.append(f"{r.choice(R_OPS)} x{self.reg()}, x{self.reg()}, x{self.reg()}")
        elif k < 0.52:
            self.lines.append(f"{r.choice(I_OPS)} x{self.reg()}, x{self.reg()}, {r.randint(-2048, 2047)}")
        elif k < 0.58:
            self.lines.append(f"{r.choice(SH_OPS)} x{self.reg()}, x{self.reg()}, {r.randint(0, 31)}")
        elif k < 0.63:
            self.lines.append(f"lui x{self.reg()}, {r.randint(0, 1048575)}")
        elif k < 0.66:
            self.lines.append(f"auipc x{self.reg()}, {r.randint(0, 1048575)}")
        elif k < 0.76:
            base = r.choice([8, 9])
            op = r.choice(["lw", "lh", "lhu", "lb", "lbu"])
            align = 4 if op == "lw" else 2 if op in ("lh", "lhu") else 1
            off = r.randrange(0, 96, align)
            self.lines.append(f"{op} x{self.reg()}, {off}(x{base})")
        elif k < 0.86:
            base = r.choice([8, 9])
            op = r.choice(["sw", "sh", "sb"])
            align = 4 if op == "sw" else 2 if op == "sh" else 1
            off = r.randrange(0, 96, align)
            self.lines.append(f"{op} x{self.reg()}, {off}(x{base})")
        elif k < 0.89:
            # rewrite a base register with the value it already has (hazard on the address register)
            self.lines.append(r.choice(["lui x8, 4", "addi x9, x8, 64", "addi x8, x8, 0"]))
        elif k < 0.93:
            self.lines.append(r.choice(["nop", "add x0, x0, x0", "fence x0, x0"]) if r.random() < 0.8 else "nop")
        elif k < 0.96:
            self.lines.append(f"addi x17, x0, {r.choice(ECALL_PRINT_CODES)}")
        else:
            self.lines.append("ecall")

    def block(self, depth, budget):
        r = self.rng
        n = r.randint(1, budget)
        for _ in range(n):
            k = r.random()
            if depth < 3 and k < 0.09:
                # forward conditional branch over a short block
                lab = self.new_label()
                self.lines.append(f"{r.choice(B_OPS)} x{self.reg()}, x{self.reg()}, {lab}")
                self.block(depth + 1, r.randint(1, 4))
                self.lines.append(f"{lab}:")
            elif depth < 3 and self.loop_counters and k < 0.15:
                # counted loop
                c = self.loop_counters.pop()
                lab = self.new_label()
                self.lines.append(f"addi x{c}, x0, {r.randint(1, 4)}")
                if r.random() < 0.5:
                    self.simple()
                self.lines.append(f"{lab}:")
                self.block(depth + 1, r.randint(1, 5))
                self.lines.append(f"addi x{c}, x{c}, -1")
                for _ in range(r.choice([0, 0, 1, 2, 3])):
                    self.simple()
                self.lines.append(f"bne x{c}, x0, {lab}")
                self.loop_counters.append(c)
            elif k < 0.19:
                # unconditional forward jump
                lab = self.new_label()
                self.lines.append(f"jal x{r.choice([0, 11])}, {lab}")
                for _ in range(r.randint(0, 3)):
                    self.simple()
                self.lines.append(f"{lab}:")
            elif k < 0.23:
                # call of a leaf function placed after the end of the main program
                f = self.new_label("F")
                self.functions.append(f)
                self.lines.append(f"jal x12, {f}")
            elif k < 0.25:
                # ecall directly behind producers of a7/a0 (drain + late register read)
                self.lines.append(f"addi x17, x0, {r.choice(ECALL_PRINT_CODES)}")
                for _ in range(r.choice([0, 0, 1, 2])):
                    self.simple()
                self.lines.append("ecall")
            elif self.error_program and k < 0.30:
                self.lines.append(r.choice([
                    "lw x1, 0(x0)",            # data address below the data memory
                    "sw x1, -2048(x0)",
                    "addi x17, x0, 77",        # invalid ecall code
                    "lh x2, 3(x8)",            # word crossing access
                    "sw x2, 1(x8)",
                ]))
                if "x17" in self.lines[-1]:
                    self.lines.append("ecall")
            else:
                self.simple()

    def program(self):
        r = self.rng
        self.lines += ["lui x8, 4", "addi x9, x8, 64", "addi x17, x0, 1"]
        r.shuffle(self.lines)
        if self.lines.index("addi x9, x8, 64") < self.lines.index("lui x8, 4"):
            self.lines.remove("addi x9, x8, 64")
            self.lines.append("addi x9, x8, 64")
        self.block(0, r.randint(3, 28))
        end = r.random()
        if end < 0.45:
            self.lines += ["addi x17, x0, 10"]
            for _ in range(r.choice([0, 0, 1, 2, 3])):
                self.simple()
            self.lines += ["ecall"]
        elif end < 0.65:
            self.lines += [f"addi x10, x0, {r.randint(0, 99)}", "addi x17, x0, 93", "ecall"]
        elif self.functions:
            self.lines += [f"jal x0, END"]
        # trailing instructions behind an exit ecall (must be flushed)
        if end < 0.65:
            for _ in range(r.randint(0, 4)):
                self.simple()
            if self.functions:
                pass
        for f in self.functions:
            self.lines.append(f"{f}:")
            for _ in range(r.randint(0, 3)):
                self.simple()
            self.lines.append("jalr x0, x12, 0")
        if end >= 0.65 and self.functions:
            self.lines.append("END:")
            if r.random() < 0.5:
                self.lines.append("nop")
        return "\n".join(self.lines) + "\n"


def random_cache(rng: random.Random, force=False) -> CacheOptions:
    enable = force or rng.random() < 0.7
    return CacheOptions(
        enable=enable,
        num_index_bits=rng.randint(0, 3),
        num_block_bits=rng.randint(0, 2),
        associativity=rng.choice([1, 2, 4]),
        cache_type=rng.choice(["wb", "wt"]),
        replacement_strategy=rng.choice(["lru", "plru"]),
        miss_penalty=rng.choice([0, 1, 2, 3, 5, 9]),
    )


def no_cache() -> CacheOptions:
    return CacheOptions(False, 0, 0, 1, "wb", "lru", 0)


def misses(mem) -> int:
    st = mem.get_cache_stats() if hasattr(mem, "get_cache_stats") else None
    if not st:
        return 0
    return int(st["accesses"]) - int(st["hits"])


def run_case(seed: int, schedule_h, penalty_h, other_h, totals):
    rng = random.Random(seed)
    error_program = rng.random() < ERROR_FRACTION
    program = Gen(rng, error_program).program()
    use_cache = rng.random() < CACHE_FRACTION
    dc = random_cache(rng) if use_cache else no_cache()
    ic = random_cache(rng) if use_cache else no_cache()
    sim = RiscvSimulation(mode="five_stage_pipeline", detect_data_hazards=True,
                          data_cache=dc, instruction_cache=ic)
    sim.load_program(program)
    st = sim.state
    for reg in REGS:
        if rng.random() < 0.8:
            st.register_file.registers[reg] = fixedint.UInt32(rng.choice(
                [0, 1, 2, 0xFFFFFFFF, 0x80000000, rng.getrandbits(32), rng.randint(0, 40)]))
    m = st.performance_metrics
    steps = 0
    error = None
    retire_log = []
    while not sim.is_done() and steps < MAX_STEPS:
        c0 = m.cycles
        d0, i0 = misses(st.memory), misses(st.instruction_memory)
        try:
            sim.step()
        except Exception as e:  # error programs: record class and the state of the counters
            error = type(e).__name__ + ": " + repr(e)
        steps += 1
        wb = st.pipeline.pipeline_registers[-1] if error is None else None
        retired = None
        if wb is not None and not isinstance(wb.instruction, EmptyInstruction):
            retired = wb.address_of_instruction
            retire_log.append((retired, m.cycles))
        schedule_h.update(repr((seed, steps, m.cycles, m.instruction_count, retired)).encode())
        if error is None:
            # GUI-visible occupancy of the pipeline registers and the fetch address
            other_h.update(repr((steps, st.program_counter, [
                (type(pr).__name__, pr.address_of_instruction, repr(pr.instruction))
                for pr in st.pipeline.pipeline_registers])).encode())
        dmiss, imiss = misses(st.memory) - d0, misses(st.instruction_memory) - i0
        expected = 1 + dmiss * (dc.miss_penalty if dc.enable else 0) + imiss * (ic.miss_penalty if ic.enable else 0)
        penalty_h.update(repr((seed, steps, m.cycles - c0, dmiss, imiss)).encode())
        if error is None and m.cycles - c0 != expected:
            totals["penalty_violations"] += 1
        if error is not None:
            break
    other_h.update(repr((seed, [int(x) for x in st.register_file.registers], st.output,
                         st.exit_code, m.stalls, m.flushes, m.branch_count, m.procedure_count,
                         st.program_counter, error, steps,
                         st.memory.get_cache_stats() if hasattr(st.memory, "get_cache_stats") else None,
                         st.instruction_memory.get_cache_stats() if hasattr(st.instruction_memory, "get_cache_stats") else None,
                         )).encode())
    totals["programs"] += 1
    totals["steps"] += steps
    totals["cycles"] += m.cycles
    totals["retired"] += m.instruction_count
    totals["stalls"] += m.stalls
    totals["flushes"] += m.flushes
    totals["errors"] += error is not None
    totals["cached"] += use_cache
    totals["timeouts"] += (steps >= MAX_STEPS)
    totals["exits"] += st.exit_code is not None
    return m.cycles


def straight_line(rng: random.Random, n: int) -> str:
    """n mutually independent instructions (distinct destinations, sources never written)."""
    dests = list(range(1, 32))
    rng.shuffle(dests)
    lines = []
    for i in range(n):
        d = dests[i % len(dests)] if i < 31 else 0
        k = rng.random()
        if k < 0.5:
            lines.append(f"addi x{d}, x0, {rng.randint(-2048, 2047)}")
        elif k < 0.8:
            lines.append(f"lui x{d}, {rng.randint(0, 1048575)}")
        else:
            lines.append(f"add x{d}, x0, x0")
    return "\n".join(lines) + "\n"


def main():
    print("using", architecture_simulator.__file__, file=sys.stderr)  # stderr: not part of the compared output
    schedule_h, penalty_h, other_h = hashlib.sha256(), hashlib.sha256(), hashlib.sha256()
    totals = dict(programs=0, steps=0, cycles=0, retired=0, stalls=0, flushes=0, errors=0,
                  cached=0, timeouts=0, exits=0, penalty_violations=0)
    per_seed = []
    for seed in range(1000, 1000 + N_PROGRAMS):
        per_seed.append(run_case(seed, schedule_h, penalty_h, other_h, totals))
    print("focus:", FOCUS)
    print("totals:", totals)
    print("cycles of first 40 programs:", per_seed[:40])
    print("schedule digest (cycle, retired count, retired address per step):", schedule_h.hexdigest())
    print("penalty digest (cycle increment, data misses, instr misses per step):", penalty_h.hexdigest())
    print("other results digest (pipeline occupancy per step, registers, output, exit code, counters, cache stats):", other_h.hexdigest())

    # n+4 rule
    rng = random.Random(4242)
    bad = 0
    sl = hashlib.sha256()
    for n in list(range(1, 40)) + [rng.randint(40, 120) for _ in range(20)]:
        sim = RiscvSimulation(mode="five_stage_pipeline", detect_data_hazards=True,
                              data_cache=no_cache(), instruction_cache=no_cache())
        sim.load_program(straight_line(rng, n))
        sim.run()
        c = sim.state.performance_metrics.cycles
        sl.update(repr((n, c, sim.state.performance_metrics.instruction_count)).encode())
        bad += c != n + 4
    print("straight-line programs violating n+4:", bad, "digest:", sl.hexdigest())


if __name__ == "__main__":
    main()
