"""Seeded batch runner: fork pool, watchdogs, strict outcome classification,
minimisation, fresh-process replay, determinism resampling, evidence.

Exit codes:  0 property held on everything explored (possibly KNOWN-FINDING lines)
             1 at least one `VIOLATION property=<id> replay=<path>` line
             2 harness error - the check itself is broken; nothing it says is believed
"""
import faulthandler
import json
import multiprocessing
import os
import signal
import subprocess
import sys
import time
import traceback
from concurrent.futures import ProcessPoolExecutor, wait, FIRST_COMPLETED

from . import findings, rng
from .repo import VERIF_DIR, activate, repo_path
from .result import Aggregate, Result
from .shrink import Budget

# overridable so that the sensitivity self-test (which aims a check at a mutated scratch copy)
# never touches the committed evidence or the replay directory
EVIDENCE_DIR = os.environ.get("VERIF_EVIDENCE_DIR") or os.path.join(VERIF_DIR, "evidence")
REPLAY_DIR = os.environ.get("VERIF_REPLAY_DIR") or os.path.join(VERIF_DIR, "replays")


class RunTimeout(BaseException):
    """Raised by the per-run wall watchdog. BaseException so that `except Exception`
    around calls into the system under test cannot swallow it."""


def _alarm(signum, frame):
    raise RunTimeout()


WALL_FACTOR = 6  # a run may take this many times its CPU budget in wall time (other jobs on the machine)


def guarded(fn, timeout_s: float):
    """Run fn() under the per-run watchdog. Returns (value, timed_out).

    The budget is *CPU time of this process* (ITIMER_PROF), so that a loaded machine - sixteen workers of this
    check next to whatever else is running - cannot turn a slow but finite run into a "hang"; a run that blocks
    without consuming CPU is caught by a wall timer at WALL_FACTOR times the budget."""
    old_a = signal.signal(signal.SIGALRM, _alarm)
    old_p = signal.signal(signal.SIGPROF, _alarm)
    signal.setitimer(signal.ITIMER_PROF, timeout_s)
    signal.setitimer(signal.ITIMER_REAL, WALL_FACTOR * timeout_s)
    try:
        return fn(), False
    except RunTimeout:
        return None, True
    finally:
        signal.setitimer(signal.ITIMER_PROF, 0)
        signal.setitimer(signal.ITIMER_REAL, 0)
        signal.signal(signal.SIGALRM, old_a)
        signal.signal(signal.SIGPROF, old_p)


def isolated(fn, timeout_s=600):
    """Run fn() in a forked child and return its (picklable) result.  The parent of a check never executes
    code of the system under test itself: a defect that pollutes process-wide state (class attributes,
    module tables) would otherwise make the second execution in the same process behave differently from
    the first, and minimisation and confirmation would stop reproducing."""
    import pickle

    r, w = os.pipe()
    pid = os.fork()
    if pid == 0:
        code = 0
        try:
            os.close(r)
            try:
                payload = pickle.dumps(("ok", fn()))
            except BaseException as e:  # noqa: BLE001
                payload = pickle.dumps(("err", repr(e) + "\n" + traceback.format_exc()))
            with os.fdopen(w, "wb") as f:
                f.write(payload)
        except BaseException:  # noqa: BLE001
            code = 1
        finally:
            os._exit(code)
    os.close(w)
    data = b""
    deadline = time.monotonic() + timeout_s
    import select

    with os.fdopen(r, "rb") as f:
        while True:
            left = deadline - time.monotonic()
            if left <= 0:
                try:
                    os.kill(pid, signal.SIGKILL)
                except OSError:
                    pass
                break
            ready, _, _ = select.select([f], [], [], min(left, 5))
            if ready:
                chunk = os.read(f.fileno(), 1 << 20)
                if not chunk:
                    break
                data += chunk
    try:
        os.waitpid(pid, 0)
    except OSError:
        pass
    if not data:
        raise RuntimeError("isolated execution produced no result (child died or timed out)")
    kind, val = pickle.loads(data)
    if kind == "err":
        raise RuntimeError("isolated execution failed: " + val)
    return val


def execute_guarded(batch, trace, prop, hang_is_violation) -> Result:
    res, timed_out = guarded(lambda: batch.execute(trace, prop), batch.per_run_timeout_s)
    if timed_out:
        res = Result()
        res.hang = f"watchdog expired ({batch.per_run_timeout_s:.0f} s of CPU time or {WALL_FACTOR}x that in wall time)"
        res.digest = "hang"
    if res.hang and hang_is_violation and not res.violations:
        res.violate(prop, "hang", detail_text=res.hang)
    return res


def run_guarded(batch, seed, prop, hang_is_violation):
    out, timed_out = guarded(lambda: batch.run(seed, prop), batch.per_run_timeout_s)
    if timed_out:
        # regenerate the trace (generation alone is cheap and cannot hang on SUT code
        # for batches that separate generation from execution)
        try:
            trace, _ = guarded(lambda: batch.generate(seed), batch.per_run_timeout_s)
        except NotImplementedError:
            trace = None
        if trace is None:
            trace = {"seed": seed, "note": "trace unavailable: run timed out during generation"}
        res = Result()
        res.hang = f"watchdog expired ({batch.per_run_timeout_s:.0f} s of CPU time or {WALL_FACTOR}x that in wall time)"
        res.digest = "hang"
    else:
        trace, res = out
    if res.hang and hang_is_violation and not res.violations:
        res.violate(prop, "hang", detail_text=res.hang)
    return trace, res


# ---------------------------------------------------------------------------
# worker side

_CHECKS = None


def _registry():
    global _CHECKS
    if _CHECKS is None:
        from .. import checks

        _CHECKS = checks.registry()
    return _CHECKS


def _find_batch(prop, batch_name):
    cd = _registry()[prop]
    for b in cd.batches:
        if b.name == batch_name:
            return cd, b
    raise KeyError(batch_name)


def _run_chunk(prop, batch_name, start, end, root, digest_every, state_mask=0):
    """Every chunk runs in its own forked child of the (clean) pool worker: whatever a run leaves behind in
    process-wide state can reach at most the later runs of the same chunk, and a violation that only shows
    after such a history can be reproduced from the chunk's start (see _history_dependent)."""
    cd, batch = _find_batch(prop, batch_name)
    return isolated(
        lambda: _run_chunk_inner(prop, batch_name, start, end, root, digest_every, state_mask),
        batch.per_run_timeout_s * (end - start) + 120,
    )


def _run_chunk_inner(prop, batch_name, start, end, root, digest_every, state_mask=0):
    faulthandler.enable()
    cd, batch = _find_batch(prop, batch_name)
    agg = Aggregate()
    # note: no faulthandler.dump_traceback_later here - in a forked child it can deadlock on
    # the parent's watchdog lock; the per-run SIGALRM watchdog and the parent's
    # silent-chunk deadline bound every run instead.
    try:
        for i in range(start, end):
            seed = rng.run_seed(root, prop, batch_name, i)
            try:
                trace, res = run_guarded(batch, seed, prop, cd.hang_is_violation)
            except Exception:
                agg.errors.append(
                    f"harness exception in {prop}/{batch_name} run {i} (seed {seed}):\n"
                    + traceback.format_exc()
                )
                if len(agg.errors) >= 3:
                    break
                continue
            if res.hang and not cd.hang_is_violation and not res.violations:
                agg.hangs.append(
                    f"run {prop}/{batch_name}/{i} exceeded its budget ({res.hang}); "
                    "this property has no termination clause, so this is a harness error"
                )
                continue
            if state_mask:
                # thorough tier: keep a 1/(mask+1) hash sample of the coverage signatures (memory bound)
                res.states = {h for h in res.states if not (h & state_mask)}
                res.trans = {h for h in res.trans if not (h & state_mask)}
            trace_meta = dict(trace)
            trace_meta.setdefault("run_index", i)
            agg.add(batch_name, i, seed, trace_meta, res, digest_every and i % digest_every == 0, start)
    finally:
        pass
    return agg


# ---------------------------------------------------------------------------
# parent side


def _workers() -> int:
    try:
        n = int(os.environ.get("VERIF_WORKERS", "0"))
    except ValueError:
        n = 0
    return n if n > 0 else min(16, os.cpu_count() or 1)


def _plan(cd, tier):
    scale = float(os.environ.get("VERIF_SCALE", "1.0"))
    plan = []
    only = os.environ.get("VERIF_ONLY_BATCH")  # development aid: one batch of a check (no registered command sets it)
    for b in cd.batches:
        if only and b.name not in only.split(","):
            continue
        n = b.runs_quick if tier == "quick" else b.runs_thorough
        n = max(1, int(n * scale))
        plan.append((b, n))
    return plan


def digests_for(prop, batch_name, indices, root):
    """Re-execute the given run indices and return {index: digest} (used by the
    fresh-interpreter determinism resample)."""
    activate()
    cd, batch = _find_batch(prop, batch_name)
    out = {}
    for i in indices:
        seed = rng.run_seed(root, prop, batch_name, i)
        _, res = run_guarded(batch, seed, prop, cd.hang_is_violation)
        out[str(i)] = res.digest
    return out


def _resample(prop, agg, root, limit):
    """Second execution of a sample of runs in a fresh interpreter under another
    PYTHONHASHSEED; returns (resampled, equal, mismatches)."""
    by_batch = {}
    for (batch, index), d in sorted(agg.digests.items()):
        by_batch.setdefault(batch, []).append((index, d))
    resampled = equal = 0
    mismatches = []
    for batch, items in by_batch.items():
        items = items[:limit]
        if not items:
            continue
        env = dict(os.environ)
        env["PYTHONHASHSEED"] = "271828"
        env["VERIF_SEED"] = str(root)
        cmd = [sys.executable, "-m", "dst", "digests", prop, batch] + [str(i) for i, _ in items]
        try:
            p = subprocess.run(
                cmd, cwd=VERIF_DIR, env=env, capture_output=True, text=True, timeout=900
            )
            got = json.loads(p.stdout.strip().splitlines()[-1])
        except Exception as e:  # noqa: BLE001
            mismatches.append(f"{batch}: resample process failed: {e!r}")
            continue
        for index, d in items:
            resampled += 1
            if got.get(str(index)) == d:
                equal += 1
            else:
                mismatches.append(f"{batch}/{index}: {d[:12]} vs {str(got.get(str(index)))[:12]}")
    return resampled, equal, mismatches


def _history_dependent(cd, batch, prop, kind, root, chunk_start, index, trace):
    """A violation seen by a worker that does not reproduce on its own: re-run the earlier runs of its chunk
    in a fresh child and look again.  Returns a (ddmin-reduced) list of prelude indices or None."""
    batch_name = batch.name

    def attempt(indices):
        def body():
            for i in indices:
                try:
                    run_guarded(batch, rng.run_seed(root, prop, batch_name, i), prop, cd.hang_is_violation)
                except Exception:  # noqa: BLE001
                    pass
            r = execute_guarded(batch, trace, prop, cd.hang_is_violation)
            return [v for v in r.violations if v["property"] == prop and v["kind"] == kind], r.digest, batch.describe(trace)

        try:
            return isolated(body, WALL_FACTOR * batch.per_run_timeout_s * (len(indices) + 1) + 60)
        except Exception:  # noqa: BLE001
            return [], "", None

    full = list(range(chunk_start, index))
    if not full:
        return None
    got = attempt(full)
    if not got[0]:
        return None
    from .shrink import ddmin_list

    budget = Budget(max_execs=60, max_seconds=90)
    keep = ddmin_list(full, lambda ix: bool(attempt(ix)[0]), budget)
    final = attempt(keep)
    if not final[0]:
        keep, final = full, got
    return keep, final


def _kind_key(v):
    return (v["property"], v["kind"])


def _minimise(cd, batch, trace, prop, kind):
    budget = Budget(
        max_execs=int(os.environ.get("VERIF_SHRINK_EXECS", "2000")),
        max_seconds=float(os.environ.get("VERIF_SHRINK_S", "20")),
    )

    def still_fails(cand) -> bool:
        try:
            vios = isolated(lambda: execute_guarded(batch, cand, prop, cd.hang_is_violation).violations,
                            WALL_FACTOR * batch.per_run_timeout_s + 30)
        except Exception:
            return False
        return any(v["kind"] == kind and v["property"] == prop for v in vios)

    try:
        small = batch.shrink(trace, prop, still_fails, budget)
    except Exception:
        small = trace
    # never return something that no longer fails
    if small is not trace and not still_fails(small):
        small = trace
    return small, budget.execs


def _write_replay(prop, batch, root, index, seed, trace, res, minimised, shrink_execs, readable=None, prelude=None):
    os.makedirs(REPLAY_DIR, exist_ok=True)
    v = next((x for x in res.violations if x["property"] == prop), None)
    doc = {
        "property": prop,
        "engine": batch.engine,
        "batch": batch.name,
        "verif_seed": root,
        "run_index": index,
        "run_seed": seed,
        "trace": trace,
        "violation": v,
        "all_violations": res.violations,
        "minimised": minimised,
        "shrink_executions": shrink_execs,
        "digest": res.digest,
        "readable": readable if readable is not None else batch.describe(trace),
    }
    if prelude:
        doc["prelude"] = prelude
    path = os.path.join(REPLAY_DIR, f"{prop}-{batch.name}-{root}-{index}.json")
    with open(path, "w") as f:
        json.dump(doc, f, indent=1, sort_keys=True, default=repr)
    return path


def replay(path: str) -> int:
    activate()
    with open(path) as f:
        doc = json.load(f)
    prop = doc["property"]
    cd, batch = _find_batch(prop, doc["batch"])
    prelude = doc.get("prelude")
    if prelude:
        # the violation depends on what earlier simulated runs left behind in this process
        print(f"  executing {len(prelude['indices'])} prelude runs of batch {prelude['batch']} first")
        _, pb = _find_batch(prop, prelude["batch"])
        for i in prelude["indices"]:
            try:
                run_guarded(pb, rng.run_seed(prelude["verif_seed"], prop, prelude["batch"], i), prop, cd.hang_is_violation)
            except Exception:  # noqa: BLE001
                pass
    res = execute_guarded(batch, doc["trace"], prop, cd.hang_is_violation)
    want = doc.get("violation") or {}
    same = [
        v for v in res.violations if v["property"] == prop and v["kind"] == want.get("kind")
    ]
    print(f"replay {path}")
    print(f"  property={prop} engine={batch.engine} batch={batch.name} digest={res.digest}")
    if same:
        print("  REPRODUCED: " + json.dumps(same[0], sort_keys=True, default=repr))
        if doc.get("digest") and doc["digest"] != res.digest:
            print(f"  note: event-log digest differs from recorded ({doc['digest'][:16]}…)")
        print(f"VIOLATION property={prop} replay={path}")
        return 1
    if res.violations:
        print("  different violation(s): " + json.dumps(res.violations, default=repr)[:2000])
        print(f"VIOLATION property={prop} replay={path}")
        return 1
    print("  not reproduced on this tree (the property holds on this trace)")
    return 0


def _fresh_replay(path):
    env = dict(os.environ)
    env["PYTHONHASHSEED"] = "314159"
    p = subprocess.run(
        [sys.executable, "-m", "dst", "replay", path],
        cwd=VERIF_DIR,
        env=env,
        capture_output=True,
        text=True,
        timeout=600,
    )
    return p.returncode, p.stdout + p.stderr


def run_check(prop: str, tier: str) -> int:
    t0 = time.monotonic()
    root = rng.verif_seed()
    print(f"VERIF_SEED={root} property={prop} tier={tier} repo={repo_path()}", flush=True)
    activate()
    reg = _registry()
    if prop not in reg:
        print(f"error: no check registered for {prop}")
        return 2
    cd = reg[prop]
    if tier == "thorough":
        os.environ["VERIF_DEEP"] = "1"  # inherited by the pool workers, their children and the resample process
    plan = _plan(cd, tier)
    nworkers = _workers()
    wall_cap = float(
        os.environ.get("VERIF_BUDGET_S", "240" if tier == "quick" else "2400")
    )
    total_runs = sum(n for _, n in plan)
    digest_every = max(1, total_runs // (60 if tier == "quick" else 200))
    state_mask = 0 if tier == "quick" else 15  # thorough: 1/16 hash sample of coverage signatures

    # chunks, interleaved across batches so that a wall cap cuts all batches evenly
    chunks = []
    for b, n in plan:
        size = max(1, min(500, n // (nworkers * 4) or 1))
        chunks.append([(b, s, min(n, s + size)) for s in range(0, n, size)])
    order = []
    while any(chunks):
        for c in chunks:
            if c:
                order.append(c.pop(0))

    agg = Aggregate()
    capped = False
    ctx = multiprocessing.get_context("fork")
    pool = ProcessPoolExecutor(max_workers=nworkers, mp_context=ctx)
    pending = {}
    try:
        it = iter(order)
        exhausted = False
        while True:
            while not exhausted and len(pending) < nworkers * 2:
                try:
                    b, s, e = next(it)
                except StopIteration:
                    exhausted = True
                    break
                if time.monotonic() - t0 > wall_cap:
                    capped = True
                    exhausted = True
                    break
                fut = pool.submit(_run_chunk, prop, b.name, s, e, root, digest_every, state_mask)
                pending[fut] = (b, s, e, time.monotonic())
            if not pending:
                break
            done, _ = wait(list(pending), timeout=5, return_when=FIRST_COMPLETED)
            now = time.monotonic()
            for fut in done:
                b, s, e, _ts = pending.pop(fut)
                try:
                    agg.merge(fut.result())
                except Exception as ex:  # dead worker, pickling problem, ...
                    agg.errors.append(f"chunk {b.name}[{s}:{e}] failed: {ex!r}")
            for fut, (b, s, e, ts) in list(pending.items()):
                if now - ts > b.per_run_timeout_s * (e - s) + 120:
                    agg.errors.append(f"chunk {b.name}[{s}:{e}] silent for {now - ts:.0f}s; killed")
                    pending.pop(fut)
                    fut.cancel()
            if len(agg.errors) >= 5:
                break
            # stop early once enough distinct violations are in hand
            if len({_kind_key(v) for x in agg.violations for v in x[4]}) >= 3:
                capped = capped or not exhausted
                break
    finally:
        for fut in pending:
            fut.cancel()
        procs = list((getattr(pool, "_processes", None) or {}).values())
        for p in procs:
            try:
                p.kill()
            except Exception:
                pass
        pool.shutdown(wait=False, cancel_futures=True)

    run_wall = time.monotonic() - t0
    exit_code = 0
    lines = []
    known_hit = []
    replays = []

    # ---- violations: one representative per kind (lowest run index), minimised
    by_kind = {}
    for batch_name, index, seed, trace, vios, hang, cstart in sorted(agg.violations, key=lambda x: (x[1], x[0])):
        for v in vios:
            if v["property"] != prop:
                continue
            by_kind.setdefault(v["kind"], (batch_name, index, seed, trace, cstart))
    for kind, (batch_name, index, seed, trace, cstart) in sorted(by_kind.items())[:4]:
        _, batch = _find_batch(prop, batch_name)
        trace = {k: v for k, v in trace.items() if k != "run_index"}
        small, execs = _minimise(cd, batch, trace, prop, kind)

        def _final(b=batch, t=small):
            r = execute_guarded(b, t, prop, cd.hang_is_violation)
            return r.violations, r.digest, b.describe(t)

        try:
            vios_f, digest_f, readable_f = isolated(_final, WALL_FACTOR * batch.per_run_timeout_s + 30)
        except Exception as ex:  # noqa: BLE001
            agg.errors.append(f"confirmation of violation {kind} of run {batch_name}/{index} failed: {ex!r}")
            continue
        res = Result()
        res.violations = vios_f
        res.digest = digest_f
        prelude = None
        mine = [v for v in res.violations if v["property"] == prop and v["kind"] == kind]
        if not mine:
            # not reproducible on its own: does it depend on the earlier runs of its chunk?
            hd = _history_dependent(cd, batch, prop, kind, root, cstart, index, trace)
            if hd is None:
                agg.errors.append(
                    f"violation {kind} of run {batch_name}/{index} did not reproduce in a fresh process, "
                    f"neither alone nor after the earlier runs of its chunk ({cstart}..{index - 1})"
                )
                continue
            keep, (mine, digest_f, readable_f) = hd
            small = trace
            res.violations = list(mine)
            res.digest = digest_f
            prelude = {"batch": batch_name, "indices": keep, "verif_seed": root,
                       "note": "the violation only shows after these earlier simulated runs in the same process "
                               "(state leaking between simulations)"}
            for v in mine:
                v.setdefault("detail", {})["history_dependent"] = f"after {len(keep)} earlier run(s) in the same process"
        res.violations = mine + [v for v in res.violations if v not in mine]
        entry = findings.match(prop, small, mine[0])
        path = _write_replay(prop, batch, root, index, seed, small, res, small is not trace, execs, readable_f, prelude)
        rc, out = _fresh_replay(path)
        if rc != 1:
            agg.errors.append(
                f"replay of {path} in a fresh interpreter did not reproduce (rc={rc}):\n{out[-1500:]}"
            )
            continue
        if entry is not None:
            if entry["what"] not in known_hit:
                known_hit.append(entry["what"])
                lines.append(f"KNOWN-FINDING: property={prop} {entry['what']}")
        else:
            replays.append(path)
            lines.append(
                f"  {kind}: {json.dumps(mine[0], sort_keys=True, default=repr)[:600]}"
            )
            lines.append(f"VIOLATION property={prop} replay={path}")
            exit_code = 1

    # ---- determinism resample (fresh interpreter, other PYTHONHASHSEED)
    resampled = equal = 0
    # (skipped once a violation is confirmed: a defect may pollute process-wide state, which makes digests
    # depend on what a worker ran before - the confirmed replay in a fresh interpreter is the evidence then)
    if agg.hangs:
        if exit_code == 1:
            # a violation of the property was found, minimised and reproduced in a fresh process: runs that in
            # addition exceeded their budget do not take that away (they are reported, not counted)
            lines.append(f"  note: {len(agg.hangs)} run(s) exceeded their budget and were not evaluated, e.g. {agg.hangs[0]}")
        else:
            agg.errors.extend(sorted(agg.hangs))
    if not agg.errors and exit_code == 0 and os.environ.get("VERIF_NO_RESAMPLE") != "1":
        resampled, equal, mism = _resample(prop, agg, root, 40 if tier == "quick" else 150)
        if mism:
            agg.errors.append("nondeterminism detected: " + "; ".join(mism[:5]))

    wall = time.monotonic() - t0
    if agg.evaluations == 0 and not agg.errors:
        agg.errors.append("no run was evaluated")

    # ---- evidence
    evidence = {
        "property_id": prop,
        "tier": tier,
        "seed": root,
        "level": "exploration",
        "wall_s": round(wall, 2),
        "violations": len(replays),
        "coverage": {
            "evaluations": agg.evaluations,
            "distinct_nontrivial": len(agg.nontrivial_digests),
            "rule": cd.rule,
            "samples": [
                {
                    "which": name,
                    "batch": s[2],
                    "run_index": s[1],
                    "case": _find_batch(prop, s[2])[1].describe(
                        {k: v for k, v in s[3].items() if k != "run_index"}
                    ),
                }
                for name, s in sorted(agg.samples.items())
            ],
            "exhaustive": False,
            "runs_per_batch": dict(sorted(agg.per_batch.items())),
            "discarded_runs": dict(sorted(agg.discarded.items())),
            "runs_per_hour": int(agg.evaluations / max(run_wall, 1e-6) * 3600),
            "seeds": {
                "verif_seed": root,
                "derivation": "run_seed = sha256(f'{VERIF_SEED}/{property}/{batch}/{index}')[:8]",
                "indices": {b.name: [0, n - 1] for b, n in plan},
                "stopped_early_by_wall_cap": capped,
            },
            "simulated_time": dict(sorted(agg.sim.items())),
            "simulated_time_unit": cd.time_unit,
            "faults_injected": dict(sorted(agg.faults.items())),
            "runs_with_a_fired_fault": agg.fault_runs,
            "probes": dict(sorted(agg.probes.items())),
            "oracle_relaxations_applied": dict(sorted(agg.relaxations.items())),
            "distinct_states": {
                "states": len(agg.states) * (state_mask + 1),
                "transitions": len(agg.trans) * (state_mask + 1),
                "counted": "exactly" if not state_mask else f"estimated: {len(agg.states)} states / {len(agg.trans)} transitions in a 1/{state_mask + 1} hash sample",
                "measure": cd.state_measure,
            },
            "components": {"real": cd.components_real, "stub": cd.components_stub},
            "determinism": {
                "resampled_in_fresh_interpreter_other_hashseed": resampled,
                "digests_equal": equal,
            },
            "known_findings_hit": known_hit,
            "workers": nworkers,
        },
        "assumptions": cd.assumptions,
    }
    if not agg.errors:
        os.makedirs(EVIDENCE_DIR, exist_ok=True)
        tmp = os.path.join(EVIDENCE_DIR, f".{prop}.json.tmp")
        with open(tmp, "w") as f:
            json.dump(evidence, f, indent=1, sort_keys=True, default=repr)
        os.replace(tmp, os.path.join(EVIDENCE_DIR, f"{prop}.json"))

    # ---- report
    print(
        f"{prop} {tier}: {agg.evaluations} runs in {wall:.1f}s "
        f"({evidence['coverage']['runs_per_hour']} runs/h, {nworkers} workers), "
        f"{len(agg.nontrivial_digests)} distinct non-trivial, "
        f"{len(agg.states) * (state_mask + 1)} states / {len(agg.trans) * (state_mask + 1)} transitions, "
        f"faults fired: {sum(agg.faults.values())} in {agg.fault_runs} runs, "
        f"determinism {equal}/{resampled}"
    )
    zero = [p for p in cd.required_probes if agg.probes.get(p, 0) == 0]
    if zero:
        print(f"  note: probes at zero in this run: {', '.join(zero)}")
    for ln in lines:
        print(ln)
    if agg.errors:
        print("HARNESS ERROR (check is broken; nothing above is to be believed):")
        for e in agg.errors[:5]:
            print("  " + e.replace("\n", "\n  "))
        return 2
    if exit_code == 0:
        print(f"OK property={prop} held on everything explored")
    sys.stdout.flush()
    return exit_code
