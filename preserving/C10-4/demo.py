"""Differential check for change 1 (C10: LRU evicts the least recently used, PLRU follows its tree).

Only the public surface of the replacement policies is used (constructor, access,
get_next_to_replace, get_repr), plus the memory systems that drive them.
Prints digests of everything the property talks about; the output has to be the
same on the unchanged and on the changed code.

Run:  cd /tmp/wtR2_C10 && PYTHONPATH=/tmp/wtR2_C10 /venv/bin/python /tmp/outR2_C10/demo_1.py
"""
import hashlib
import random
import sys

from fixedint import UInt8, UInt16, UInt32

from architecture_simulator.uarch.memory.memory import Memory, AddressingType
from architecture_simulator.uarch.memory.replacement_strategies import LRU, PLRU
from architecture_simulator.uarch.memory.write_back_memory_system import (
    WriteBackMemorySystem,
)
from architecture_simulator.uarch.memory.write_through_memory_system import (
    WriteThroughMemorySystem,
)
from architecture_simulator.uarch.riscv.riscv_performance_metrics import (
    RiscvPerformanceMetrics,
)

SEED_BASE = 1010_1


class Digest:
    def __init__(self) -> None:
        self.h = hashlib.sha256()
        self.n = 0

    def add(self, *items) -> None:
        self.h.update(repr(items).encode())
        self.n += 1

    def hex(self) -> str:
        return self.h.hexdigest()[:24]


# ---------------------------------------------------------------- reference models
class RefLRU:
    def __init__(self, n: int) -> None:
        self.n = n
        self.clock = 0
        # never accessed blocks: older than everything, in index order
        self.last = [i - n for i in range(n)]

    def access(self, i: int) -> None:
        self.clock += 1
        self.last[i] = self.clock

    def victim(self) -> int:
        return min(range(self.n), key=lambda b: self.last[b])

    def ages(self) -> list[int]:
        order = sorted(range(self.n), key=lambda b: self.last[b])
        return [order.index(b) for b in range(self.n)]


class RefPLRU:
    """Tree as a dict keyed by (depth, prefix); bit 0 = victim is in the left half."""

    def __init__(self, n: int) -> None:
        self.n = n
        self.depth = n.bit_length() - 1
        self.bits = {}
        for d in range(self.depth):
            for p in range(2**d):
                self.bits[(d, p)] = 0

    def access(self, i: int) -> None:
        for d in range(self.depth):
            prefix = i >> (self.depth - d)
            went = (i >> (self.depth - d - 1)) & 1
            self.bits[(d, prefix)] = 1 - went  # point away

    def victim(self) -> int:
        p = 0
        for d in range(self.depth):
            p = 2 * p + self.bits[(d, p)]
        return p

    def heap(self) -> list[int]:
        return [self.bits[(d, p)] for d in range(self.depth) for p in range(2**d)]


def as_ints(x) -> list[int]:
    return [int(v) for v in x]


# ---------------------------------------------------------------- part A: random histories
def random_histories() -> None:
    dg = Digest()
    cases = 0
    mismatches = 0
    rng = random.Random(SEED_BASE)
    configs = [("lru", n) for n in (1, 2, 3, 4, 5, 6, 7, 8, 11, 16)] + [
        ("plru", n) for n in (1, 2, 4, 8, 16, 32)
    ]
    for kind, n in configs:
        for rep in range(12):
            pol = LRU(n) if kind == "lru" else PLRU(n)
            ref = RefLRU(n) if kind == "lru" else RefPLRU(n)
            cases += 1
            dg.add(kind, n, rep, pol.get_next_to_replace(), as_ints(pol.get_repr()))
            for step in range(120):
                r = rng.random()
                if r < 0.25:
                    idx = pol.get_next_to_replace()  # "miss": touch the victim
                elif r < 0.45 and step:
                    idx = last  # same block twice in a row
                else:
                    idx = rng.randrange(n)
                before = (pol.get_next_to_replace(), as_ints(pol.get_repr()))
                pol.access(idx)
                ref.access(idx)
                after = (pol.get_next_to_replace(), as_ints(pol.get_repr()))
                if step and idx == last and before != after:
                    mismatches += 1
                if kind == "lru":
                    want = (ref.victim(), ref.ages())
                else:
                    want = (ref.victim(), ref.heap())
                if after != want:
                    mismatches += 1
                dg.add(idx, after)
                last = idx
    print(f"A random histories: cases={cases} records={dg.n} mismatches={mismatches} digest={dg.hex()}")


# ---------------------------------------------------------------- part B: exhaustive small
def exhaustive() -> None:
    for kind, n in [("lru", 1), ("lru", 2), ("lru", 3), ("lru", 4), ("lru", 5),
                    ("plru", 1), ("plru", 2), ("plru", 4), ("plru", 8)]:
        def fresh(history):
            pol = LRU(n) if kind == "lru" else PLRU(n)
            ref = RefLRU(n) if kind == "lru" else RefPLRU(n)
            for i in history:
                pol.access(i)
                ref.access(i)
            return pol, ref

        def key(pol):
            return (pol.get_next_to_replace(), tuple(as_ints(pol.get_repr())))

        pol0, _ = fresh(())
        seen = {key(pol0): ()}
        frontier = [()]
        transitions = 0
        bad = 0
        dg = Digest()
        while frontier:
            nxt = []
            for hist in frontier:
                for i in range(n):
                    pol, ref = fresh(hist + (i,))
                    transitions += 1
                    k = key(pol)
                    want = (ref.victim(), tuple(ref.ages() if kind == "lru" else ref.heap()))
                    if k != want:
                        bad += 1
                    pol.access(i)  # second access in a row: no change
                    if key(pol) != k:
                        bad += 1
                    dg.add(hist, i, k)
                    if k not in seen:
                        seen[k] = hist + (i,)
                        nxt.append(hist + (i,))
            frontier = nxt
        print(f"B exhaustive {kind}{n}: states={len(seen)} transitions={transitions} bad={bad} digest={dg.hex()}")


# ---------------------------------------------------------------- part C: through the caches
def through_caches() -> None:
    dg = Digest()
    rng = random.Random(SEED_BASE + 7)
    cases = 0
    for case in range(160):
        strategy = rng.choice(["lru", "plru"])
        assoc = rng.choice([1, 2, 4, 8] if strategy == "plru" else [1, 2, 3, 4, 5, 8])
        index_bits = rng.choice([0, 1, 2])
        block_bits = rng.choice([0, 1, 2])
        cls = rng.choice([WriteThroughMemorySystem, WriteBackMemorySystem])
        memory = Memory(AddressingType.BYTE, 32, True)
        ms = cls(
            memory=memory,
            num_index_bits=index_bits,
            num_block_bits=block_bits,
            associativity=assoc,
            performance_metrics=RiscvPerformanceMetrics(),
            replacement_strategy=strategy,
        )
        cases += 1
        # a pool of block-distinct addresses, somewhat larger than the cache
        span = 4 * 2**block_bits
        n_blocks = (2**index_bits) * assoc + rng.randrange(1, 6)
        pool = [b * span for b in rng.sample(range(4 * n_blocks), n_blocks)]
        dg.add(case, strategy, assoc, index_bits, block_bits, cls.__name__)
        for step in range(80):
            addr = rng.choice(pool) + 4 * rng.randrange(2**block_bits)
            op = rng.randrange(6)
            if op == 0:
                ms.write_word(addr, UInt32(rng.getrandbits(32)))
            elif op == 1:
                ms.write_halfword(addr + rng.choice([0, 2]), UInt16(rng.getrandbits(16)))
            elif op == 2:
                ms.write_byte(addr + rng.randrange(4), UInt8(rng.getrandbits(8)))
            elif op == 3:
                dg.add(int(ms.read_byte(addr + rng.randrange(4))))
            else:
                dg.add(int(ms.read_word(addr)))
            stats = ms.get_cache_stats()
            dg.add(step, op, addr, stats["hits"], stats["accesses"], bool(stats["last_hit"]))
            if step % 8 == 7:
                rep = ms.cache_repr()
                for s in rep.sets:
                    dg.add(
                        s.index,
                        as_ints(s.replacement_status),
                        [(b.valid_bit, b.dirty_bit, b.tag, b.address_value_list) for b in s.blocks],
                    )
        # victims as the policies report them, per set
        dg.add([z.replacement_strategy.get_next_to_replace() for z in ms.cache.sets])
    print(f"C through caches: cases={cases} records={dg.n} digest={dg.hex()}")


if __name__ == "__main__":
    random_histories()
    exhaustive()
    through_caches()
    sys.exit(0)
