"""Registry: property id -> CheckDef (which batches of which engine decide it)."""
from .core.batch import CheckDef

MEM_REAL = [
    "uarch/memory/memory.py (Memory)",
    "uarch/memory/write_back_memory_system.py",
    "uarch/memory/write_through_memory_system.py",
    "uarch/memory/base_cache_memory_system.py",
    "uarch/memory/cache.py (Cache, CacheSet, CacheBlock)",
    "uarch/memory/replacement_strategies.py (LRU, PLRU)",
    "uarch/memory/decoded_address.py",
    "util/integer_manipulation.py",
    "uarch/riscv/riscv_performance_metrics.py (cycle counter)",
]
MEM_STUB = ["the caller of the memory system (normally the MEM stage / the parser) is the simulator"]

_REG = None


def registry():
    global _REG
    if _REG is not None:
        return _REG
    from .memsim import engine as M
    from .pipesim import checks as P
    from .lifesim import engine as L

    reg = {}

    def add(cd):
        reg[cd.prop] = cd

    mem_state = (
        "distinct abstractions (per set: (valid, dirty, tag) of every way + replacement state) of the "
        "implementation's cache reached after any operation; transitions = distinct (state, op kind, width, state')"
    )
    add(
        CheckDef(
            prop="C03",
            title="data cache is transparent",
            batches=[
                M.CacheHistories("mem-faultfree", False, 60000, 900000),
                M.CacheHistories("mem-faults", True, 60000, 900000),
                P.Programs("pipe-dcache", 25000, 400000, force={"dc_on": True, "ic_on": False}),
                P.Programs("pipe-dcache-long", 600, 20000, force={"dc_on": True, "ic_on": False}, long=True),
            ],
            design_ref="DESIGN.md §5, §7 C03",
            rule=(
                "memsim: seeded access histories (<=100 ops, 0.5 % marathons of 260-4400 ops: R/W of 1/2/4 bytes, counted/uncounted, preload, reset, "
                "inspect; F-access faults: word-crossing, below 0x4000, wrapping past 2^32, negative, >=2^32) against "
                "WriteBack/WriteThrough systems of random tiny geometries; every read compared with a byte map, every "
                "must-reject access must raise and leave the logical content unchanged, final sweep reads every touched "
                "word. pipesim: programs in {single,five} x {cache off,on}. A run is non-trivial iff >=3 accesses were "
                "accepted and an eviction or a rejected access happened (memsim) / >=3 instructions retired with a load "
                "or store (pipesim); distinct = distinct event-log digest."
            ),
            components_real=MEM_REAL,
            components_stub=MEM_STUB,
            assumptions=[
                "white-box reads of cache.sets[i].blocks[j] and memory.memory_file are side-effect free",
                "preloads happen only on an untouched hierarchy (their only caller is the parser)",
            ],
            state_measure=mem_state,
            time_unit="operations issued; penalty_ticks = miss penalties added to the simulated cycle counter",
            required_probes=[
                "eviction (wb)",
                "eviction (wt)",
                "crossing write on miss (wt)",
                "crossing write on hit (wt)",
                "crossing read on miss (wb)",
                "uncounted read that misses",
            ],
        )
    )
    add(
        CheckDef(
            prop="C09",
            title="data-cache hit/miss accounting and penalties",
            batches=[
                M.CacheHistories("mem-faultfree", False, 60000, 900000),
                M.CacheHistories("mem-faults", True, 40000, 600000),
                P.Programs("pipe-dcache", 40000, 600000, force={"dc_on": True, "ic_on": False}),
                P.Programs("pipe-dcache-long", 800, 25000, force={"dc_on": True, "ic_on": False}, long=True),
            ],
            design_ref="DESIGN.md §5, §7 C09",
            rule=(
                "memsim: same histories as C03; (hits, accesses, last_hit) and residency compared with an independent "
                "reference cache after every accepted counted access, cycle-counter delta == penalty iff miss; uncounted "
                "reads, preloads and inspections must leave counters and cycles untouched. Non-trivial iff >=3 accepted "
                "accesses and an eviction or rejected access; distinct = distinct event-log digest."
            ),
            components_real=MEM_REAL,
            components_stub=MEM_STUB,
            assumptions=[
                "after a rejected access or an uncounted read the reference's residency/replacement state is "
                "re-synchronised from the implementation (C09 places those outside the accounting claim); the number of "
                "re-synchronisations is reported under oracle_relaxations_applied",
            ],
            state_measure=mem_state,
            time_unit="operations issued; penalty_ticks = miss penalties added to the simulated cycle counter",
            required_probes=["write miss under no-write-allocate", "read-allocate", "eviction (wb)"],
        )
    )
    add(
        CheckDef(
            prop="C10",
            title="replacement policies",
            batches=[
                M.CacheHistories("mem-faultfree", False, 40000, 600000),
                M.CacheHistories("mem-faults", True, 20000, 300000),
                M.PolicyWalks("policy-walk", 60000, 900000),
                M.SetWalks("set-walk", 30000, 450000),
            ],
            design_ref="DESIGN.md §5, §7 C10",
            rule=(
                "memsim: on every accepted access the way touched / the way displaced by an observed fill must be the "
                "one an independent LRU (timestamps) / PLRU (explicit recursive tree) predicts, and get_repr() of every "
                "set must equal the reference ranks / tree bits; plus a policy-level walk driving LRU(n)/PLRU(n) "
                "directly for n<=16 (access, access-same-twice, victim-then-fill, query) and a set-level walk driving "
                "Cache.read_block / Cache.write_block directly on multi-set caches (write hits and fills without a preceding read). Non-trivial iff the walk has "
                ">=3 steps and n>=2 / the history has an eviction; distinct = distinct event-log digest."
            ),
            components_real=MEM_REAL,
            components_stub=MEM_STUB,
            assumptions=["sampling of policy states, not the exhaustive exploration the property text suggests"],
            state_measure=mem_state + "; policy walk: distinct (policy, ways, get_repr()) values",
            time_unit="operations issued",
            required_probes=["fill displacing a valid block", "policy touch on read hit", "policy touch on write hit", "plru tree of depth >= 2 exercised"],
        )
    )
    add(
        CheckDef(
            prop="C12",
            title="write-through current, write-back never loses",
            batches=[
                M.CacheHistories("mem-faultfree", False, 50000, 800000),
                M.CacheHistories("mem-faults", True, 50000, 800000),
            ],
            design_ref="DESIGN.md §5, §7 C12",
            rule=(
                "memsim: same histories as C03; after every operation, for every touched word of the affected set(s): "
                "write-through: backing == logical and resident == backing; write-back: resident == logical, non-resident "
                "=> backing == logical; the memory table values equal the backing store; full sweep at the end. "
                "Non-trivial iff >=3 accepted accesses and an eviction or rejected access; distinct = event-log digest."
            ),
            components_real=MEM_REAL,
            components_stub=MEM_STUB,
            assumptions=["white-box reads of resident blocks and memory_file are side-effect free"],
            state_measure=mem_state,
            time_unit="operations issued",
            required_probes=["eviction (wb)", "eviction (wt)"],
        )
    )
    add(
        CheckDef(
            prop="C18",
            title="flat memory is a little-endian byte store",
            batches=[
                M.FlatHistories("flat-faultfree", False, 60000, 900000),
                M.FlatHistories("flat-faults", True, 60000, 900000),
            ],
            design_ref="DESIGN.md §5, §7 C18",
            rule=(
                "memsim: histories of reads/writes of all widths (incl. double word) on the flat Memory in the RISC-V "
                "configuration (byte cells, modulo 2^32, range [2^14,2^32)) and the TOY configuration (16-bit cells, 4096 "
                "addresses, no wrap) against a byte/cell map; MemoryAddressError iff a touched cell is out of range; an "
                "entirely-outside access changes nothing. Non-trivial iff >=3 accesses accepted; distinct = digest."
            ),
            components_real=["uarch/memory/memory.py (Memory)"],
            components_stub=MEM_STUB,
            assumptions=[
                "a write that is only partially outside the range may tear: the in-range cells are accepted as old-or-new "
                "(the statement only claims 'entirely outside changes nothing'); counted under oracle_relaxations_applied",
            ],
            state_measure="distinct small memory images (<64 cells) at the end of a run",
            time_unit="operations issued",
            required_probes=["unaligned access", "doubleword read", "accepted access through modulo-2^32 addressing"],
        )
    )

    PIPE_REAL = [
        "simulation/riscv_simulation.py (step, is_done)",
        "uarch/riscv/pipeline.py, stages.py, pipeline_registers.py, register_file.py, riscv_architectural_state.py",
        "uarch/riscv/riscv_performance_metrics.py",
        "uarch/memory/* (flat memory, both data-cache systems, instruction memory and instruction cache)",
        "isa/riscv/rv32i_instructions.py, instruction_types.py",
    ]
    PIPE_STUB = [
        "the assembler: programs are built as instruction objects and placed with instruction_memory.write_instructions() "
        "(the parser's last step); initial data memory is preloaded with directly_write_to_lower_memory=True as the parser does",
    ]
    pipe_state = (
        "distinct abstract pipeline signatures over all ticks: (class of the instruction in each of the five latches in "
        "{-, alu, load, store, branch, jal, jalr, ecall, upper}, pipeline.stalled (stage, remaining), flushes in this tick); "
        "transitions = distinct signature pairs of consecutive ticks"
    )
    pipe_time = "ticks = five-stage step() calls (simulated cycles without penalties); retired = dynamic instructions of the reference run"
    add(
        CheckDef(
            prop="C02",
            title="five-stage + interlock == single-cycle",
            batches=[P.Programs("pipe", 90000, 1500000), P.Programs("pipe-long", 1500, 60000, long=True)],
            design_ref="DESIGN.md §4, §7 C02",
            rule=(
                "pipesim: seeded programs (<=40 static / 400 dynamic instructions, personalities: register pool 2-5, "
                "instruction mix, shape straight/forward/loops/wild, boundary initial registers, random data memory, random "
                "tiny data/instruction caches on both sides, motifs, fault plan with one faulting instruction placed plain / "
                "wrong-path / in the interlock window / behind a print / before an exit) run in single-cycle mode (REF) and "
                "five-stage mode with hazard detection, tick by tick: retire order and destination value at every "
                "retirement, final registers/memory/output/exit code/counters, fault address and state at the fault, "
                "termination within 20n+100 ticks. Non-trivial iff >=3 instructions retired and a stall or flush "
                "happened; distinct = distinct event-log digest."
            ),
            hang_is_violation=True,
            components_real=PIPE_REAL,
            components_stub=PIPE_STUB,
            assumptions=[
                "program counter, flushes and stalls are not compared (C02 does not list them)",
                "ALU semantics are whatever single-cycle mode does (C01 is not decided here)",
            ],
            state_measure=pipe_state,
            time_unit=pipe_time,
            required_probes=[
                "decode stall cancelled by a flush", "interlock on rs2 only", "interlock producer at distance 2",
                "ecall drains", "flush by jalr", "flush by exit", "branch taken to pc+4", "wrong-path store squashed",
                "fault raised in five-stage mode",
            ],
        )
    )
    add(
        CheckDef(
            prop="C07",
            title="five-stage retire times and cycle count",
            batches=[
                P.Programs("pipe-timing", 70000, 1200000, faults=False),
                P.Programs("pipe-long", 1500, 50000, faults=False, long=True),
                P.Programs("pipe-independent", 15000, 200000, faults=False, force_shape="independent"),
            ],
            design_ref="DESIGN.md §4.5, §7 C07",
            rule=(
                "pipesim: same programs as C02 (fault plan off) plus the family of n mutually independent straight-line "
                "instructions; the tick at which every instruction retires and the total number of ticks are compared with "
                "closed timing recurrences over the dynamic instruction stream (independent of Pipeline/Stage), n "
                "independent instructions must take n+4, every tick must advance the cycle counter by 1 + penalties of the "
                "misses counted in that tick. Non-trivial iff >=3 retired and an interlock, drain or redirect occurred."
            ),
            components_real=PIPE_REAL,
            components_stub=PIPE_STUB,
            assumptions=[
                "retire ticks are compared only on the prefix on which retire addresses agree with single-cycle mode (a pure C02 failure is not re-reported)",
                "miss counts per tick are taken from the implementation's own counters (their correctness is C09/C11)",
            ],
            state_measure=pipe_state,
            time_unit=pipe_time,
            required_probes=["independent straight-line program", "tick with a miss penalty", "ecall drains", "interlock producer at distance 1"],
        )
    )
    add(
        CheckDef(
            prop="C08",
            title="hazard detection off == interlock-free pipeline",
            batches=[P.Programs("pipe-nohz", 45000, 700000), P.Programs("pipe-long", 800, 25000, long=True)],
            design_ref="DESIGN.md §4.6, §7 C08",
            rule=(
                "pipesim: same programs as C02 with dependency-dense register pools; five-stage mode without hazard "
                "detection against a delayed-visibility register model (the repository's sequential behavior() shown a "
                "register view containing exactly the writes whose write-back tick <= the reader's last decode tick): final "
                "registers, memory, output, exit code, total ticks, fault address; no decode stall on any tick; the same "
                "program with two nops behind every instruction against single-cycle mode. Non-trivial iff >=3 retired."
            ),
            components_real=PIPE_REAL,
            components_stub=PIPE_STUB,
            assumptions=["values come from the repository's own behavior(); only visibility timing comes from the model"],
            state_measure=pipe_state,
            time_unit=pipe_time,
            required_probes=[
                "run in which a stale register value was observed (and predicted)",
                "nop-padded program compared with single-cycle mode",
                "ecall drain with hazard detection off",
            ],
        )
    )
    add(
        CheckDef(
            prop="C11",
            title="instruction cache transparent, fetch accounting",
            batches=[P.Programs("pipe-icache", 30000, 500000, force={"ic_on": True}),
                     P.Programs("pipe-icache-long", 800, 25000, force={"ic_on": True}, long=True)],
            design_ref="DESIGN.md §7 C11",
            rule=(
                "pipesim: programs of C02 with a random tiny instruction cache in both modes: results and tick count equal "
                "the run without the cache, the object in the IF latch is the object the backing instruction memory holds, "
                "accesses == fetches derived independently (five-stage: a tick fetches iff not stalled at its start and an "
                "instruction exists at the pre-tick pc), hits == read-only reference cache fed the observed fetch "
                "addresses, cycle delta per tick == 1 + penalties. lifesim: reload clause. Non-trivial iff >=3 retired and "
                ">=2 instruction-cache misses."
            ),
            components_real=PIPE_REAL,
            components_stub=PIPE_STUB,
            assumptions=["the fetch stream is derived from pipeline.stalled and the pre-tick pc, not from the counter under test"],
            state_measure=pipe_state,
            time_unit=pipe_time,
            required_probes=["instruction-cache hit", "instruction-cache block straddles the program end", "redirected fetch with an instruction cache"],
        )
    )
    add(
        CheckDef(
            prop="C15",
            title="errors are well-typed",
            batches=[P.Programs("pipe-faults", 30000, 500000, fault_rate=0.9)],
            design_ref="DESIGN.md §7 C15",
            rule=(
                "pipesim (run-time clause): programs with a planned faulting instruction (illegal data address, wrap past "
                "2^32, word-crossing access with a data cache, invalid ecall code) in both modes: every failure is an "
                "InstructionExecutionException whose address is the failing instruction and whose text is repr() of the "
                "instruction stored there. lifesim (load clause): edit sequences under the auto-parse timer. Non-trivial iff a "
                "fault was raised."
            ),
            components_real=PIPE_REAL,
            components_stub=PIPE_STUB,
            assumptions=["TOY has no reachable run-time failure with the documented 4096-word memory; that half is vacuous"],
            state_measure=pipe_state,
            time_unit=pipe_time,
            required_probes=["run-time fault in five-stage mode"],
        )
    )

    LIFE_REAL = [
        "gui/webgui.py (get_riscv_simulation, get_toy_simulation, get_last_error fed through sys.last_value as pyodide does)",
        "simulation/riscv_simulation.py, simulation/toy_simulation.py (load_program, step, run, every inspection function)",
        "isa/riscv/riscv_parser.py, isa/toy/toy_parser.py, isa/parser.py and everything below them",
        "uarch/performance_metrics.py reading the virtual clock (module attribute `time` replaced by the simulator's clock)",
    ]
    LIFE_STUB = [
        "the browser: Python port of webgui/src/js/{base,riscv,toy}_simulation_store.js, editor_store.js, the button guards of "
        "RiscvControlButtons.vue / ToyControlButtons.vue and the settings watchers (setTimeout/clearTimeout on a discrete-event "
        "loop); JavaScript, Vue, CodeMirror and pyodide are not executed",
        "the user: a seeded process choosing among the enabled actions",
    ]
    life_state = (
        "UI mode: distinct (action performed, isRunning, error, isDone, hasStarted, hasUnparsedChanges, nextCycle) tuples; API "
        "mode: distinct (call kind, loaded, faulted, done, started) tuples; transitions = distinct bigrams of those"
    )
    life_time = "simulated_ms = virtual wall-clock milliseconds covered; events/calls = driver events or API calls issued; timers_fired = setTimeout callbacks run"
    add(
        CheckDef(
            prop="C13",
            title="lifecycle: done stable, run = step*, reload = fresh",
            batches=[
                L.ApiEpisodes("api", 2300, 60000),
                L.UiEpisodes("ui", 1900, 50000),
            ],
            design_ref="DESIGN.md §6, §7 C13",
            rule=(
                "lifesim: episodes of 3-45 driver events (UI mode: typing, auto-parse debounce, step/run/pause/reset/double-step "
                "buttons, uploads, settings changes incl. while running, clock skew/freeze; batch size 1..1000 so every run overshoots) "
                "and of 3-25 raw API calls (loads incl. failing ones, step xN, run(), inspections, resets) on single-cycle, five-stage "
                "and TOY simulations with random caches; after every event the observable snapshot of the used simulation must equal "
                "that of a simulation created fresh at the last successful load and advanced by the effective steps only; done is "
                "stable; step() returns not is_done(); empty programs are done; run() terminates when stepping does. Non-trivial iff "
                ">=3 events were performed; distinct = distinct event-log digest."
            ),
            hang_is_violation=True,
            components_real=LIFE_REAL,
            components_stub=LIFE_STUB,
            assumptions=[
                "wall-clock fields are excluded from C13 comparisons (run() touches the timer, stepping does not)",
                "nothing is asserted about an object after a run-time fault or after load_program on a started object",
            ],
            state_measure=life_state,
            time_unit=life_time,
            required_probes=["batch overshoot: step() calls after done", "run() issued", "simulation observed done", "program without instructions loaded"],
        )
    )
    add(
        CheckDef(
            prop="C16",
            title="inspection is pure",
            batches=[
                L.ApiEpisodes("api-inspect", 2300, 60000, flavour="inspect"),
                L.UiEpisodes("ui", 1600, 40000),
            ],
            design_ref="DESIGN.md §6, §7 C16",
            rule=(
                "lifesim: the same episodes as C13; the used simulation receives syncAll after every handler (UI mode) or random "
                "subsets/repetitions of the 13 RISC-V / 6 TOY inspection functions (API mode); a shadow receives the identical call "
                "history minus every inspection call; after every event the snapshot of the used simulation must equal the snapshot of "
                "a deep copy of the never-inspected shadow, wall-clock fields under the virtual clock included. Non-trivial iff >=3 "
                "events were performed."
            ),
            components_real=LIFE_REAL,
            components_stub=LIFE_STUB,
            assumptions=["copy.deepcopy of the shadow is side-effect free", "an inspection function that raises is recorded, not flagged (C16 speaks about effects, not totality)"],
            state_measure=life_state,
            time_unit=life_time,
            required_probes=["inspection calls"],
        )
    )
    add(
        CheckDef(
            prop="C20",
            title="TOY whole steps == half-cycle steps",
            batches=[
                L.ApiEpisodes("api-toy-halfsteps", 4000, 90000, isa="toy", flavour="halfsteps"),
                L.UiEpisodes("ui-toy", 1600, 30000, isa="toy"),
            ],
            design_ref="DESIGN.md §6, §7 C20",
            rule=(
                "lifesim: TOY episodes issuing step / first_cycle_step / second_cycle_step / single_step in valid and invalid orders "
                "(API mode) and the single-step / double-step buttons (UI mode); a shadow advanced by whole step() calls only must show "
                "the same snapshot (registers, memory table markers, SVG values, counters) at every instruction boundary; every "
                "out-of-order call must raise StepSequenceError and leave the snapshot unchanged; all calls are no-ops once done. "
                "Non-trivial iff >=3 calls were performed."
            ),
            components_real=LIFE_REAL,
            components_stub=LIFE_STUB,
            assumptions=[],
            state_measure=life_state,
            time_unit=life_time,
            required_probes=["instruction boundary compared with whole-step shadow", "invalid step in phase 2 rejected without effect",
                             "invalid second_cycle_step in phase 1 rejected without effect", "invalid first_cycle_step in phase 2 rejected without effect"],
        )
    )
    reg["C15"].batches += [L.UiEpisodes("ui-typing", 2500, 40000), L.ApiEpisodes("api-loads", 3000, 50000, flavour="loads")]
    reg["C15"].hang_is_violation = True
    reg["C15"].components_real = reg["C15"].components_real + LIFE_REAL
    reg["C15"].components_stub = reg["C15"].components_stub + LIFE_STUB
    reg["C11"].batches += [L.ApiEpisodes("api-reload", 2500, 40000, isa="riscv", flavour="reload"),
                           M.InstructionCacheWalks("icache-walk", 30000, 450000)]
    reg["C03"].batches += [L.CacheOnOffTexts("asm-onoff", 6000, 100000)]
    reg["C03"].rule += (" lifesim batch asm-onoff: generated assembler texts (data segments, strings, label and offset accesses, "
                        "print-string ecalls) loaded through the real assembler into a simulation without and one with the data "
                        "cache; same load outcome, termination, fault, registers, output and exit code; a text whose uncached run "
                        "performs a word-crossing access must be rejected with the cache on.")
    reg["C03"].components_real = reg["C03"].components_real + LIFE_REAL[:3]
    reg["C07"].batches += [L.TextPairs("asm-cycles", "cycles", 4000, 70000)]
    reg["C07"].rule += (" lifesim batch asm-cycles: generated assembler texts through the real assembler into a simulation without caches "
                        "and one with a data and/or instruction cache (same mode): at the end the cycle counter with caches equals the one "
                        "without plus the counted misses times the configured penalties (nothing is charged while a program is loaded).")
    reg["C07"].components_real = reg["C07"].components_real + LIFE_REAL[:3]
    reg["C10"].batches += [M.InstructionCacheWalks("icache-policy-walk", 20000, 300000)]
    reg["C10"].rule += (" memsim batch icache-policy-walk: the same spy-driven policy model on the instruction-cache system (fetch streams, "
                        "reloads, reset() - a fresh policy state is expected afterwards), in a third of the runs on the cache system the "
                        "architectural state builds from the front end's option objects next to a data cache with the other policy.")
    reg["C12"].batches += [P.Programs("pipe-dcache", 15000, 250000, force={"dc_on": True, "ic_on": False}),
                           P.Programs("pipe-dcache-long", 400, 15000, force={"dc_on": True, "ic_on": False}, long=True)]
    reg["C12"].rule += (" pipesim batch pipe-dcache: the histories that programs issue - at the end of every program, in each pipeline mode, "
                        "backing memory and resident blocks of the run with the cache against the flat memory of the run without it.")
    reg["C12"].components_real = reg["C12"].components_real + PIPE_REAL
    reg["C11"].batches += [L.TextPairs("asm-ic-onoff", "ic", 4000, 70000)]
    reg["C11"].rule += (" lifesim batch asm-ic-onoff: generated assembler texts through the real assembler into a simulation without "
                        "and one with the instruction cache (same mode): same load outcome, termination, fault, registers, memory, "
                        "output, exit code.")
    reg["C02"].batches += [L.TextPairs("asm-modes", "modes", 5000, 90000)]
    reg["C02"].rule += (" lifesim batch asm-modes: generated assembler texts (pseudo-instructions, label and offset addressing, data "
                        "segments, ecalls; CSR/FENCE/EBREAK texts discarded) through the real assembler into a single-cycle and a "
                        "five-stage simulation with the same caches: same load outcome, termination, faulting address and state at the "
                        "fault, final registers, memory, output, exit code and instruction / branch / call counts.")
    reg["C02"].components_real = reg["C02"].components_real + LIFE_REAL[:3]
    reg["C09"].batches += [L.TextPairs("asm-modes-dc", "modes-dc", 3000, 50000)]
    reg["C09"].rule += (" lifesim batch asm-modes-dc: generated assembler texts through the real assembler into a single-cycle and a "
                        "five-stage simulation with the same data cache: hit counter, access counter and last-hit flag identical at the end.")
    reg["C09"].batches += [L.ApiEpisodes("api-dcache-loads", 1200, 20000, isa="riscv", flavour="loads", force={"dc": {"enable": True}})]
    reg["C09"].components_real = reg["C09"].components_real + LIFE_REAL[:3]
    reg["C11"].components_real = reg["C11"].components_real + LIFE_REAL[:2]

    LEVEL = {
        "C02": ("Exploration by deterministic simulation: ~9e4 (quick) / ~1.5e6 (thorough) seeded programs, each run tick by tick in five-stage mode against the "
                "sequential single-cycle run of the same code (retire order and value at every retirement, final state, fault address/state, termination). Sampling, "
                "not enumeration: a clean batch is evidence, not proof. Sensitivity measured: plus ~5e3 / 9e4 assembler texts through the real parser in both modes. A fifth of the long programs contain a loop of 130-1100 iterations (counts pass 256 / 1024 / 4096 within one run). 8/8 hand-written pipeline mutants and 20/21 independently seeded changes caught (the other one needs a deep copy of a running simulation).",
                "Trusted: single-cycle mode as the reference for ALU semantics (C01 is not decided here), the IR->instruction builder, the tick recorder. Not compared: pc, flushes, stalls."),
        "C07": ("Exploration: retire tick of every dynamic instruction and total ticks of ~8.5e4 / ~1.4e6 programs compared with closed timing recurrences written from the "
                "property's wording (independent of Pipeline/Stage), the n+4 family, and the per-step cycle identity in both modes. and ~4e3 / 7e4 assembler texts without and with caches (cycle identity). 3/3 mutants, 20/21 seeded changes caught (the other one needs a user replacing the metrics object).",
                "Trusted: the recurrences of DESIGN 4.5 (validated on the repaired tree: zero disagreements), miss counts per tick taken from the implementation's own counters."),
        "C08": ("Exploration: five-stage mode without hazard detection against a delayed-visibility register model (values from the repository's own behavior(), visibility "
                "timing from the model) on ~4.5e4 / ~7e5 programs, about a quarter of which really observe stale values; nop-padded programs against single-cycle mode; a decoy "
                "instance with opposite settings alive in 30% of runs. 2/2 mutants, 21/21 seeded changes caught.",
                "Trusted: the model of DESIGN 4.6; single-cycle mode for values."),
        "C03": ("Exploration: ~1.2e5 / ~1.8e6 seeded access histories with injected rejected/torn accesses on write-back and write-through caches of random tiny (and a few "
                "huge-index) geometries against a byte map, plus ~2.5e4 / 4e5 programs in {single,five} x {cache off,on} and ~6e3 / 1e5 assembler texts through the real parser with the cache off and on. 0.5 % of the histories are marathons of 260-4400 operations (one set taking every access, or hundreds of blocks). Found D2 (fixed). 2/2 mutants (and the two of C12), 21/21 seeded changes caught.",
                "Trusted: the byte-map model; white-box reads of resident blocks and memory_file for the 'rejected access changes nothing' clause."),
        "C09": ("Exploration: counters, last-hit flag, residency and cycle delta compared with an independent reference cache after every accepted counted access of ~1e5 / "
                "~1.5e6 histories; cross-mode counter equality and one-count-per-load/store on ~4e4 / 6e5 programs; assembler preloads and ~3e3 / 5e4 texts in both modes through the real parser. the inspected simulation's accounting against a never-inspected shadow. 0.5 % of the histories are marathons of 260-4400 operations. 3/3 mutants, 20/21 seeded changes caught (the other one changes residency after a rejected access, which the quantifier excludes).",
                "Trusted: RefCache (DESIGN 5.3). After rejected accesses and uncounted reads the reference is re-synchronised from the implementation (counted in evidence)."),
        "C10": ("Exploration (weak fit, see DESIGN 7): independent LRU (timestamps) / PLRU (explicit tree) against observed touches, fills and get_repr() in ~6e4 / 9e5 cache "
                "histories, plus ~6e4 / 9e5 direct policy walks for up to 16 ways. Sampling of policy states, not the exhaustive exploration the property text suggests; the same model on the instruction-cache system incl. reset and the option wiring of the architectural state (~2e4 / 3e5 walks). 0.5 % of the histories and walks are marathons of 260-4400 operations. 3/3 mutants, 20/21 seeded changes caught (the other one changes what an uncounted read does, which no property states).",
                "Trusted: RefPolicy. The in-hierarchy oracle follows the implementation's residency and models only the policy."),
        "C11": ("Exploration: ~3e4 / 5e5 programs with a random instruction cache in both modes (object identity of the fetched instruction, results and tick count equal to the "
                "uncached run, accesses == independently derived fetch stream, hits and resident blocks == read-only reference cache, penalty identity) and ~2.5e3 / 4e4 reload episodes "
                "through load_program on started simulations, a direct walk of the instruction-cache system and ~4e3 / 7e4 assembler texts with the instruction cache off and on; penalty identity after reloads; fetch-walk marathons of up to 4400 fetches into one set. 4/4 mutants, 21/21 seeded changes caught.",
                "Trusted: the spy on read_instruction (the fetches really performed), the read-only reference cache."),
        "C12": ("Exploration: state invariant (write-through: backing == logical, resident == backing; write-back: resident == logical, non-resident => backing == logical; memory "
                "table == backing store) checked after every operation of ~1e5 / 1.6e6 histories with rejected accesses, and at the end of ~1.5e4 / 2.5e5 programs in both modes against the run without the cache; marathons of 260-4400 operations (swept completely every 40 operations and at the end). 2/2 mutants, 21/21 seeded changes caught.",
                "Trusted: byte-map model, white-box reads."),
        "C13": ("Exploration: ~6.5e3 / 1.1e5 driver episodes (ported web-UI event loop with batch overshoot, resets, settings changes while running, clock jumps; raw API calls incl. "
                "run()) on single-cycle, five-stage and TOY simulations; the used simulation must stay observably equal to one created fresh at the last load and advanced by the effective "
                "steps; every load (also failing ones) is compared with the same load on a fresh simulation (in process and in a clean-room process). 5/5 mutants, 20/21 seeded changes caught (the other one needs a deep copy of a running simulation).",
                "Trusted: the Python port of the JS driver (a wrong port only wastes effort: every sequence is a legal API use), snapshot = results of all inspection functions."),
        "C15": ("Exploration (load clause: weak fit): ~3e4 / 5e5 programs with a planned faulting instruction in both modes (type, address, text of every run-time error) and ~5.5e3 / "
                "9e4 typing/load episodes whose texts come from seeded edits incl. literal-site and unicode mutations, classified by the real get_last_error(). About 1 % of the API loads are texts of 500-2100 instructions with branches across all of them. Found D3 and D5 (fixed). 4/4 mutants, 21/21 seeded changes caught.",
                "Trusted: line counting by '\\n' (generated texts contain no other separator). 'For every input text' remains a universal over inputs that sampling cannot close."),
        "C16": ("Exploration: ~6e3 / 1e5 episodes; the inspected simulation (syncAll after every handler / random subsets and repetitions of every inspection function) must stay "
                "observably equal, wall-clock fields under the virtual clock included, to a deep copy of a shadow that received the identical history minus all inspections; process-wide state fingerprinted around inspection calls; array-sweep programs put hundreds of stores between two inspections. 3/3 mutants, 21/21 seeded changes caught.",
                "Trusted: copy.deepcopy is side-effect free; snapshot = results of all inspection functions + counters."),
        "C18": ("Exploration (weak fit): ~1.2e5 / 1.8e6 histories of reads/writes of all widths on the flat memory in RISC-V and TOY configuration incl. aliases many periods of 2^32 "
                "away, boundary and out-of-range accesses, against a cell map; the memory table against the same map. 0.5 % of the histories are marathons of 260-4400 operations over up to 3000 cells. 2/2 mutants, 17/21 seeded changes caught (the other four leave the flat memory intact and break the five-stage store path or the factory wiring; C02 / C03 / C09 / C11 report them).",
                "Trusted: the cell-map model. A write only partially outside the range may tear (old-or-new accepted, counted in evidence)."),
        "C20": ("Exploration: ~7e3 / 1.2e5 TOY episodes mixing step / first / second / single_step in valid and invalid orders and the UI's single/double-step buttons against a "
                "whole-step shadow at every instruction boundary; rejected calls must leave the snapshot unchanged. 3/3 mutants, 19/21 seeded changes caught (the other two need a non-default "
                "memory size and a run-time fault, outside the property's quantifier).",
                "Trusted: snapshot = results of all TOY inspection functions + counters; wall-clock fields excluded."),
    }
    for k, (t, n) in LEVEL.items():
        reg[k].level_text = t
        reg[k].level_note = n
    _REG = reg
    return reg
