"""Delta debugging helpers shared by the three engines.

`test(candidate) -> bool` must return True iff the candidate still shows the
*same kind of violation of the same property*.  Every helper is bounded by a
Budget (executions and wall time) so minimisation can never hang a check.
"""
import time


class Budget:
    def __init__(self, max_execs: int = 2000, max_seconds: float = 20.0) -> None:
        self.max_execs = max_execs
        self.deadline = time.monotonic() + max_seconds
        self.execs = 0

    def spent(self) -> bool:
        return self.execs >= self.max_execs or time.monotonic() > self.deadline

    def tick(self) -> None:
        self.execs += 1


def ddmin_list(items: list, test, budget: Budget, rebuild=None) -> list:
    """Classic ddmin over a list. `rebuild(sublist)` turns a sublist into a
    candidate for `test` (default: the sublist itself)."""
    rebuild = rebuild or (lambda x: x)
    n = 2
    items = list(items)
    while len(items) >= 1 and not budget.spent():
        chunk = max(1, len(items) // n)
        reduced = False
        # try removing one chunk at a time
        i = 0
        while i < len(items) and not budget.spent():
            cand = items[:i] + items[i + chunk :]
            budget.tick()
            if test(rebuild(cand)):
                items = cand
                n = max(n - 1, 2)
                reduced = True
            else:
                i += chunk
        if not reduced:
            if chunk == 1:
                break
            n = min(len(items), n * 2)
    return items


def shrink_int(value: int, test_with, budget: Budget, targets=(0, 1)) -> int:
    """Try to replace an integer by simpler ones; `test_with(v) -> bool`."""
    for t in targets:
        if budget.spent():
            return value
        if t != value:
            budget.tick()
            if test_with(t):
                return t
    # halve towards zero
    cur = value
    while cur not in (0, 1, -1) and not budget.spent():
        cand = int(cur / 2)
        budget.tick()
        if test_with(cand):
            cur = cand
        else:
            break
    return cur
