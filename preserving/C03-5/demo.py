"""Differential check for property C03 (data cache is transparent).

Focus of this demo: uncounted reads (update_statistics=False) interleaved with
counted reads and writes - uncounted reads of blocks that are cached clean,
cached dirty (write-back), not cached at all, or were just evicted; word
crossing uncounted reads; programs in single-stage mode (every load is
followed by an uncounted visualisation read) and print-string ecalls (uncounted
byte reads) of strings that were patched through the cache before.

Prints only what the property talks about: the values returned by reads
through the cached memory, whether a word-crossing access was rejected, and
(for programs) registers / output / exit code with the cache on and off.
The output has to be byte-identical before and after the change.
"""
import hashlib
import random
import sys

from fixedint import UInt8, UInt16, UInt32

from architecture_simulator.uarch.memory.memory import Memory, AddressingType
from architecture_simulator.uarch.memory.write_back_memory_system import (
    WriteBackMemorySystem,
)
from architecture_simulator.uarch.memory.write_through_memory_system import (
    WriteThroughMemorySystem,
)
from architecture_simulator.uarch.riscv.riscv_performance_metrics import (
    RiscvPerformanceMetrics,
)
from architecture_simulator.simulation.riscv_simulation import RiscvSimulation
from architecture_simulator.uarch.memory.cache import CacheOptions

WIDTH = {"b": 1, "h": 2, "w": 4}
MISMATCHES = 0
NOT_REJECTED = 0
REJECTED = 0
OPS = 0


def flat_read(flat, kind, addr):
    if kind == "b":
        return int(flat.read_byte(addr))
    if kind == "h":
        return int(flat.read_halfword(addr))
    return int(flat.read_word(addr))


def flat_write(flat, kind, addr, value):
    if kind == "b":
        flat.write_byte(addr, UInt8(value))
    elif kind == "h":
        flat.write_halfword(addr, UInt16(value))
    else:
        flat.write_word(addr, UInt32(value))


def cached_read(mem, kind, addr, counted):
    if kind == "b":
        return int(mem.read_byte(addr, counted))
    if kind == "h":
        return int(mem.read_halfword(addr, counted))
    return int(mem.read_word(addr, counted))


def cached_write(mem, kind, addr, value):
    if kind == "b":
        mem.write_byte(addr, UInt8(value))
    elif kind == "h":
        mem.write_halfword(addr, UInt16(value))
    else:
        mem.write_word(addr, UInt32(value))


def random_value(rng, kind):
    bits = 8 * WIDTH[kind]
    style = rng.randrange(4)
    if style == 0:
        return rng.choice([0, 1, (1 << bits) - 1, 1 << (bits - 1)])
    if style == 1:
        return rng.randrange(4)
    return rng.randrange(1 << bits)


def one_history(seed, policies, read_weight, uncounted_weight, n_ops):
    """Runs one random history and returns a digest of everything observable."""
    global MISMATCHES, NOT_REJECTED, REJECTED, OPS
    rng = random.Random(seed)
    index_bits = rng.randrange(0, 3)
    block_bits = rng.randrange(0, 3)
    strategy = rng.choice(["lru", "plru"])
    if strategy == "plru":
        associativity = rng.choice([1, 2, 4, 8])
    else:
        associativity = rng.randrange(1, 6)
    policy = rng.choice(policies)
    penalty = rng.choice([0, 1, 5, 20])
    capacity_words = (1 << index_bits) * (1 << block_bits) * associativity
    universe_words = capacity_words * rng.choice([2, 3, 4]) + rng.randrange(1, 5)
    base = rng.choice([0, 0x4000, 0x10000 - 64, 0xFFFF0000])
    base -= base % (4 << block_bits)

    flat = Memory(AddressingType.BYTE, 32, True)
    lower = Memory(AddressingType.BYTE, 32, True)
    # initial data preloaded below the cache
    for w in range(universe_words):
        if rng.random() < 0.6:
            v = random_value(rng, "w")
            flat.write_word(base + 4 * w, UInt32(v))
            lower.write_word(base + 4 * w, UInt32(v))
    cls = WriteBackMemorySystem if policy == "wb" else WriteThroughMemorySystem
    mem = cls(
        lower,
        index_bits,
        block_bits,
        associativity,
        RiscvPerformanceMetrics(),
        penalty,
        strategy,
    )

    trace = []
    for _ in range(n_ops):
        OPS += 1
        r = rng.random()
        if r < 0.03:
            mem.cache_repr()  # tables inspected
            mem.get_cache_stats()
            mem.wordwise_repr()
            continue
        if r < 0.04:
            # a reset clears every layer; preload again below the cache
            mem.reset()
            flat.reset()
            for w in range(universe_words):
                if rng.random() < 0.5:
                    v = random_value(rng, "w")
                    flat.write_word(base + 4 * w, UInt32(v))
                    mem.write_word(base + 4 * w, UInt32(v), True)
            trace.append("reset")
            continue
        kind = rng.choice("bhw")
        word = rng.randrange(universe_words)
        if rng.random() < 0.7:
            # hot addresses: conflicts inside few sets
            word = (word >> 1 << 1) % universe_words
        offset = rng.randrange(4)
        if rng.random() < 0.75:
            offset -= offset % WIDTH[kind]  # mostly aligned
        addr = base + 4 * word + offset
        crossing = offset + WIDTH[kind] > 4
        is_read = rng.random() < read_weight
        if is_read:
            counted = rng.random() >= uncounted_weight
            try:
                got = cached_read(mem, kind, addr, counted)
            except Exception:
                got = "ERR"
            if crossing:
                if got == "ERR":
                    REJECTED += 1
                else:
                    NOT_REJECTED += 1
                trace.append(("r", kind, addr, "ERR" if got == "ERR" else "ANSWERED"))
            else:
                want = flat_read(flat, kind, addr)
                if got != want:
                    MISMATCHES += 1
                trace.append(("r", kind, addr, got))
        else:
            value = random_value(rng, kind)
            try:
                cached_write(mem, kind, addr, value)
                outcome = "ok"
            except Exception:
                outcome = "ERR"
            if crossing:
                if outcome == "ERR":
                    REJECTED += 1
                else:
                    NOT_REJECTED += 1
            else:
                if outcome != "ok":
                    MISMATCHES += 1
                flat_write(flat, kind, addr, value)
            trace.append(("w", kind, addr, outcome))
    # final sweep: every byte and every word of the universe, through the cache
    for w in range(universe_words):
        a = base + 4 * w
        counted = rng.random() < 0.5
        got = cached_read(mem, "w", a, counted)
        if got != flat_read(flat, "w", a):
            MISMATCHES += 1
        trace.append(("s", a, got))
        for b in range(4):
            gb = cached_read(mem, "b", a + b, False)
            if gb != flat_read(flat, "b", a + b):
                MISMATCHES += 1
            trace.append(("sb", a + b, gb))
    return hashlib.sha256(repr(trace).encode()).hexdigest()


def make_program(seed):
    rng = random.Random(seed)
    n_words = rng.choice([8, 16, 24])
    words = ", ".join(str(random_value(rng, "w")) for _ in range(n_words))
    text = rng.choice(["hello", "cache on/off", "Kaesekuchen", "a", "x y z 123"])
    lines = [".data", f"    buf: .word {words}", f'    msg: .string "{text}"', ".text"]
    lines.append("la x5, buf")
    lines.append("la x28, msg")
    regs = [6, 7, 8, 9, 18, 19, 20, 21]
    for _ in range(rng.randrange(20, 50)):
        r = rng.random()
        reg = rng.choice(regs)
        word = rng.randrange(n_words)
        if r < 0.2:
            lines.append(f"li x{reg}, {rng.randrange(-2048, 2048)}")
        elif r < 0.3:
            a, b = rng.choice(regs), rng.choice(regs)
            lines.append(f"{rng.choice(['add', 'sub', 'xor', 'mul'])} x{reg}, x{a}, x{b}")
        elif r < 0.6:
            op = rng.choice(["sw", "sh", "sb"])
            off = 4 * word + {"sw": 0, "sh": rng.choice([0, 2]), "sb": rng.randrange(4)}[op]
            lines.append(f"{op} x{reg}, {off}(x5)")
        elif r < 0.95:
            op = rng.choice(["lw", "lh", "lhu", "lb", "lbu"])
            off = 4 * word
            if op in ("lh", "lhu"):
                off += rng.choice([0, 2])
            if op in ("lb", "lbu"):
                off += rng.randrange(4)
            lines.append(f"{op} x{reg}, {off}(x5)")
        else:
            # patch a printable character into the string, through the cache
            lines.append(f"li x29, {rng.randrange(65, 91)}")
            lines.append(f"sb x29, {rng.randrange(len(text))}(x28)")
    lines += ["la a0, msg", "li a7, 4", "ecall"]
    lines += [f"li a0, {rng.randrange(0, 200)}", "li a7, 93", "ecall", "addi x31, x0, 1"]
    return "\n".join(lines) + "\n"


def run_program(program, mode, options):
    sim = RiscvSimulation(mode=mode, data_cache=options)
    sim.load_program(program)
    steps = 0
    while not sim.is_done() and steps < 5000:
        sim.step()
        steps += 1
    return (
        [int(r) for r in sim.state.register_file.registers],
        sim.get_output(),
        sim.get_exit_code(),
    )


def programs(seeds):
    global MISMATCHES
    digests = []
    for seed in seeds:
        rng = random.Random(1000 + seed)
        program = make_program(seed)
        strategy = rng.choice(["lru", "plru"])
        options = CacheOptions(
            True,
            rng.randrange(0, 3),
            rng.randrange(0, 2),
            rng.choice([1, 2, 4]),
            rng.choice(["wb", "wt"]),
            strategy,
            rng.choice([0, 3, 10]),
        )
        off = CacheOptions(False, 0, 0, 1, "wb", "lru", 0)
        for mode in ("single_stage_pipeline", "five_stage_pipeline"):
            with_cache = run_program(program, mode, options)
            without = run_program(program, mode, off)
            if with_cache != without:
                MISMATCHES += 1
            digests.append(repr(with_cache))
    return hashlib.sha256("\n".join(digests).encode()).hexdigest()


def main():
    groups = [
        ("all reads uncounted", ["wb", "wt"], 0.55, 1.0, range(2000, 2100)),
        ("wb mostly uncounted", ["wb"], 0.5, 0.8, range(2200, 2320)),
        ("wt mostly uncounted", ["wt"], 0.5, 0.8, range(2400, 2480)),
        ("wb write-heavy     ", ["wb"], 0.3, 0.6, range(2600, 2680)),
        ("wb/wt long         ", ["wb", "wt"], 0.6, 0.5, range(2800, 2840)),
    ]
    for name, policies, read_weight, uncounted_weight, seeds in groups:
        n_ops = 600 if "long" in name else 150
        h = hashlib.sha256()
        for seed in seeds:
            h.update(
                one_history(seed, policies, read_weight, uncounted_weight, n_ops).encode()
            )
        print(f"histories {name} n={len(seeds):4d} digest={h.hexdigest()[:32]}")
    print(f"programs  cache on == cache off, both modes      digest={programs(range(100, 160))[:32]}")
    print(f"operations={OPS} rejected_crossing={REJECTED} crossing_answered={NOT_REJECTED} mismatches={MISMATCHES}")
    return 0 if (MISMATCHES == 0 and NOT_REJECTED == 0) else 1


if __name__ == "__main__":
    sys.exit(main())
